//! C36, stream `session-plugin` — removing a credential revokes its sessions.
//!
//! One fresh in-memory `IdmServer` per history.  Accounts: persons 1, 2 (primary password) and
//! person 3 (primary password + class `oauth2_account`, i.e. an OAuth2 trust credential uuid); an
//! OAuth2 client (basic) whose scope map covers all three.  A history is a list of self-contained
//! op strings; times are absolute nanoseconds, non-decreasing:
//!
//!   login P T               real Init/Begin/Cred password login; the UAT is kept, the queued
//!                           `AuthSessionRecord` is held back
//!   record J T              `process_delayedaction(AuthSessionRecord)` for the J-th held-back record
//!   fab P KIND SLOT EXP T   a session record through the same path (`process_authsessionrecord`)
//!                           with `cred_id` = the account's primary / passkey SLOT / attested
//!                           passkey SLOT / OAuth2 trust credential (KIND prim|pk|apk|o2c; the id is
//!                           used whether or not the credential is currently present); EXP seconds or `-`
//!   delprim P T / setprim P T   purge / purge-and-set `primary_credential` by modify
//!   pwchange P T            the credential-update session path: `init_credential_update`,
//!                           `credential_primary_set_password`, `commit_credential_update`
//!   addpk|delpk|addapk|delapk P SLOT T   `Modify::Present/Removed` on `passkeys` / `attested_passkeys`
//!   rego2c P T              purge `oauth2_account_credential_uuid` (the OAuth2 plugin re-generates it)
//!   grant K T               OAuth2 authorise (+consent) and code exchange under UAT K → access + refresh token
//!   fabgrant P PARENT EXP T `Modify::Present(oauth2_session)` as `generate_access_token_response`
//!                           does, PARENT = `-` | `s<N>` (N-th known login session of P) | `x` (unknown id)
//!   refresh G T             refresh-token exchange for grant G (always the newest refresh token)
//!   revoke K T / revokeo2 G T / purge P T   `Modify::Removed` / `Purged` on the session attributes
//!   touch P T               a modify of an unrelated attribute (time passes, the plugin runs)
//!   mmod SET KIND T         ONE `internal_modify` whose filter is `uuid=P1 OR uuid=P2 …` (SET = the account
//!                           digits, e.g. `12`, `123`) with one modlist for all of them: KIND = delprim |
//!                           setprim (the same new credential on every account) | touch | purge
//!   batch SPEC T            ONE `internal_batch_modify` with a modlist per entry: SPEC = `P:KIND,P:KIND…`,
//!                           KIND = delprim | setprim | touch | purge | addpk<S> | delpk<S> | addapk<S> | delapk<S>
//!                           The plugin works entry by entry, so the model's prediction for a multi-entry
//!                           operation is each entry's own step (`w a ct cid …`, the same `ct` and `cid` for
//!                           all of them, in candidate order = entry id = creation order = account number).
//!   present G WHEN HOW      present OAuth2 access token G at WHEN (`grace:D` = iat+300 s+D ns,
//!                           `exp:D`, `now:D`) through HOW = introspect | userinfo
//!   presentuat K WHEN       present UAT K (`grace:D` | `now:D`)
//!
//! After every write: the three accounts' credential ids, login sessions and OAuth2 sessions are
//! compared with the model (`creds` / `uats` / `o2s` of `km_c36`), the state oracle runs, and every
//! issued token is presented at the write's instant.
//!
//! Channels
//!  * impl-vs-model: the state comparison and every OAuth2 token presentation (`chk`).
//!  * impl-vs-oracle (property text only; real entries, real replies, the harness' own ledger; the
//!    grace window hard-coded to 300 s):
//!      O1  no login session that is not revoked names a credential id that is not among the
//!          account's current credentials (primary, passkeys, attested passkeys, trust credential)
//!          — checked on all accounts after every write, i.e. "in the same change";
//!      O2  on every account the operation wrote (all candidates of a multi-entry modify): no OAuth2 session that is not revoked and was issued at
//!          least 300 s ago has a parent that is revoked or missing;
//!      O3  an OAuth2 token accepted (introspect / userinfo / refresh) at or after iat + 300 s has
//!          its parent login session on the account, not revoked, issued by a credential the
//!          account still has;
//!      O4  a UAT accepted at or after issued_at + 300 s has its session on the account, not
//!          revoked, issued by a credential the account still has;
//!      O6  an OAuth2 session whose parent is revoked or missing is not used (token accepted, refresh
//!          granted) at or after *the session's* first issue + 300 s, whichever of its tokens is
//!          shown (class `C36:refresh-renews-grace-of-orphan-session`);
//!      O5  after the primary credential was purged, replaced or changed through a credential
//!          update, no login session issued with the old primary credential id is left un-revoked
//!          (class `C36:replaced-credential-keeps-sessions`).
use compact_jwt::JwsCompact;
use hlib::*;
use kanidm_proto::internal::UserAuthToken;
use kanidm_proto::oauth2::{
    AccessTokenIntrospectRequest, AccessTokenRequest, AccessTokenResponse, AuthorisationRequest, AuthorisationRequestOidc,
    ClientPostAuth, GrantTypeReq, ResponseType,
};
use kanidm_proto::v1::{AuthIssueSession, AuthMech};
use kanidmd_lib::entry::{Entry, EntryInit, EntryNew, EntrySealedCommitted};
use kanidmd_lib::idm::authentication::{AuthCredential, AuthState, ClientAuthInfo};
use kanidmd_lib::idm::credupdatesession::InitCredentialUpdateEvent;
use kanidmd_lib::idm::delayed::{AuthSessionRecord, DelayedAction};
use kanidmd_lib::idm::event::{AuthEvent, AuthEventStep, AuthEventStepCred, AuthEventStepInit, AuthEventStepMech};
use kanidmd_lib::idm::oauth2::{AuthorisationRequestContext, AuthoriseResponse};
use kanidmd_lib::idm::server::{IdmServer, IdmServerDelayed, IdmServerTransaction};
use kanidmd_lib::prelude::*;
use kanidmd_lib::testkit::{setup_idm_test, TestConfiguration};
use kanidmd_lib::value::{AuthType, Oauth2Session, SessionExtMetadata, SessionScope, SessionState};
use kanidmd_lib::verif_hooks::c27::cred_password;
use serde_json::{json, Value as Json};
use std::collections::{BTreeMap, BTreeSet};
use std::str::FromStr;
use std::time::Duration;
use url::Url;

include!("../c12_data/passkeys.rs");

const NS: u128 = 1_000_000_000;
const DAY: u128 = 86_400 * NS;
/// 2055-07-23 — far ahead of any wall clock this runs under (keys are created at the real `now`).
const T0: u128 = 2_700_000_000 * NS;
/// The grace window of the property text (5 minutes); deliberately not read from the source.
const ORACLE_GRACE: u128 = 300 * NS;
const PWS: [&str; 2] = ["eicieY7ahchaoCh0eeTa-c36", "Oor6eiphoh2Ahwae3sho-c36"];
const CLIENT: &str = "c36client";
const REDIRECT: &str = "https://c36.example.com/oauth2/result";

fn dur(ns: u128) -> Duration {
    Duration::new((ns / NS) as u64, (ns % NS) as u32)
}
fn odt(ns: u128) -> time::OffsetDateTime {
    time::OffsetDateTime::UNIX_EPOCH + dur(ns)
}
fn odt_ns(t: time::OffsetDateTime) -> u128 {
    t.unix_timestamp_nanos() as u128
}
fn u_person(n: u64) -> Uuid {
    nat_uuid(0xC36_0000 + n)
}
fn u_group() -> Uuid {
    nat_uuid(0xC36_0010)
}
fn u_client() -> Uuid {
    nat_uuid(0xC36_0011)
}
fn u_pk(p: usize, slot: u64) -> Uuid {
    nat_uuid(0xC36_1000 + 16 * p as u64 + slot)
}
fn u_apk(p: usize, slot: u64) -> Uuid {
    nat_uuid(0xC36_2000 + 16 * p as u64 + slot)
}
fn cai_none() -> ClientAuthInfo {
    ClientAuthInfo::new(Source::Internal, None, None, None)
}
fn cai_token(jws: &str) -> ClientAuthInfo {
    ClientAuthInfo::new(Source::Internal, None, JwsCompact::from_str(jws).ok(), None)
}

// ---- base64url (no padding) ------------------------------------------------------------------
const B64: &[u8; 64] = b"ABCDEFGHIJKLMNOPQRSTUVWXYZabcdefghijklmnopqrstuvwxyz0123456789-_";
fn b64_dec(s: &str) -> Option<Vec<u8>> {
    let mut out = vec![];
    let (mut acc, mut bits) = (0u32, 0u32);
    for c in s.bytes() {
        let v = B64.iter().position(|b| *b == c)? as u32;
        acc = (acc << 6) | v;
        bits += 6;
        if bits >= 8 {
            bits -= 8;
            out.push((acc >> bits) as u8);
            acc &= (1 << bits) - 1;
        }
    }
    Some(out)
}
fn jws_payload(jws: &str) -> Option<Json> {
    let parts: Vec<&str> = jws.split('.').collect();
    serde_json::from_slice(&b64_dec(parts.get(1)?)?).ok()
}

// ---- what the harness reads from a real entry ---------------------------------------------------
#[derive(Clone, Debug, PartialEq)]
enum St {
    E(u128),
    N,
    R,
}
impl St {
    fn of(s: &SessionState) -> St {
        match s {
            SessionState::ExpiresAt(t) => St::E(odt_ns(*t)),
            SessionState::NeverExpires => St::N,
            SessionState::RevokedAt(_) => St::R,
        }
    }
    fn show(&self) -> String {
        match self {
            St::E(t) => format!("E{t}"),
            St::N => "N".into(),
            St::R => "R".into(),
        }
    }
}

#[derive(Clone, Debug, Default)]
struct RealEntry {
    creds: BTreeSet<Uuid>,
    uats: Option<BTreeMap<Uuid, (St, Uuid)>>,
    o2s: BTreeMap<Uuid, (St, Option<Uuid>, u128)>,
}

// ---- ledger ---------------------------------------------------------------------------------------
#[derive(Clone, Debug)]
struct Sess {
    acct: usize,
    sid: Uuid,
    /// the credential id that issued the session, as the harness knows it at issue time
    cred: Uuid,
    jws: Option<String>,
    iat: u128,
}

#[derive(Clone, Debug)]
struct Grant {
    acct: usize,
    sid: Uuid,
    parent: Option<Uuid>,
    /// instant (ns) of the code exchange that created the session
    first_issue: u128,
    refresh: Option<String>,
    refresh_iat: u64,
    refresh_exp: u64,
}

#[derive(Clone, Debug)]
struct O2Tok {
    grant: usize,
    access: String,
    iat: u64,
    exp: u64,
}

struct World {
    idms: IdmServer,
    delayed: IdmServerDelayed,
    uuids: Vec<Uuid>,
    names: Vec<String>,
    /// index into PWS of the password the harness last set as primary (None = purged)
    pw: Vec<Option<usize>>,
    /// last primary credential uuid the harness saw on the account (used by `fab prim` when purged)
    last_prim: Vec<Uuid>,
    last_o2c: Option<Uuid>,
    sessions: Vec<Sess>,
    pending: Vec<(usize, AuthSessionRecord)>,
    grants: Vec<Grant>,
    toks: Vec<O2Tok>,
    nats: BTreeMap<Uuid, u64>,
    client_secret: String,
    now: u128,
    cid: u128,
}

#[derive(Default)]
struct Outcome {
    failures: Vec<Failure>,
    hist: BTreeMap<String, u64>,
    cred_removed_revoked: u64,
    /// sessions (login + OAuth2) revoked by the plugin in operations that wrote several entries
    multi_revoked: u64,
    o2_swept: u64,
    o2_refused_orphan: u64,
    accepted_o2_past_grace: u64,
    accepted_uat_past_grace: u64,
    presentations: u64,
    sample: Option<Json>,
}
impl Outcome {
    fn count(&mut self, k: &str) {
        *self.hist.entry(k.to_string()).or_insert(0) += 1;
    }
}

fn base_entry(name: &str, uuid: Uuid, classes: &[EntryClass]) -> Entry<EntryInit, EntryNew> {
    let mut e: Entry<EntryInit, EntryNew> = Entry::new();
    e.add_ava(Attribute::Class, EntryClass::Object.to_value());
    for c in classes {
        e.add_ava(Attribute::Class, c.to_value());
    }
    e.add_ava(Attribute::Name, Value::new_iname(name));
    e.add_ava(Attribute::Uuid, Value::Uuid(uuid));
    e.add_ava(Attribute::Description, Value::new_utf8s(name));
    if classes.iter().any(|c| matches!(c, EntryClass::Account)) {
        e.add_ava(Attribute::DisplayName, Value::new_utf8s(name));
    }
    e
}

fn cred_uuid(c: &kanidmd_lib::credential::Credential) -> Uuid {
    let v = serde_json::to_value(c.to_db_valuev1()).expect("credential json");
    Uuid::from_str(v["uuid"].as_str().expect("credential uuid")).expect("uuid")
}

impl World {
    async fn new() -> World {
        let (idms, delayed, _audit) = setup_idm_test(TestConfiguration::default()).await;
        let mut uuids = vec![];
        let mut names = vec![];
        let mut pw = idms.proxy_write(dur(T0 - DAY)).await.unwrap();
        let mut entries = vec![];
        for n in 1..=3u64 {
            let name = format!("c36person{n}");
            let uuid = u_person(n);
            let mut e = base_entry(&name, uuid, &[EntryClass::Account, EntryClass::Person]);
            e.add_ava(Attribute::PrimaryCredential, Value::new_credential("primary", cred_password(PWS[0], false).unwrap()));
            if n == 3 {
                e.add_ava(Attribute::Class, EntryClass::OAuth2Account.to_value());
                e.add_ava(Attribute::OAuth2AccountProvider, Value::Refer(u_client()));
                e.add_ava(Attribute::OAuth2AccountUniqueUserId, Value::new_utf8s("c36-remote-id"));
                e.add_ava(Attribute::OAuth2AccountUniqueUserSub, Value::new_utf8s("c36-remote-sub"));
            }
            entries.push(e);
            uuids.push(uuid);
            names.push(name);
        }
        let mut group = base_entry("c36group", u_group(), &[EntryClass::Group]);
        for u in &uuids {
            group.add_ava(Attribute::Member, Value::Refer(*u));
        }
        let mut client = base_entry(CLIENT, u_client(), &[EntryClass::Account, EntryClass::OAuth2ResourceServer, EntryClass::OAuth2ResourceServerBasic]);
        client.add_ava(Attribute::OAuth2RsOriginLanding, Value::new_url_s("https://c36.example.com").unwrap());
        client.add_ava(Attribute::OAuth2RsOrigin, Value::new_url_s(REDIRECT).unwrap());
        let scopes: BTreeSet<String> = ["openid".to_string()].into_iter().collect();
        client.add_ava(Attribute::OAuth2RsScopeMap, Value::new_oauthscopemap(u_group(), scopes).expect("scope map"));
        client.add_ava(Attribute::OAuth2AllowInsecureClientDisablePkce, Value::new_bool(true));
        entries.push(group);
        entries.push(client);
        pw.qs_write.internal_create(entries).expect("create fixtures");
        // password-only primary credentials may be committed through a credential update session
        pw.qs_write
            .internal_modify_uuid(UUID_IDM_ALL_PERSONS, &ModifyList::new_purge(Attribute::CredentialTypeMinimum))
            .expect("lower credential policy");
        let client_secret = pw
            .qs_write
            .internal_search_uuid(u_client())
            .expect("client entry")
            .get_ava_single_secret(Attribute::OAuth2RsBasicSecret)
            .map(str::to_string)
            .expect("client secret");
        pw.commit().expect("commit fixtures");
        let mut w = World {
            idms,
            delayed,
            uuids,
            names,
            pw: vec![Some(0); 3],
            last_prim: vec![Uuid::nil(); 3],
            last_o2c: None,
            sessions: vec![],
            pending: vec![],
            grants: vec![],
            toks: vec![],
            nats: BTreeMap::new(),
            client_secret,
            now: T0,
            cid: 0,
        };
        for a in 0..3 {
            let (prim, _, _, o2c) = w.read_creds(a).await;
            w.last_prim[a] = prim.expect("fixture primary credential");
            if a == 2 {
                w.last_o2c = o2c;
            }
        }
        w
    }

    fn nat(&mut self, u: Uuid) -> u64 {
        let n = self.nats.len() as u64 + 50;
        *self.nats.entry(u).or_insert(n)
    }

    async fn entry(&mut self, a: usize) -> Option<std::sync::Arc<EntrySealedCommitted>> {
        let mut r = self.idms.proxy_read().await.unwrap();
        r.qs_read.internal_search_uuid(self.uuids[a]).ok()
    }

    async fn read_creds(&mut self, a: usize) -> (Option<Uuid>, Vec<Uuid>, Vec<Uuid>, Option<Uuid>) {
        let e = self.entry(a).await.expect("account entry");
        let prim = e.get_ava_single_credential(Attribute::PrimaryCredential).map(cred_uuid);
        let pks = e.get_ava_passkeys(Attribute::PassKeys).map(|m| m.keys().copied().collect()).unwrap_or_default();
        let apks = e.get_ava_attestedpasskeys(Attribute::AttestedPasskeys).map(|m| m.keys().copied().collect()).unwrap_or_default();
        let o2c = e.get_ava_single_uuid(Attribute::OAuth2AccountCredentialUuid);
        (prim, pks, apks, o2c)
    }

    /// Everything the oracle and the correspondence need, read from the real entry only.
    async fn read(&mut self, a: usize) -> RealEntry {
        let (prim, pks, apks, o2c) = self.read_creds(a).await;
        let e = self.entry(a).await.expect("account entry");
        let mut creds: BTreeSet<Uuid> = BTreeSet::new();
        creds.extend(prim);
        creds.extend(pks);
        creds.extend(apks);
        creds.extend(o2c);
        let uats = e
            .get_ava_as_session_map(Attribute::UserAuthTokenSession)
            .map(|m| m.iter().map(|(k, s)| (*k, (St::of(&s.state), s.cred_id))).collect());
        let o2s = e
            .get_ava_as_oauth2session_map(Attribute::OAuth2Session)
            .map(|m| m.iter().map(|(k, s)| (*k, (St::of(&s.state), s.parent, odt_ns(s.issued_at)))).collect())
            .unwrap_or_default();
        RealEntry { creds, uats, o2s }
    }

    fn show_creds(&mut self, r: &RealEntry) -> String {
        let mut v: Vec<u64> = r.creds.iter().map(|u| self.nat(*u)).collect();
        v.sort();
        if v.is_empty() { "-".into() } else { v.iter().map(|x| x.to_string()).collect::<Vec<_>>().join(",") }
    }
    fn show_uats(&mut self, r: &RealEntry) -> String {
        let Some(m) = &r.uats else { return "absent".into() };
        let mut v: Vec<(u64, String)> = m
            .iter()
            .map(|(k, (st, c))| {
                let (kn, cn) = (self.nat(*k), self.nat(*c));
                (kn, format!("{kn}:{}:{cn}", st.show()))
            })
            .collect();
        v.sort();
        if v.is_empty() { "-".into() } else { v.into_iter().map(|x| x.1).collect::<Vec<_>>().join(",") }
    }
    fn show_o2s(&mut self, r: &RealEntry) -> String {
        let mut v: Vec<(u64, String)> = r
            .o2s
            .iter()
            .map(|(k, (st, p, i))| {
                let kn = self.nat(*k);
                let pn = p.map(|p| self.nat(p).to_string()).unwrap_or_else(|| "-".into());
                (kn, format!("{kn}:{}:{pn}:{i}", st.show()))
            })
            .collect();
        v.sort();
        if v.is_empty() { "-".into() } else { v.into_iter().map(|x| x.1).collect::<Vec<_>>().join(",") }
    }

    async fn drain(&mut self) -> Vec<AuthSessionRecord> {
        let mut out = vec![];
        loop {
            let mut buf: Vec<DelayedAction> = Vec::with_capacity(8);
            let n = tokio::select! {
                biased;
                n = self.delayed.recv_many(&mut buf) => n,
                _ = std::future::ready(()) => 0,
            };
            if n == 0 {
                break;
            }
            for da in buf {
                if let DelayedAction::AuthSessionRecord(asr) = da {
                    out.push(asr);
                }
            }
        }
        out
    }

    async fn login(&mut self, a: usize, t: u128) -> Option<String> {
        let ct = dur(t);
        let pw = PWS[self.pw[a].unwrap_or(0)];
        let mut au = self.idms.auth().await.unwrap();
        au.expire_auth_sessions(ct).await;
        let init = AuthEvent {
            ident: None,
            step: AuthEventStep::Init(AuthEventStepInit { username: self.names[a].clone(), issue: AuthIssueSession::Token, privileged: false }),
        };
        let r = au.auth(&init, ct, cai_none()).await.ok()?;
        let sid = r.sessionid;
        if !matches!(r.state, AuthState::Choose(_)) {
            return None;
        }
        let begin = AuthEvent { ident: None, step: AuthEventStep::Begin(AuthEventStepMech { sessionid: sid, mech: AuthMech::Password }) };
        let r = au.auth(&begin, ct, cai_none()).await.ok()?;
        if !matches!(r.state, AuthState::Continue(_)) {
            return None;
        }
        let ev = AuthEvent { ident: None, step: AuthEventStep::Cred(AuthEventStepCred { sessionid: sid, cred: AuthCredential::Password(pw.into()) }) };
        let out = match au.auth(&ev, ct, cai_none()).await {
            Ok(r) => match r.state {
                AuthState::Success(tok, _) => Some(tok.to_string()),
                _ => None,
            },
            Err(_) => None,
        };
        let _ = au.commit();
        out
    }

    async fn modify(&mut self, t: u128, uuid: Uuid, ml: ModifyList<ModifyInvalid>) -> Result<(), String> {
        let mut pw = self.idms.proxy_write(dur(t)).await.unwrap();
        let r = pw.qs_write.internal_modify(&Filter::new_ignore_hidden(FC::Eq(Attribute::Uuid, PartialValue::Uuid(uuid))), &ml);
        match r {
            Ok(()) => pw.commit().map_err(|e| format!("commit:{e:?}")),
            Err(e) => Err(format!("{e:?}")),
        }
    }

    /// One `internal_modify` over several entries: filter `uuid=u1 OR uuid=u2 …`, one modlist.
    async fn modify_many(&mut self, t: u128, uuids: &[Uuid], ml: ModifyList<ModifyInvalid>) -> Result<(), String> {
        let mut pw = self.idms.proxy_write(dur(t)).await.unwrap();
        let f = Filter::new_ignore_hidden(FC::Or(uuids.iter().map(|u| FC::Eq(Attribute::Uuid, PartialValue::Uuid(*u))).collect()));
        match pw.qs_write.internal_modify(&f, &ml) {
            Ok(()) => pw.commit().map_err(|e| format!("commit:{e:?}")),
            Err(e) => Err(format!("{e:?}")),
        }
    }

    /// One `internal_batch_modify`: a modlist per entry.
    async fn batch_modify(&mut self, t: u128, mods: Vec<(Uuid, ModifyList<ModifyInvalid>)>) -> Result<(), String> {
        let mut pw = self.idms.proxy_write(dur(t)).await.unwrap();
        match pw.qs_write.internal_batch_modify(mods.into_iter()) {
            Ok(()) => pw.commit().map_err(|e| format!("commit:{e:?}")),
            Err(e) => Err(format!("{e:?}")),
        }
    }

    fn auth_request() -> AuthorisationRequest {
        AuthorisationRequest {
            response_type: ResponseType::Code,
            response_mode: None,
            client_id: CLIENT.to_string(),
            state: Some("c36".to_string()),
            pkce_request: None,
            redirect_uri: Url::parse(REDIRECT).unwrap(),
            scope: ["openid".to_string()].into_iter().collect(),
            nonce: Some("n".to_string()),
            oidc_ext: AuthorisationRequestOidc::default(),
            max_age: None,
            prompt: Default::default(),
            ui_locales: Default::default(),
            unknown_keys: Default::default(),
        }
    }

    /// authorise (+ permit when consent is asked) → (code, whether the consent write happened)
    async fn authorise(&mut self, ident: &Identity, t: u128) -> Result<(String, bool), String> {
        let res = {
            let r = self.idms.proxy_read().await.unwrap();
            r.check_oauth2_authorisation(Some(ident), &Self::auth_request(), &AuthorisationRequestContext::default(), dur(t))
        };
        match res {
            Err(e) => Err(format!("authorise-err:{e:?}")),
            Ok(AuthoriseResponse::Permitted(p)) => Ok((p.code, false)),
            Ok(AuthoriseResponse::ConsentRequested { consent_token, .. }) => {
                let mut pw = self.idms.proxy_write(dur(t)).await.unwrap();
                match pw.check_oauth2_authorise_permit(ident, &consent_token, dur(t)) {
                    Ok(p) => {
                        pw.commit().expect("commit permit");
                        Ok((p.code, true))
                    }
                    Err(e) => Err(format!("permit-err:{e:?}")),
                }
            }
            Ok(AuthoriseResponse::AuthenticationRequired { .. }) => Err("authentication-required".into()),
            Ok(AuthoriseResponse::ReauthenticationRequired { .. }) => Err("reauthentication-required".into()),
        }
    }

    async fn token_request(&mut self, grant: GrantTypeReq, t: u128) -> Result<AccessTokenResponse, String> {
        let req = AccessTokenRequest {
            grant_type: grant,
            client_post_auth: ClientPostAuth { client_id: Some(CLIENT.to_string()), client_secret: Some(self.client_secret.clone()) },
        };
        let mut pw = self.idms.proxy_write(dur(t)).await.unwrap();
        match pw.check_oauth2_token_exchange(&cai_none(), &req, dur(t)) {
            Ok(r) => {
                pw.commit().expect("commit token exchange");
                Ok(r)
            }
            Err(e) => Err(format!("token-err:{e:?}")),
        }
    }

    async fn present_o2(&mut self, access: &str, how: &str, ct: u128) -> bool {
        let mut rd = self.idms.proxy_read().await.unwrap();
        match how {
            "introspect" => {
                let req = AccessTokenIntrospectRequest { token: access.to_string(), token_type_hint: None, client_post_auth: ClientPostAuth::default() };
                matches!(rd.check_oauth2_token_introspect(&req, dur(ct)), Ok(x) if x.active)
            }
            _ => {
                let at = JwsCompact::from_str(access).expect("access token is a jws");
                rd.oauth2_openid_userinfo(CLIENT, &at, dur(ct)).is_ok()
            }
        }
    }

    async fn present_uat(&mut self, jws: &str, ct: u128) -> bool {
        let mut r = self.idms.proxy_read().await.unwrap();
        r.validate_client_auth_info_to_ident(cai_token(jws), dur(ct)).is_ok()
    }
}

fn clone_asr(a: &AuthSessionRecord) -> AuthSessionRecord {
    AuthSessionRecord {
        target_uuid: a.target_uuid,
        session_id: a.session_id,
        cred_id: a.cred_id,
        label: a.label.clone(),
        expiry: a.expiry,
        issued_at: a.issued_at,
        issued_by: a.issued_by.clone(),
        scope: a.scope,
        type_: a.type_,
        ext_metadata: a.ext_metadata.clone(),
    }
}

/// What a committed operation wrote: the accounts (with "this account lost / changed a credential"),
/// and whether it was an explicit OAuth2 session revocation.
struct Wrote {
    accts: Vec<(usize, bool)>,
    explicit_revoke: bool,
}
fn one(a: usize, explicit_revoke: bool, cred_removal: bool) -> Wrote {
    Wrote { accts: vec![(a, cred_removal)], explicit_revoke }
}

/// The part of a (multi-entry) operation that concerns one entry.
#[derive(Clone, Debug, PartialEq)]
enum Sub {
    DelPrim,
    SetPrim,
    Touch,
    Purge,
    AddPk(u64),
    DelPk(u64),
    AddApk(u64),
    DelApk(u64),
}
impl Sub {
    fn parse(s: &str) -> Option<Sub> {
        let slot = |p: &str| s[p.len()..].parse::<u64>().ok().map(|x| x % 3);
        Some(match s {
            "delprim" => Sub::DelPrim,
            "setprim" => Sub::SetPrim,
            "touch" => Sub::Touch,
            "purge" => Sub::Purge,
            _ if s.starts_with("addpk") => Sub::AddPk(slot("addpk")?),
            _ if s.starts_with("delpk") => Sub::DelPk(slot("delpk")?),
            _ if s.starts_with("addapk") => Sub::AddApk(slot("addapk")?),
            _ if s.starts_with("delapk") => Sub::DelApk(slot("delapk")?),
            _ => return None,
        })
    }
    fn removes_credential(&self) -> bool {
        matches!(self, Sub::DelPrim | Sub::SetPrim | Sub::DelPk(_) | Sub::DelApk(_))
    }
}

struct Run<'a> {
    w: World,
    drv: &'a mut Driver,
    out: Outcome,
    ops: Vec<String>,
    at: usize,
    /// the real entries as they were after the previous write (to see what a write changed)
    prev: Vec<RealEntry>,
}

impl<'a> Run<'a> {
    fn fail(&mut self, kind: &str, class: &str, expected: String, observed: String) {
        if self.out.failures.iter().any(|f| f.kind == kind && f.class == class) {
            return;
        }
        self.out.failures.push(Failure { kind: kind.into(), class: class.into(), input: json!({"ops": self.ops, "at": self.at}), expected, observed });
    }

    fn model(&mut self, line: &str) -> String {
        self.drv.ask(line)
    }

    /// The change id of the next write transaction at `t`: its timestamp, kept strictly increasing
    /// (`Cid::new_lamport`); revocations are stamped with it and the trim compares against it.
    fn next_cid(&mut self, t: u128) -> u128 {
        self.w.cid = std::cmp::max(t, self.w.cid + 1);
        self.w.cid
    }

    /// One model write on account index `a` at `t` (a transaction that writes this one entry).
    fn mw(&mut self, a: usize, t: u128, rest: &str) {
        let cid = self.next_cid(t);
        self.mw_cid(a, t, cid, rest);
    }

    /// One per-entry model step of the transaction `cid` at `t` (a multi-entry operation is a
    /// sequence of these, one per candidate, all with the same `t` and `cid`).
    fn mw_cid(&mut self, a: usize, t: u128, cid: u128, rest: &str) {
        let r = self.model(&format!("w {} {t} {cid} {rest}", a + 1));
        if r != "ok" {
            self.fail("impl-vs-model", "unclassified", "ok".into(), format!("model refused `{rest}`: {r}"));
        }
    }

    /// State correspondence + state oracle after a committed operation at `t` that wrote `wrote.accts`.
    async fn after_write(&mut self, wrote: &Wrote, t: u128) {
        let explicit_revoke = wrote.explicit_revoke;
        let multi = wrote.accts.len() > 1;
        // candidate order = account order: has an earlier candidate of this operation no session at all?
        let mut sessionless_before = false;
        for a in 0..3usize {
            let written = wrote.accts.iter().any(|x| x.0 == a);
            let cred_removal = wrote.accts.iter().any(|x| x.0 == a && x.1);
            let real = self.w.read(a).await;
            let (rc, ru, ro) = (self.w.show_creds(&real), self.w.show_uats(&real), self.w.show_o2s(&real));
            let (mc, mut mu, mo) = (self.model(&format!("creds {}", a + 1)), self.model(&format!("uats {}", a + 1)), self.model(&format!("o2s {}", a + 1)));
            // an *empty* login-session attribute is absent or an empty map depending on the entry
            // cache / store round trip (D27): the representation is an input of the model
            if (ru == "absent" && mu == "-") || (ru == "-" && mu == "absent") {
                let r = self.model(&format!("rep {} {}", a + 1, if ru == "absent" { "absent" } else { "empty" }));
                if r == "ok" {
                    mu = ru.clone();
                    self.out.count("empty-session-attribute-representation");
                }
            }
            if rc != mc {
                self.fail("impl-vs-model", "unclassified", format!("{mc}  (model credential ids of account {})", a + 1), rc.clone());
            }
            if ru != mu {
                self.fail("impl-vs-model", "unclassified", format!("{mu}  (model login sessions of account {})", a + 1), ru);
            }
            if ro != mo {
                self.fail("impl-vs-model", "unclassified", format!("{mo}  (model oauth2 sessions of account {})", a + 1), ro);
            }
            // ---- O1: every login session that is not revoked names a current credential ----------
            if let Some(m) = &real.uats {
                for (sid, (st, cred)) in m {
                    if *st != St::R && !real.creds.contains(cred) {
                        let (sn, cn) = (self.w.nat(*sid), self.w.nat(*cred));
                        self.fail(
                            "impl-vs-oracle",
                            "unclassified",
                            format!("after every write a login session whose issuing credential is not on the account is revoked (account {}, credentials {rc})", a + 1),
                            format!("session {sn} issued with credential {cn} is {} after op #{} at {t}", st.show(), self.at),
                        );
                    }
                }
            }
            // ---- O2 (every written account): no stale orphan OAuth2 session -------------------------
            if written {
                for (oid, (st, parent, issued)) in &real.o2s {
                    if *st == St::R || issued + ORACLE_GRACE > t {
                        continue;
                    }
                    if let Some(p) = parent {
                        let pst = real.uats.as_ref().and_then(|m| m.get(p)).map(|x| x.0.clone());
                        if pst.is_none() || pst == Some(St::R) {
                            let (on, pn) = (self.w.nat(*oid), self.w.nat(*p));
                            self.fail(
                                "impl-vs-oracle",
                                "unclassified",
                                "an oauth2 session issued 300 s ago or earlier whose parent login session is revoked or missing is revoked by the write".into(),
                                format!("account {}: oauth2 session {on} (issued {issued}) is {} after the write at {t}; parent {pn} is {}", a + 1, st.show(), pst.map(|s| s.show()).unwrap_or_else(|| "missing".into())),
                            );
                        }
                    }
                }
            }
            // ---- what this write changed (non-triviality counters) --------------------------------
            let prev = self.prev[a].clone();
            let mut revoked_now = 0u64;
            if let (Some(pm), Some(nm)) = (&prev.uats, &real.uats) {
                for (sid, (st, _)) in nm {
                    if *st == St::R && pm.get(sid).map(|x| x.0 != St::R).unwrap_or(false) {
                        revoked_now += 1;
                        if cred_removal && written {
                            self.out.cred_removed_revoked += 1;
                        }
                    }
                }
            }
            for (oid, (st, _, _)) in &real.o2s {
                if *st == St::R && prev.o2s.get(oid).map(|x| x.0 != St::R).unwrap_or(false) && !explicit_revoke {
                    self.out.o2_swept += 1;
                    revoked_now += 1;
                }
            }
            if multi && written {
                if revoked_now > 0 {
                    self.out.multi_revoked += revoked_now;
                    if sessionless_before {
                        self.out.count("multi-entry:sessions-revoked-after-a-session-less-candidate");
                    }
                }
                if real.uats.as_ref().map(|m| m.is_empty()).unwrap_or(true) && real.o2s.is_empty() {
                    sessionless_before = true;
                }
            }
            self.prev[a] = real;
        }
    }

    /// Present OAuth2 access token `k` at `ct`: real code, model, oracle O3.
    async fn present(&mut self, k: usize, ct: u128, how: &str) {
        let tk = self.w.toks[k].clone();
        let g = self.w.grants[tk.grant].clone();
        let real = self.w.present_o2(&tk.access, how, ct).await;
        self.out.presentations += 1;
        let (sn, pn) = (self.w.nat(g.sid), g.parent.map(|p| self.w.nat(p)));
        let ct_secs = (ct / NS) as u64;
        // the token's own expiry is tested before the account: `exp <= ct.as_secs()`
        let m = if tk.exp <= ct_secs {
            "0".to_string()
        } else {
            self.model(&format!("chk {} {sn} {} {} {ct}", g.acct + 1, pn.map(|p| p.to_string()).unwrap_or_else(|| "-".into()), tk.iat))
        };
        self.out.count(&format!("present:{how}:{}", if real { "accepted" } else { "refused" }));
        if m != (if real { "1" } else { "0" }) {
            self.fail("impl-vs-model", "unclassified", format!("{m}  (model, oauth2 token {k} of session {sn} parent {pn:?} iat {} at {ct} via {how})", tk.iat), format!("{}", real as u8));
        }
        let past_grace = ct >= tk.iat as u128 * NS + ORACLE_GRACE;
        let re = self.w.read(g.acct).await;
        let parent_state = g.parent.and_then(|p| re.uats.as_ref().and_then(|m| m.get(&p)).cloned());
        let parent_ok = matches!(&parent_state, Some((st, _)) if *st != St::R);
        if !real {
            if past_grace && !parent_ok {
                self.out.o2_refused_orphan += 1;
            }
            return;
        }
        // ---- O6: the grace window of the *session* (first issue + 300 s), whatever token is shown ----
        if g.parent.is_some() && !parent_ok && ct >= g.first_issue + ORACLE_GRACE {
            self.fail(
                "impl-vs-oracle",
                "C36:refresh-renews-grace-of-orphan-session",
                "an oauth2 session whose parent login session is revoked or missing is unusable once 300 s have passed since the session was issued".into(),
                format!("token {k} of session {sn} (first issued at {}, this token iat {} s) accepted via {how} at {ct}; parent {pn:?} on the account: {}", g.first_issue, tk.iat, parent_state.clone().map(|s| s.0.show()).unwrap_or_else(|| "missing".into())),
            );
        }
        if !past_grace {
            return;
        }
        self.out.accepted_o2_past_grace += 1;
        if self.out.sample.is_none() {
            self.out.sample = Some(json!({"oauth2_token": k, "session": sn, "parent": pn, "iat": tk.iat, "at": ct.to_string(), "via": how, "impl": "accepted"}));
        }
        // ---- O3 -------------------------------------------------------------------------------
        if g.parent.is_some() && !parent_ok {
            self.fail(
                "impl-vs-oracle",
                "unclassified",
                "an oauth2 token whose parent login session is revoked or missing is refused once 300 s have passed since its issue".into(),
                format!("token {k} (session {sn}, parent {pn:?}, iat {} s) accepted via {how} at {ct}; parent on the account: {}", tk.iat, parent_state.clone().map(|s| s.0.show()).unwrap_or_else(|| "missing".into())),
            );
        }
        if let Some((_, cred)) = parent_state {
            if !re.creds.contains(&cred) {
                let cn = self.w.nat(cred);
                self.fail(
                    "impl-vs-oracle",
                    "unclassified",
                    "an oauth2 token under a login session whose issuing credential was removed is refused past the grace window".into(),
                    format!("token {k} accepted via {how} at {ct}; parent session's credential {cn} is not on the account"),
                );
            }
        }
    }

    /// Present UAT of ledger session `k` at `ct`: oracle O4 only (the decision itself is C32's).
    async fn present_uat(&mut self, k: usize, ct: u128) {
        let s = self.w.sessions[k].clone();
        let Some(jws) = s.jws.clone() else { return };
        let real = self.w.present_uat(&jws, ct).await;
        self.out.presentations += 1;
        self.out.count(&format!("presentuat:{}", if real { "accepted" } else { "refused" }));
        if !real || ct < s.iat + ORACLE_GRACE {
            return;
        }
        self.out.accepted_uat_past_grace += 1;
        let re = self.w.read(s.acct).await;
        let st = re.uats.as_ref().and_then(|m| m.get(&s.sid)).cloned();
        let sn = self.w.nat(s.sid);
        match st {
            Some((state, cred)) if state != St::R => {
                if !re.creds.contains(&cred) || !re.creds.contains(&s.cred) {
                    let cn = self.w.nat(s.cred);
                    self.fail(
                        "impl-vs-oracle",
                        "unclassified",
                        "a login token whose issuing credential was removed is refused past the grace window".into(),
                        format!("UAT of session {sn} accepted at {ct}; its credential {cn} is not on the account"),
                    );
                }
            }
            other => {
                self.fail(
                    "impl-vs-oracle",
                    "unclassified",
                    "a login token accepted past the grace window has its session on the account, not revoked".into(),
                    format!("UAT of session {sn} accepted at {ct}; session on the account: {}", other.map(|s| s.0.show()).unwrap_or_else(|| "missing".into())),
                );
            }
        }
    }

    async fn present_all(&mut self, ct: u128) {
        for k in 0..self.w.toks.len() {
            self.present(k, ct, "introspect").await;
        }
        for k in 0..self.w.sessions.len() {
            self.present_uat(k, ct).await;
        }
    }

    fn when(&self, spec: &str, iat: u128, exp: Option<u128>) -> Option<u128> {
        let (anchor, d) = spec.split_once(':')?;
        let d: i128 = d.parse().ok()?;
        let base = match anchor {
            "now" => self.w.now,
            "grace" => iat + ORACLE_GRACE,
            "exp" => exp?,
            _ => return None,
        };
        let v = base as i128 + d;
        if v < 0 { None } else { Some(v as u128) }
    }

    /// After a write that replaced / removed the primary credential: tell the model the new id
    /// (`tag` = `prim` for a purge / purge-and-set modify, `upd` for a credential-update commit), then
    /// O5: the statement's "credential removed" includes its replacement — every login session on the
    /// account that was issued with the old primary credential must be revoked by this very write.
    async fn sync_primary(&mut self, a: usize, t: u128, tag: &str) {
        let cid = self.next_cid(t);
        self.sync_primary_cid(a, t, cid, tag).await;
    }

    async fn sync_primary_cid(&mut self, a: usize, t: u128, cid: u128, tag: &str) {
        let old = self.w.last_prim[a];
        let (prim, _, _, _) = self.w.read_creds(a).await;
        if let Some(p) = prim {
            self.w.last_prim[a] = p;
        }
        let arg = prim.map(|p| self.w.nat(p).to_string()).unwrap_or_else(|| "-".into());
        self.mw_cid(a, t, cid, &format!("{tag} {arg}"));
        let re = self.w.read(a).await;
        if let Some(m) = &re.uats {
            for (sid, (st, cred)) in m {
                if *cred == old && *st != St::R {
                    let (sn, cn) = (self.w.nat(*sid), self.w.nat(old));
                    self.fail(
                        "impl-vs-oracle",
                        "C36:replaced-credential-keeps-sessions",
                        "changing or removing the primary credential revokes every login session issued with the old one, in that write".into(),
                        format!("account {}: session {sn} issued with the old primary credential {cn} is {} after op #{} at {t} (primary credential now {arg})", a + 1, st.show(), self.at),
                    );
                }
            }
        }
    }

    /// Execute one op. Returns Some((written account, explicit oauth2 revoke, credential removal)) for a write.
    async fn exec(&mut self, op: &str) -> Option<Wrote> {
        let f: Vec<&str> = op.split(' ').collect();
        let num = |i: usize| -> u128 { f[i].parse().unwrap() };
        let acct = |i: usize| -> usize { (f[i].parse::<usize>().unwrap() - 1) % 3 };
        match f[0] {
            "login" => {
                let (a, t) = (acct(1), num(2));
                self.w.now = t;
                let cred = self.w.last_prim[a];
                match self.w.login(a, t).await {
                    Some(jws) => {
                        let p = jws_payload(&jws).and_then(|v| serde_json::from_value::<UserAuthToken>(v).ok()).expect("uat payload");
                        let recs = self.w.drain().await;
                        let asr = recs.into_iter().find(|r| r.session_id == p.session_id);
                        let cred = asr.as_ref().map(|r| r.cred_id).unwrap_or(cred);
                        self.w.sessions.push(Sess { acct: a, sid: p.session_id, cred, jws: Some(jws), iat: odt_ns(p.issued_at) });
                        if let Some(asr) = asr {
                            self.w.pending.push((self.w.sessions.len() - 1, asr));
                        }
                        self.out.count("op:login-ok");
                    }
                    None => {
                        let _ = self.w.drain().await;
                        self.out.count("op:login-denied");
                    }
                }
                None
            }
            "record" => {
                if self.w.pending.is_empty() {
                    return None;
                }
                let j = num(1) as usize % self.w.pending.len();
                let t = num(2);
                self.w.now = t;
                let (k, asr) = self.w.pending.remove(j);
                let ok = {
                    let mut pw = self.w.idms.proxy_write(dur(t)).await.unwrap();
                    pw.process_delayedaction(&DelayedAction::AuthSessionRecord(clone_asr(&asr)), dur(t)).is_ok() && pw.commit().is_ok()
                };
                let s = self.w.sessions[k].clone();
                let (sn, cn) = (self.w.nat(s.sid), self.w.nat(asr.cred_id));
                let e = asr.expiry.map(|x| odt_ns(x).to_string()).unwrap_or_else(|| "-".into());
                if ok {
                    self.mw(s.acct, t, &format!("rec {sn} {cn} {e} {}", odt_ns(asr.issued_at)));
                }
                self.out.count(if ok { "op:record" } else { "op:record-failed" });
                ok.then_some(one(s.acct, false, false))
            }
            "fab" => {
                let (a, kind, slot, t) = (acct(1), f[2], num(3) as u64 % 3, num(5));
                self.w.now = t;
                let cred = match kind {
                    "prim" => self.w.last_prim[a],
                    "pk" => u_pk(a, slot),
                    "apk" => u_apk(a, slot),
                    _ => match self.w.last_o2c {
                        Some(u) if a == 2 => u,
                        _ => return None,
                    },
                };
                let exp = if f[4] == "-" { None } else { Some(t + num(4) * NS) };
                let sid = Uuid::new_v4();
                let asr = AuthSessionRecord {
                    target_uuid: self.w.uuids[a],
                    session_id: sid,
                    cred_id: cred,
                    label: format!("fab{}", self.w.sessions.len()),
                    expiry: exp.map(odt),
                    issued_at: odt(t),
                    issued_by: IdentityId::User(self.w.uuids[a]),
                    scope: SessionScope::ReadWrite,
                    type_: match kind {
                        "pk" => AuthType::Passkey,
                        "apk" => AuthType::AttestedPasskey,
                        "o2c" => AuthType::OAuth2Trust,
                        _ => AuthType::Password,
                    },
                    ext_metadata: SessionExtMetadata::None,
                };
                let ok = {
                    let mut pw = self.w.idms.proxy_write(dur(t)).await.unwrap();
                    pw.process_delayedaction(&DelayedAction::AuthSessionRecord(asr), dur(t)).is_ok() && pw.commit().is_ok()
                };
                let (sn, cn) = (self.w.nat(sid), self.w.nat(cred));
                if ok {
                    self.w.sessions.push(Sess { acct: a, sid, cred, jws: None, iat: t });
                    self.mw(a, t, &format!("rec {sn} {cn} {} {t}", exp.map(|x| x.to_string()).unwrap_or_else(|| "-".into())));
                }
                self.out.count(&format!("op:fab-{kind}{}", if ok { "" } else { "-failed" }));
                ok.then_some(one(a, false, false))
            }
            "delprim" | "setprim" => {
                let (a, t) = (acct(1), num(2));
                self.w.now = t;
                let ml = if f[0] == "delprim" {
                    ModifyList::new_purge(Attribute::PrimaryCredential)
                } else {
                    let i = self.w.pw[a].map(|i| 1 - i).unwrap_or(0);
                    self.w.pw[a] = Some(i);
                    ModifyList::new_purge_and_set(Attribute::PrimaryCredential, Value::new_credential("primary", cred_password(PWS[i], false).unwrap()))
                };
                let r = self.w.modify(t, self.w.uuids[a], ml).await;
                if r.is_ok() {
                    if f[0] == "delprim" {
                        self.w.pw[a] = None;
                    }
                    self.sync_primary(a, t, "prim").await;
                }
                self.out.count(&format!("op:{}{}", f[0], if r.is_ok() { "" } else { "-failed" }));
                r.is_ok().then_some(one(a, false, true))
            }
            "pwchange" => {
                let (a, t) = (acct(1), num(2));
                self.w.now = t;
                let i = self.w.pw[a].map(|i| 1 - i).unwrap_or(0);
                let target = self.w.uuids[a];
                let res: Result<(), String> = async {
                    let tok = {
                        let mut pw = self.w.idms.proxy_write(dur(t)).await.unwrap();
                        let ident = Identity::from_impersonate_entry_readwrite(pw.qs_write.internal_search_uuid(UUID_IDM_ADMIN).map_err(|e| format!("{e:?}"))?);
                        let (tok, _) = pw.init_credential_update(&InitCredentialUpdateEvent::new(ident, target), dur(t)).map_err(|e| format!("init:{e:?}"))?;
                        pw.commit().map_err(|e| format!("{e:?}"))?;
                        tok
                    };
                    {
                        let c = self.w.idms.cred_update_transaction().await.unwrap();
                        c.credential_primary_set_password(&tok, dur(t), PWS[i]).map_err(|e| format!("setpw:{e:?}"))?;
                    }
                    let mut pw = self.w.idms.proxy_write(dur(t)).await.unwrap();
                    pw.commit_credential_update(&tok, dur(t)).map_err(|e| format!("commit:{e:?}"))?;
                    pw.commit().map_err(|e| format!("{e:?}"))
                }
                .await;
                match &res {
                    Ok(()) => {
                        self.w.pw[a] = Some(i);
                        // `init_credential_update` writes nothing on the account; the commit is one modify
                        self.sync_primary(a, t, "upd").await;
                        self.out.count("op:pwchange");
                    }
                    Err(e) => self.out.count(&format!("op:pwchange-failed:{e}")),
                }
                res.is_ok().then_some(one(a, false, true))
            }
            "addpk" | "delpk" | "addapk" | "delapk" => {
                let (a, slot, t) = (acct(1), num(2) as u64 % 3, num(3));
                self.w.now = t;
                let att = f[0].ends_with("apk");
                let u = if att { u_apk(a, slot) } else { u_pk(a, slot) };
                let attr = if att { Attribute::AttestedPasskeys } else { Attribute::PassKeys };
                let ml = if f[0].starts_with("add") {
                    let v = if att {
                        Value::AttestedPasskey(u, format!("apk{slot}"), serde_json::from_str(ATTESTED_PASSKEY_JSON[slot as usize % ATTESTED_PASSKEY_JSON.len()]).expect("attested passkey fixture"))
                    } else {
                        Value::Passkey(u, format!("pk{slot}"), serde_json::from_str(PASSKEY_JSON[slot as usize % PASSKEY_JSON.len()]).expect("passkey fixture"))
                    };
                    ModifyList::new_list(vec![Modify::Present(attr, v)])
                } else {
                    ModifyList::new_list(vec![Modify::Removed(attr, PartialValue::Passkey(u))])
                };
                let ml = if f[0] == "delapk" { ModifyList::new_list(vec![Modify::Removed(Attribute::AttestedPasskeys, PartialValue::AttestedPasskey(u))]) } else { ml };
                let r = self.w.modify(t, self.w.uuids[a], ml).await;
                let un = self.w.nat(u);
                if r.is_ok() {
                    let tag = match f[0] {
                        "addpk" => "pk+",
                        "delpk" => "pk-",
                        "addapk" => "apk+",
                        _ => "apk-",
                    };
                    self.mw(a, t, &format!("{tag} {un}"));
                }
                self.out.count(&format!("op:{}{}", f[0], if r.is_ok() { "" } else { "-failed" }));
                r.is_ok().then_some(one(a, false, f[0].starts_with("del")))
            }
            "rego2c" => {
                let t = num(2);
                let a = 2usize;
                self.w.now = t;
                let r = self.w.modify(t, self.w.uuids[a], ModifyList::new_purge(Attribute::OAuth2AccountCredentialUuid)).await;
                if r.is_ok() {
                    let (_, _, _, o2c) = self.w.read_creds(a).await;
                    self.w.last_o2c = o2c.or(self.w.last_o2c);
                    let arg = o2c.map(|p| self.w.nat(p).to_string()).unwrap_or_else(|| "-".into());
                    self.mw(a, t, &format!("o2c {arg}"));
                }
                self.out.count(if r.is_ok() { "op:rego2c" } else { "op:rego2c-failed" });
                r.is_ok().then_some(one(a, false, true))
            }
            "grant" => {
                let with_tok: Vec<usize> = (0..self.w.sessions.len()).filter(|k| self.w.sessions[*k].jws.is_some()).collect();
                if with_tok.is_empty() {
                    return None;
                }
                let k = with_tok[num(1) as usize % with_tok.len()];
                let t = num(2);
                self.w.now = t;
                let s = self.w.sessions[k].clone();
                let ident = {
                    let mut r = self.w.idms.proxy_read().await.unwrap();
                    r.validate_client_auth_info_to_ident(cai_token(s.jws.as_ref().unwrap()), dur(t))
                };
                let Ok(ident) = ident else {
                    self.out.count("op:grant-no-identity");
                    return None;
                };
                let (code, consent) = match self.w.authorise(&ident, t).await {
                    Ok(x) => x,
                    Err(e) => {
                        self.out.count(&format!("op:grant-refused:{}", e.split(':').next().unwrap_or("")));
                        return None;
                    }
                };
                if consent {
                    self.mw(s.acct, t, "touch");
                }
                let r = self.w.token_request(GrantTypeReq::AuthorizationCode { code, redirect_uri: Url::parse(REDIRECT).unwrap(), code_verifier: None }, t).await;
                let exchanged = r.is_ok();
                match r {
                    Ok(resp) => {
                        self.register_tokens(s.acct, None, resp, t).await;
                        self.out.count("op:grant");
                    }
                    Err(e) => self.out.count(&format!("op:grant-exchange-refused:{}", e.split(':').nth(1).unwrap_or(""))),
                }
                // the consent write (if any) happened even when the exchange was refused
                (consent || exchanged).then_some(one(s.acct, false, false))
            }
            "fabgrant" => {
                let (a, t) = (acct(1), num(4));
                self.w.now = t;
                let parent = match f[2] {
                    "-" => None,
                    "x" => Some(Uuid::new_v4()),
                    s => {
                        let mine: Vec<Uuid> = self.w.sessions.iter().filter(|x| x.acct == a).map(|x| x.sid).collect();
                        if mine.is_empty() {
                            return None;
                        }
                        Some(mine[s[1..].parse::<usize>().unwrap() % mine.len()])
                    }
                };
                let exp = t + num(3) * NS;
                let sid = Uuid::new_v4();
                let v = Value::Oauth2Session(sid, Oauth2Session { parent, state: SessionState::ExpiresAt(odt(exp)), issued_at: odt(t), rs_uuid: u_client() });
                let r = self.w.modify(t, self.w.uuids[a], ModifyList::new_list(vec![Modify::Present(Attribute::OAuth2Session, v)])).await;
                if r.is_ok() {
                    let sn = self.w.nat(sid);
                    let pn = parent.map(|p| self.w.nat(p).to_string()).unwrap_or_else(|| "-".into());
                    self.w.grants.push(Grant { acct: a, sid, parent, first_issue: t, refresh: None, refresh_iat: 0, refresh_exp: 0 });
                    self.mw(a, t, &format!("grant {sn} {pn} {exp} {t}"));
                }
                self.out.count(if r.is_ok() { "op:fabgrant" } else { "op:fabgrant-failed" });
                r.is_ok().then_some(one(a, false, false))
            }
            "refresh" => {
                let real: Vec<usize> = (0..self.w.grants.len()).filter(|g| self.w.grants[*g].refresh.is_some()).collect();
                if real.is_empty() {
                    return None;
                }
                let gi = real[num(1) as usize % real.len()];
                let t = num(2);
                self.w.now = t;
                let g = self.w.grants[gi].clone();
                let r = self.w.token_request(GrantTypeReq::RefreshToken { refresh_token: g.refresh.clone().unwrap(), scope: None }, t).await;
                // model's expectation: the refresh token's own expiry, then the account test
                let t_secs = (t / NS) as u64;
                let (sn, pn) = (self.w.nat(g.sid), g.parent.map(|p| self.w.nat(p)));
                let m = if g.refresh_exp <= t_secs {
                    "0".to_string()
                } else {
                    self.model(&format!("chk {} {sn} {} {} {t}", g.acct + 1, pn.map(|p| p.to_string()).unwrap_or_else(|| "-".into()), g.refresh_iat))
                };
                // a refused refresh with a present session that is not revoked may still be the replay rule; the harness always uses the newest token
                if (m == "1") != r.is_ok() {
                    self.fail("impl-vs-model", "unclassified", format!("{m}  (model, refresh of session {sn} iat {} at {t})", g.refresh_iat), format!("{:?}", r.as_ref().map(|_| "tokens")));
                }
                match r {
                    Ok(resp) => {
                        // O6 / O3 on the refresh path
                        let re = self.prev[g.acct].clone();
                        let pst = g.parent.and_then(|p| re.uats.as_ref().and_then(|m| m.get(&p)).cloned());
                        let orphan = g.parent.is_some() && !matches!(&pst, Some((st, _)) if *st != St::R);
                        if orphan && t >= g.first_issue + ORACLE_GRACE {
                            self.fail(
                                "impl-vs-oracle",
                                "C36:refresh-renews-grace-of-orphan-session",
                                "an oauth2 session whose parent login session is revoked or missing is unusable once 300 s have passed since the session was issued".into(),
                                format!("refresh of session {sn} (first issued at {}, refresh token iat {} s, parent {pn:?} {}) accepted at {t}", g.first_issue, g.refresh_iat, pst.clone().map(|s| s.0.show()).unwrap_or_else(|| "missing".into())),
                            );
                        }
                        if t >= g.refresh_iat as u128 * NS + ORACLE_GRACE {
                            if orphan {
                                self.fail(
                                    "impl-vs-oracle",
                                    "unclassified",
                                    "a refresh token whose parent login session is revoked or missing is refused once 300 s have passed since its issue".into(),
                                    format!("refresh of session {sn} (parent {pn:?}, iat {} s) accepted at {t}", g.refresh_iat),
                                );
                            }
                        }
                        self.register_tokens(g.acct, Some(gi), resp, t).await;
                        self.out.count("op:refresh");
                        Some(one(g.acct, false, false))
                    }
                    Err(_) => {
                        self.out.count("op:refresh-refused");
                        None
                    }
                }
            }
            "revoke" => {
                if self.w.sessions.is_empty() {
                    return None;
                }
                let k = num(1) as usize % self.w.sessions.len();
                let t = num(2);
                self.w.now = t;
                let s = self.w.sessions[k].clone();
                let ml = ModifyList::new_list(vec![Modify::Removed(Attribute::UserAuthTokenSession, PartialValue::Refer(s.sid))]);
                let r = self.w.modify(t, self.w.uuids[s.acct], ml).await;
                if r.is_ok() {
                    let sn = self.w.nat(s.sid);
                    self.mw(s.acct, t, &format!("rev {sn}"));
                }
                self.out.count(if r.is_ok() { "op:revoke" } else { "op:revoke-failed" });
                r.is_ok().then_some(one(s.acct, false, false))
            }
            "revokeo2" => {
                if self.w.grants.is_empty() {
                    return None;
                }
                let gi = num(1) as usize % self.w.grants.len();
                let t = num(2);
                self.w.now = t;
                let g = self.w.grants[gi].clone();
                let ml = ModifyList::new_list(vec![Modify::Removed(Attribute::OAuth2Session, PartialValue::Refer(g.sid))]);
                let r = self.w.modify(t, self.w.uuids[g.acct], ml).await;
                if r.is_ok() {
                    let sn = self.w.nat(g.sid);
                    self.mw(g.acct, t, &format!("revo2 {sn}"));
                }
                self.out.count(if r.is_ok() { "op:revokeo2" } else { "op:revokeo2-failed" });
                r.is_ok().then_some(one(g.acct, true, false))
            }
            "purge" => {
                let (a, t) = (acct(1), num(2));
                self.w.now = t;
                let r = self.w.modify(t, self.w.uuids[a], ModifyList::new_purge(Attribute::UserAuthTokenSession)).await;
                if r.is_ok() {
                    self.mw(a, t, "purge");
                }
                self.out.count(if r.is_ok() { "op:purge" } else { "op:purge-failed" });
                r.is_ok().then_some(one(a, false, false))
            }
            "touch" => {
                let (a, t) = (acct(1), num(2));
                self.w.now = t;
                let ml = ModifyList::new_purge_and_set(Attribute::Description, Value::new_utf8s(&format!("touched at {t}")));
                let r = self.w.modify(t, self.w.uuids[a], ml).await;
                if r.is_ok() {
                    self.mw(a, t, "touch");
                }
                self.out.count(if r.is_ok() { "op:touch" } else { "op:touch-failed" });
                r.is_ok().then_some(one(a, false, false))
            }
            "mmod" | "batch" => {
                let t = if f[0] == "mmod" { num(3) } else { num(2) };
                self.w.now = t;
                // (account, its part of the operation), in candidate order
                let mut subs: Vec<(usize, Sub)> = vec![];
                if f[0] == "mmod" {
                    let kind = Sub::parse(f[2]).filter(|k| matches!(k, Sub::DelPrim | Sub::SetPrim | Sub::Touch | Sub::Purge)).unwrap_or_else(|| panic!("bad op {op}"));
                    for c in f[1].chars() {
                        let a = (c.to_digit(10).unwrap_or_else(|| panic!("bad op {op}")) as usize + 2) % 3;
                        if !subs.iter().any(|x| x.0 == a) {
                            subs.push((a, kind.clone()));
                        }
                    }
                } else {
                    for part in f[1].split(',') {
                        let (pa, k) = part.split_once(':').unwrap_or_else(|| panic!("bad op {op}"));
                        let a = (pa.parse::<usize>().unwrap() + 2) % 3;
                        if !subs.iter().any(|x| x.0 == a) {
                            subs.push((a, Sub::parse(k).unwrap_or_else(|| panic!("bad op {op}"))));
                        }
                    }
                }
                subs.sort_by_key(|x| x.0);
                if subs.is_empty() {
                    return None;
                }
                // one new primary credential for the whole operation (`mmod … setprim` puts the very same
                // value, hence the same credential id, on every account)
                let new_pw = subs.iter().find(|x| x.1 == Sub::SetPrim).map(|x| self.w.pw[x.0].map(|i| 1 - i).unwrap_or(0));
                let new_cred = new_pw.map(|i| Value::new_credential("primary", cred_password(PWS[i], false).unwrap()));
                let modlist = |a: usize, k: &Sub| -> ModifyList<ModifyInvalid> {
                    match k {
                        Sub::DelPrim => ModifyList::new_purge(Attribute::PrimaryCredential),
                        Sub::SetPrim => ModifyList::new_purge_and_set(Attribute::PrimaryCredential, new_cred.clone().unwrap()),
                        Sub::Touch => ModifyList::new_purge_and_set(Attribute::Description, Value::new_utf8s(&format!("touched at {t}"))),
                        Sub::Purge => ModifyList::new_purge(Attribute::UserAuthTokenSession),
                        Sub::AddPk(s) => ModifyList::new_list(vec![Modify::Present(
                            Attribute::PassKeys,
                            Value::Passkey(u_pk(a, *s), format!("pk{s}"), serde_json::from_str(PASSKEY_JSON[*s as usize % PASSKEY_JSON.len()]).expect("passkey fixture")),
                        )]),
                        Sub::AddApk(s) => ModifyList::new_list(vec![Modify::Present(
                            Attribute::AttestedPasskeys,
                            Value::AttestedPasskey(u_apk(a, *s), format!("apk{s}"), serde_json::from_str(ATTESTED_PASSKEY_JSON[*s as usize % ATTESTED_PASSKEY_JSON.len()]).expect("attested passkey fixture")),
                        )]),
                        Sub::DelPk(s) => ModifyList::new_list(vec![Modify::Removed(Attribute::PassKeys, PartialValue::Passkey(u_pk(a, *s)))]),
                        Sub::DelApk(s) => ModifyList::new_list(vec![Modify::Removed(Attribute::AttestedPasskeys, PartialValue::AttestedPasskey(u_apk(a, *s)))]),
                    }
                };
                let r = if f[0] == "mmod" {
                    let uuids: Vec<Uuid> = subs.iter().map(|x| self.w.uuids[x.0]).collect();
                    let ml = modlist(subs[0].0, &subs[0].1);
                    self.w.modify_many(t, &uuids, ml).await
                } else {
                    let mods: Vec<(Uuid, ModifyList<ModifyInvalid>)> = subs.iter().map(|(a, k)| (self.w.uuids[*a], modlist(*a, k))).collect();
                    self.w.batch_modify(t, mods).await
                };
                self.out.count(&format!("op:{}-{}-entries{}", f[0], subs.len(), if r.is_ok() { "" } else { "-failed" }));
                if r.is_err() {
                    return None;
                }
                // the model: each candidate's own step, same instant and change id
                let cid = self.next_cid(t);
                for (a, k) in &subs {
                    let a = *a;
                    match k {
                        Sub::DelPrim => {
                            self.w.pw[a] = None;
                            self.sync_primary_cid(a, t, cid, "prim").await;
                        }
                        Sub::SetPrim => {
                            self.w.pw[a] = new_pw;
                            self.sync_primary_cid(a, t, cid, "prim").await;
                        }
                        Sub::Touch => self.mw_cid(a, t, cid, "touch"),
                        Sub::Purge => self.mw_cid(a, t, cid, "purge"),
                        Sub::AddPk(s) => {
                            let un = self.w.nat(u_pk(a, *s));
                            self.mw_cid(a, t, cid, &format!("pk+ {un}"));
                        }
                        Sub::DelPk(s) => {
                            let un = self.w.nat(u_pk(a, *s));
                            self.mw_cid(a, t, cid, &format!("pk- {un}"));
                        }
                        Sub::AddApk(s) => {
                            let un = self.w.nat(u_apk(a, *s));
                            self.mw_cid(a, t, cid, &format!("apk+ {un}"));
                        }
                        Sub::DelApk(s) => {
                            let un = self.w.nat(u_apk(a, *s));
                            self.mw_cid(a, t, cid, &format!("apk- {un}"));
                        }
                    }
                    self.out.count(&format!("multi-entry-step:{}", match k {
                        Sub::DelPrim => "delprim",
                        Sub::SetPrim => "setprim",
                        Sub::Touch => "touch",
                        Sub::Purge => "purge",
                        Sub::AddPk(_) => "addpk",
                        Sub::DelPk(_) => "delpk",
                        Sub::AddApk(_) => "addapk",
                        Sub::DelApk(_) => "delapk",
                    }));
                }
                Some(Wrote { accts: subs.iter().map(|(a, k)| (*a, k.removes_credential())).collect(), explicit_revoke: false })
            }
            "present" => {
                if self.w.toks.is_empty() {
                    return None;
                }
                let k = num(1) as usize % self.w.toks.len();
                let tk = self.w.toks[k].clone();
                let Some(ct) = self.when(f[2], tk.iat as u128 * NS, Some(tk.exp as u128 * NS)) else { return None };
                self.present(k, ct, f[3]).await;
                None
            }
            "presentuat" => {
                if self.w.sessions.is_empty() {
                    return None;
                }
                let k = num(1) as usize % self.w.sessions.len();
                let s = self.w.sessions[k].clone();
                let Some(ct) = self.when(f[2], s.iat, None) else { return None };
                self.present_uat(k, ct).await;
                None
            }
            _ => panic!("unknown op {op}"),
        }
    }

    /// Ledger + model for a successful code exchange / refresh at `t`.
    async fn register_tokens(&mut self, a: usize, existing: Option<usize>, resp: AccessTokenResponse, t: u128) {
        let p = jws_payload(&resp.access_token).expect("access token payload");
        let sid = Uuid::from_str(p["session_id"].as_str().expect("session_id")).unwrap();
        let parent = p["parent_session_id"].as_str().map(|s| Uuid::from_str(s).unwrap());
        let (iat, exp) = (p["iat"].as_u64().expect("iat"), p["exp"].as_u64().expect("exp"));
        // what the exchange wrote on the account: read back, hand to the model as the write's parameters
        let re = self.w.read(a).await;
        let (st, rparent, issued) = re.o2s.get(&sid).cloned().expect("oauth2 session recorded by the exchange");
        let sn = self.w.nat(sid);
        let pn = rparent.map(|p| self.w.nat(p).to_string()).unwrap_or_else(|| "-".into());
        let e = match st {
            St::E(x) => x.to_string(),
            _ => "-".into(),
        };
        // the session as written carries `issued_at = ct` and `ExpiresAt(ct + refresh expiry)`
        let refresh_exp = match st {
            St::E(x) => (x / NS) as u64,
            _ => u64::MAX,
        };
        self.mw(a, t, &format!("grant {sn} {pn} {e} {issued}"));
        let gi = match existing {
            Some(gi) => gi,
            None => {
                self.w.grants.push(Grant { acct: a, sid, parent, first_issue: t, refresh: None, refresh_iat: 0, refresh_exp: 0 });
                self.w.grants.len() - 1
            }
        };
        let g = &mut self.w.grants[gi];
        g.refresh = resp.refresh_token.clone();
        g.refresh_iat = iat;
        g.refresh_exp = refresh_exp;
        self.w.toks.push(O2Tok { grant: gi, access: resp.access_token, iat, exp });
    }
}

async fn run_history(drv: &mut Driver, ops: &[String]) -> Outcome {
    let w = World::new().await;
    let mut run = Run { w, drv, out: Outcome::default(), ops: ops.to_vec(), at: 0, prev: vec![RealEntry::default(); 3] };
    run.model("reset");
    for a in 0..3usize {
        let real = run.w.read(a).await;
        let (prim, _, _, o2c) = run.w.read_creds(a).await;
        let pn = run.w.nat(prim.unwrap());
        run.model(&format!("acct {} {pn}", a + 1));
        if let Some(c) = o2c {
            // the fixture's trust credential: part of the initial state, set by a write at creation time
            let cn = run.w.nat(c);
            run.mw(a, T0 - DAY, &format!("o2c {cn}"));
        }
        run.prev[a] = real;
    }
    run.after_write(&Wrote { accts: vec![], explicit_revoke: false }, T0 - DAY).await;
    for (i, op) in ops.iter().enumerate() {
        run.at = i;
        if let Some(wrote) = run.exec(op).await {
            let now = run.w.now;
            run.after_write(&wrote, now).await;
            run.present_all(now).await;
        }
    }
    run.out
}

/// Random history.  `interesting` collects instants at which a comparison of the plugin or of the
/// token test flips (grace end of every OAuth2 session / token, expiry of fabricated sessions);
/// time steps often land on one of them −1 / 0 / +1 ns.
/// A multi-entry operation: the credential-removing / touching modify applied to a SET of accounts at
/// once (`mmod` = one modlist under an OR filter, `batch` = `internal_batch_modify`).
fn gen_multi(r: &mut Rng, t: u128) -> String {
    let set = *r.pick(&["12", "13", "23", "123", "123"]);
    if r.chance(3, 5) {
        let kind = *r.pick(&["delprim", "delprim", "setprim", "touch", "touch", "purge"]);
        format!("mmod {set} {kind} {t}")
    } else {
        let parts: Vec<String> = set
            .chars()
            .map(|c| {
                let k = match r.below(10) {
                    0..=2 => "delprim".to_string(),
                    3 => "setprim".to_string(),
                    4..=5 => "touch".to_string(),
                    6 => format!("delpk{}", r.below(3)),
                    7 => format!("delapk{}", r.below(3)),
                    8 => format!("{}{}", r.pick(&["addpk", "addapk"]), r.below(3)),
                    _ => "purge".to_string(),
                };
                format!("{c}:{k}")
            })
            .collect();
        format!("batch {} {t}", parts.join(","))
    }
}

fn gen_history(r: &mut Rng, len: usize, bias: bool) -> Vec<String> {
    let mut ops: Vec<String> = vec![];
    let mut t = T0 + r.below(1000) as u128 * NS + if r.chance(1, 2) { r.below(NS as u64) as u128 } else { 0 };
    let mut interesting: Vec<u128> = vec![];
    let d1: &[i128] = &[-1, 0, 1];
    let p = |r: &mut Rng| -> u64 { *r.pick(&[1u64, 1, 2, 3]) };
    // a start that gives the rest something to work on (which account logs in first decides which
    // entries of a later multi-entry operation are session-less)
    let first = p(r);
    ops.push(format!("login {first} {t}"));
    ops.push(format!("record 0 {}", t + 1));
    t += 2;
    // search mode: sessions on a later account while an earlier one has none
    if bias && r.chance(1, 2) {
        let who = *r.pick(&[2u64, 3, 3]);
        let kind = *r.pick(&["prim", "prim", "pk"]);
        if kind == "pk" {
            ops.push(format!("addpk {who} 0 {t}"));
        }
        ops.push(format!("fab {who} {kind} 0 {} {}", r.pick(&["-", "400", "3600"]), t + 1));
        t += 2;
    }
    let multi_pct = if bias { 30 } else { 8 };
    while ops.len() < len {
        // time
        let later: Vec<u128> = interesting.iter().copied().filter(|x| *x > t + 1).collect();
        if !later.is_empty() && r.chance(if bias { 2 } else { 1 }, 3) {
            let target = *later.iter().min().unwrap();
            t = (target as i128 + *r.pick(d1)) as u128;
        } else {
            t += match r.below(10) {
                0 => 0,
                1 => 1,
                2 => NS,
                3 => 30 * NS + r.below(NS as u64) as u128,
                4 => 299 * NS,
                5 => 301 * NS,
                6 => 1000 * NS,
                7 => if r.chance(1, 4) { 8 * DAY + r.below(1000) as u128 * NS } else { 20 * 3600 * NS },
                8 => r.below(600) as u128 * NS,
                _ => r.below(5) as u128 * NS,
            };
        }
        if r.chance(multi_pct, 100) {
            ops.push(gen_multi(r, t));
            continue;
        }
        let op = match r.below(100) {
            0..=9 => format!("login {} {t}", p(r)),
            10..=17 => format!("record {} {t}", r.below(6)),
            18..=27 => {
                let kind = *r.pick(&["prim", "pk", "apk", "o2c", "pk", "prim"]);
                let who = if kind == "o2c" { 3 } else { p(r) };
                let exp = *r.pick(&["-", "600", "3600", "400"]);
                if exp != "-" {
                    interesting.push(t + exp.parse::<u128>().unwrap() * NS);
                }
                format!("fab {who} {kind} {} {exp} {t}", r.below(3))
            }
            28..=31 => format!("delprim {} {t}", p(r)),
            32..=35 => format!("setprim {} {t}", p(r)),
            36..=39 => format!("pwchange {} {t}", p(r)),
            40..=46 => format!("{} {} {} {t}", r.pick(&["addpk", "addapk"]), p(r), r.below(3)),
            47..=52 => format!("{} {} {} {t}", r.pick(&["delpk", "delapk"]), p(r), r.below(3)),
            53..=54 => format!("rego2c 3 {t}"),
            55..=64 => {
                interesting.push(t + 300 * NS);
                interesting.push((t / NS) * NS + 300 * NS);
                format!("grant {} {t}", r.below(6))
            }
            65..=72 => {
                interesting.push(t + 300 * NS);
                let exp = *r.pick(&[400u128, 600, 3600, 57600]);
                interesting.push(t + exp * NS);
                let parent = match r.below(6) {
                    0 => "-".to_string(),
                    1 => "x".to_string(),
                    _ => format!("s{}", r.below(6)),
                };
                format!("fabgrant {} {parent} {exp} {t}", p(r))
            }
            73..=76 => {
                interesting.push((t / NS) * NS + 300 * NS);
                format!("refresh {} {t}", r.below(4))
            }
            77..=82 => format!("revoke {} {t}", r.below(8)),
            83..=84 => format!("revokeo2 {} {t}", r.below(6)),
            85 => format!("purge {} {t}", p(r)),
            86..=91 => format!("touch {} {t}", p(r)),
            92..=96 => {
                let when = match r.below(4) {
                    0 | 1 => format!("grace:{}", r.pick(d1)),
                    2 => format!("exp:{}", r.pick(d1)),
                    _ => format!("now:{}", r.below(400 * NS as u64)),
                };
                format!("present {} {when} {}", r.below(6), r.pick(&["introspect", "userinfo"]))
            }
            _ => format!("presentuat {} grace:{}", r.below(8), r.pick(d1)),
        };
        ops.push(op);
    }
    ops
}

/// Scripted histories: one per clause of the property.
fn scripted() -> Vec<(String, Vec<String>)> {
    let t = T0 + 7;
    let g = 300 * NS;
    let s = |v: &[String]| v.to_vec();
    let mut out = vec![];
    // password change (three ways) revokes the password sessions, in that write; OAuth2 token under it refused at once
    for (name, op) in [("delprim", "delprim"), ("setprim", "setprim"), ("pwchange", "pwchange")] {
        out.push((format!("primary-{name}"), s(&[
            format!("login 1 {t}"), format!("record 0 {}", t + 1), format!("login 1 {}", t + 2), format!("record 0 {}", t + 3),
            format!("addpk 1 0 {}", t + 4), format!("fab 1 pk 0 - {}", t + 5),
            format!("grant 0 {}", t + NS), format!("fabgrant 1 s2 57600 {}", t + NS),
            format!("{op} 1 {}", t + 2 * NS),
            "present 0 now:1 introspect".into(), "present 0 now:1 userinfo".into(), "presentuat 0 grace:0".into(), "presentuat 1 grace:1".into(),
            format!("login 1 {}", t + 3 * NS), format!("record 0 {}", t + 3 * NS + 1),
            format!("touch 1 {}", t + NS + g - 1), format!("touch 1 {}", t + NS + g), "present 0 grace:0 introspect".into(),
        ])));
    }
    // passkey / attested passkey removal revokes exactly that key's sessions; re-adding the key under the old id does not revive them
    out.push(("passkey-removed".into(), s(&[
        format!("addpk 1 0 {t}"), format!("addpk 1 1 {t}"), format!("addapk 1 0 {t}"),
        format!("fab 1 pk 0 - {}", t + 1), format!("fab 1 pk 1 3600 {}", t + 1), format!("fab 1 apk 0 - {}", t + 1), format!("fab 1 prim 0 - {}", t + 1),
        format!("fabgrant 1 s0 57600 {}", t + 2), format!("fabgrant 1 s1 57600 {}", t + 2), format!("fabgrant 1 s2 57600 {}", t + 2),
        format!("delpk 1 0 {}", t + NS), format!("delapk 1 0 {}", t + 2 * NS), format!("addpk 1 0 {}", t + 3 * NS),
        format!("touch 1 {}", t + 2 + g - 1), format!("touch 1 {}", t + 2 + g), format!("touch 1 {}", t + 2 + g + 1),
    ])));
    // a session recorded after its credential went away is revoked by the recording write itself
    out.push(("record-after-removal".into(), s(&[
        format!("login 2 {t}"), format!("setprim 2 {}", t + NS), format!("record 0 {}", t + 2 * NS),
        format!("fab 2 pk 1 - {}", t + 3 * NS), format!("fab 2 apk 2 600 {}", t + 3 * NS),
        "presentuat 0 grace:-1".into(), "presentuat 0 grace:0".into(),
    ])));
    // OAuth2 trust credential regenerated
    out.push(("trust-credential".into(), s(&[
        format!("fab 3 o2c 0 - {t}"), format!("fab 3 prim 0 - {t}"), format!("fabgrant 3 s0 57600 {}", t + 1),
        format!("rego2c 3 {}", t + NS), format!("fab 3 o2c 0 - {}", t + 2 * NS), format!("touch 3 {}", t + 1 + g),
    ])));
    // parent never recorded (missing): usable inside the grace window only; swept at issued_at + 300 s
    out.push(("parent-missing".into(), s(&[
        format!("login 1 {t}"), format!("grant 0 {}", t + 1),
        "present 0 grace:-1 introspect".into(), "present 0 grace:0 introspect".into(), "present 0 grace:-1 userinfo".into(), "present 0 grace:0 userinfo".into(),
        format!("fabgrant 1 x 57600 {}", t + 2), format!("fabgrant 1 - 57600 {}", t + 2),
        format!("touch 1 {}", t + 1 + g - 1), format!("touch 1 {}", t + 1 + g), format!("touch 1 {}", t + 2 + g),
        format!("refresh 0 {}", t + 3 + g),
    ])));
    // never-recorded parent, client refreshes every 200 s: each refresh renews the grace (finding)
    out.push(("refresh-chain".into(), s(&[
        format!("login 1 {t}"), format!("grant 0 {}", t + 1), format!("refresh 0 {}", t + 200 * NS), format!("refresh 0 {}", t + 400 * NS),
        "present 2 now:1 introspect".into(), format!("touch 1 {}", t + 500 * NS), format!("refresh 0 {}", t + 600 * NS),
    ])));
    // parent revoked by logout: refused at once; the OAuth2 session itself is swept at its grace end; refresh refused
    out.push(("parent-logout".into(), s(&[
        format!("login 1 {t}"), format!("record 0 {}", t + 1), format!("grant 0 {}", t + 2), format!("refresh 0 {}", t + 10 * NS),
        format!("revoke 0 {}", t + 20 * NS), "present 0 now:0 introspect".into(), "present 1 now:0 userinfo".into(),
        format!("refresh 0 {}", t + 21 * NS),
        format!("touch 1 {}", t + 10 * NS + g - 1), format!("touch 1 {}", t + 10 * NS + g),
    ])));
    // parent expired: swept together with its OAuth2 session by the first write after the expiry
    out.push(("parent-expired".into(), s(&[
        format!("fab 1 prim 0 400 {t}"), format!("fabgrant 1 s0 57600 {}", t + 1), format!("fabgrant 1 s0 350 {}", t + 1),
        format!("touch 1 {}", t + 1 + 350 * NS - 1), format!("touch 1 {}", t + 1 + 350 * NS),
        format!("touch 1 {}", t + 400 * NS - 1), format!("touch 1 {}", t + 400 * NS),
    ])));
    // an account without any login session: parentless OAuth2 session (what the code does)
    out.push(("no-login-sessions".into(), s(&[
        format!("fabgrant 2 - 57600 {t}"), format!("touch 2 {}", t + g - 1), format!("touch 2 {}", t + g),
    ])));
    // the trim every write starts with: a revocation older than 7 days is dropped; more than 48 sessions: the oldest go
    out.push(("trim-stale".into(), s(&[
        format!("login 1 {t}"), format!("record 0 {}", t + 1), format!("fab 1 prim 0 - {}", t + 2), format!("revoke 0 {}", t + NS),
        format!("touch 1 {}", t + NS + 7 * DAY - 1), format!("touch 1 {}", t + NS + 7 * DAY), format!("touch 1 {}", t + NS + 7 * DAY + 1), format!("delprim 1 {}", t + 8 * DAY),
        format!("touch 1 {}", t + 16 * DAY),
    ])));
    let mut many: Vec<String> = (0..50u128).map(|i| format!("fab 2 prim 0 - {}", t + i)).collect();
    many.push(format!("fabgrant 2 s0 57600 {}", t + 60));
    many.push(format!("touch 2 {}", t + NS));
    many.push(format!("touch 2 {}", t + 60 + g));
    out.push(("trim-forced".into(), many));
    // healthy sessions are left alone across a day of writes; the one-day login session expires
    out.push(("healthy".into(), s(&[
        format!("login 1 {t}"), format!("record 0 {}", t + 1), format!("grant 0 {}", t + 2), format!("addpk 1 2 {}", t + 3), format!("fab 1 pk 2 - {}", t + 4),
        format!("touch 1 {}", t + 400 * NS), "present 0 grace:0 introspect".into(), "present 0 exp:-1 userinfo".into(), "present 0 exp:0 introspect".into(),
        format!("refresh 0 {}", t + 800 * NS), format!("purge 1 {}", t + 900 * NS), format!("touch 1 {}", t + DAY + NS),
    ])));
    // ---- operations that write SEVERAL entries: the plugin must treat every candidate ---------------
    // the credential of two accounts removed by ONE modify (filter uuid=A OR uuid=B); A never logged in,
    // B holds a real login session (+ an OAuth2 grant under it) — in both creation orders
    for (name, a, b) in [("multi-sessionless-first", 1, 2), ("multi-sessionless-second", 2, 1)] {
        let set = if a < b { format!("{a}{b}") } else { format!("{b}{a}") };
        out.push((name.into(), s(&[
            format!("login {b} {t}"), format!("record 0 {}", t + 1), format!("grant 0 {}", t + 2),
            format!("mmod {set} delprim {}", t + NS), "present 0 now:1 introspect".into(), "presentuat 0 now:1".into(),
            format!("mmod {set} touch {}", t + 2 + g),
        ])));
    }
    // three entries, the session-less one first / in the middle / last; the other two hold sessions
    for (name, empty) in [("multi-3-sessionless-first", 1u64), ("multi-3-sessionless-middle", 2), ("multi-3-sessionless-last", 3)] {
        let with: Vec<u64> = (1..=3u64).filter(|x| *x != empty).collect();
        out.push((name.into(), s(&[
            format!("fab {} prim 0 - {t}", with[0]), format!("fab {} prim 0 3600 {}", with[1], t + 1), format!("fabgrant {} s0 57600 {}", with[1], t + 2),
            format!("mmod 123 touch {}", t + 3), format!("mmod 123 setprim {}", t + NS), format!("mmod 123 touch {}", t + 2 + g),
        ])));
    }
    // batch modify, a modlist per entry: 1 (no session) is touched, 2 loses its primary credential, 3 loses a passkey
    out.push(("multi-batch".into(), s(&[
        format!("addpk 3 0 {t}"), format!("addpk 3 1 {t}"), format!("fab 3 pk 0 - {}", t + 1), format!("fab 3 pk 1 - {}", t + 1), format!("fab 3 prim 0 - {}", t + 1),
        format!("login 2 {}", t + 2), format!("record 0 {}", t + 3), format!("fabgrant 3 s0 57600 {}", t + 4),
        format!("batch 1:touch,2:delprim,3:delpk0 {}", t + NS), "presentuat 3 now:1".into(),
        format!("batch 1:delprim,2:touch,3:touch {}", t + 4 + g), format!("batch 2:setprim,3:delpk1 {}", t + 5 + g),
    ])));
    // expiry: two accounts with sessions (and one without), one modify touching all after one session's
    // expiry, then after the other's; the OAuth2 session under the expired parent goes in the same write
    out.push(("multi-expiry".into(), s(&[
        format!("fab 1 prim 0 400 {t}"), format!("fab 3 prim 0 600 {}", t + 1), format!("fabgrant 3 s0 57600 {}", t + 2),
        format!("mmod 123 touch {}", t + 400 * NS - 1), format!("mmod 123 touch {}", t + 400 * NS),
        format!("mmod 23 touch {}", t + 1 + 600 * NS - 1), format!("mmod 23 touch {}", t + 1 + 600 * NS),
    ])));
    // orphan: the parent of account 3's OAuth2 session is logged out; the write that passes the grace end
    // covers the session-less account 1 as well
    out.push(("multi-orphan".into(), s(&[
        format!("fab 3 prim 0 - {t}"), format!("fabgrant 3 s0 57600 {}", t + 1), format!("fab 2 prim 0 - {}", t + 2), format!("revoke 0 {}", t + NS),
        format!("mmod 13 touch {}", t + 1 + g - 1), format!("batch 1:touch,3:touch {}", t + 1 + g),
    ])));
    out
}

fn main() {
    if std::env::var_os("RUST_LOG").is_none() {
        std::env::set_var("RUST_LOG", "off");
    }
    let args = Args::parse();
    let rt = tokio::runtime::Builder::new_current_thread().enable_all().build().unwrap();
    let mut rep = Report::new(
        "session-plugin",
        "scripted and random histories (password logins, held-back and fabricated session records for primary / passkey / attested passkey / trust \
         credentials, credential purge / replace / credential-update commit / passkey add+remove / trust credential regeneration, OAuth2 code grants, \
         fabricated OAuth2 sessions with live / revoked / unknown / no parent, refresh, logout, session purge, unrelated writes, the same modifies applied to \
         SEVERAL accounts by one internal_modify (OR filter) or one internal_batch_modify (a modlist per entry), time steps landing on \
         grace and expiry boundaries ±1 ns) on a fresh real IdmServer each; after every write the three accounts are compared with the model and every \
         issued token is presented; non-trivial = a credential removal revoked at least one live session AND an orphaned OAuth2 session was swept or \
         its token refused past the grace window; distinct = distinct op list",
    );
    let mut drv = Driver::spawn(&args.driver);
    let mut histories: Vec<(String, Vec<String>)> = vec![];
    if let Some(path) = &args.replay {
        let v: Json = serde_json::from_str(&std::fs::read_to_string(path).unwrap()).unwrap();
        let ops: Vec<String> = v["input"]["ops"].as_array().expect("replay input.ops").iter().map(|x| x.as_str().unwrap().to_string()).collect();
        histories.push(("replay".into(), ops));
    } else {
        // `C36_STREAMS=random` (diagnostic, used with the seeded-change bench): only the random histories
        let only_random = std::env::var("C36_STREAMS").map(|v| v == "random").unwrap_or(false);
        if !only_random {
            histories.extend(scripted());
        }
        // regression corpus (witnesses of recorded findings), replayed on every run
        let dir = concat!(env!("CARGO_MANIFEST_DIR"), "/../../corpus/C36");
        let mut files: Vec<std::path::PathBuf> = std::fs::read_dir(dir).map(|d| d.filter_map(|e| e.ok().map(|e| e.path())).collect()).unwrap_or_default();
        files.sort();
        for f in files.iter().filter(|f| !only_random && f.extension().map(|x| x == "json").unwrap_or(false)) {
            let v: Json = serde_json::from_str(&std::fs::read_to_string(f).unwrap()).unwrap();
            let ops: Vec<String> = v["input"]["ops"].as_array().expect("corpus input.ops").iter().map(|x| x.as_str().unwrap().to_string()).collect();
            histories.push(("corpus".into(), ops));
        }
        let n = args.cases(10, 200);
        for i in 0..n {
            let mut r = Rng::for_case(args.seed, i);
            let len = if args.thorough() { r.range(10, 60) } else { r.range(10, 36) } as usize;
            histories.push(("random".into(), gen_history(&mut r, len, args.budget > 1)));
        }
    }
    let mut seen: BTreeSet<(String, String)> = BTreeSet::new();
    let mut oracle_failed = false;
    for (kind, ops) in &histories {
        if oracle_failed {
            break;
        }
        let out = rt.block_on(run_history(&mut drv, ops));
        rep.count(&format!("history:{kind}"));
        rep.count_n("presentations", out.presentations);
        rep.count_n("sessions-revoked-by-credential-removal", out.cred_removed_revoked);
        rep.count_n("sessions-revoked-in-multi-entry-operations", out.multi_revoked);
        rep.count_n("oauth2-sessions-swept", out.o2_swept);
        rep.count_n("oauth2-refused-orphan-past-grace", out.o2_refused_orphan);
        rep.count_n("oauth2-accepted-past-grace", out.accepted_o2_past_grace);
        rep.count_n("uat-accepted-past-grace", out.accepted_uat_past_grace);
        for (k, v) in &out.hist {
            rep.count_n(k, *v);
        }
        if out.hist.contains_key("multi-entry:sessions-revoked-after-a-session-less-candidate") {
            // the situation a per-candidate early exit of the plugin would get wrong
            rep.count(&format!("histories-reaching-multi-entry-boundary:{}", if kind == "random" { "random" } else { "scripted" }));
        }
        let nontrivial = out.cred_removed_revoked >= 1 && (out.o2_swept >= 1 || out.o2_refused_orphan >= 1);
        rep.case(if nontrivial { Some(ops.join(";")) } else { None });
        if let Some(s) = out.sample {
            if rep.samples.len() < 4 {
                rep.sample(s);
            }
        }
        for f in out.failures {
            let (kind_, class_) = (f.kind.clone(), f.class.clone());
            rep.count(&format!("failure:{kind_}:{class_}"));
            if !seen.insert((kind_.clone(), class_.clone())) {
                continue;
            }
            // an oracle failure is shrunk towards the same clause of the oracle (same opening words of
            // `expected`), not towards any other unclassified failure
            let tag: String = if kind_ == "impl-vs-oracle" { f.expected.chars().take(40).collect() } else { String::new() };
            let small = if args.replay.is_some() {
                ops.clone()
            } else {
                shrink_list(ops.clone(), |cand| {
                    let o = rt.block_on(run_history(&mut drv, cand));
                    o.failures.iter().any(|g| g.kind == kind_ && g.class == class_ && g.expected.starts_with(&tag))
                })
            };
            let o = rt.block_on(run_history(&mut drv, &small));
            match o.failures.into_iter().find(|g| g.kind == kind_ && g.class == class_ && g.expected.starts_with(&tag)) {
                Some(g) => rep.fail(g),
                None => rep.fail(f),
            }
            if kind_ == "impl-vs-oracle" && class_ == "unclassified" {
                // an unrecognised oracle failure has been found and shrunk: stop early (a failure of a
                // recognised class is reported once and the run goes on, so that a listed known
                // finding does not hide the rest of the exploration)
                oracle_failed = true;
            }
        }
    }
    rep.model_requests = drv.requests;
    rep.write(&args.out);
    println!("c36: {} histories, {} failures", rep.evaluations, rep.failures.len());
}
