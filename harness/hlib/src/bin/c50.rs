//! C50 — Synchronisation agreements stay inside their own scope. Stream `scim-sync`.
//!
//! A real, migrated in-memory `IdmServer` per *world*: the builtin access control profiles are
//! replaced by a blanket search profile and one modify profile that grants a user group every
//! attribute and class the generator uses (so that what a user may change on a synchronised entry
//! is decided by `modify_sync_constrain` alone). Stored at the start: two sync agreements A and B,
//! native persons and a native group, a recycled native entry, a tombstone, the acting user.
//! A case is a *history* of operations, each in its own write transaction which is committed when
//! the operation succeeds and dropped otherwise (as `handle_scim_sync_apply` does):
//!   * `scim_sync_apply` by A or B (or by a wrong identity / scope) with entry ids drawn from fixed
//!     pools — ids first used by A, by B, native, recycled, tombstoned, reserved range (existing
//!     and free), the boundary 2^48 and 2^48±1 — random sync classes (also not sync_allowed, not
//!     existing, not a sync schema), random attributes (owned, of another class, not synchronisable,
//!     structural, unknown, ill-typed, the password import), retention modes, refresh / active
//!     states with the current or a stale cookie;
//!   * purge-and-set of an agreement's `sync_yield_authority`;
//!   * modifications of entries by a read-write (or read-only) member of the granted group;
//!   * *yield-drain motifs* and three scripted histories (worlds 3, 7, 11, ...): an agreement hands
//!     attributes over, then EVERY agreement's yield set is purged (each change its own committed
//!     transaction), then the user tries each attribute that had been handed over and a control.
//! Every operation is also sent to the Lean model (`km_c50`, `Kanidm.SyncScope.stepRes`), which
//! holds the tracked part of the database across the history; result class and resulting tracked
//! entries are compared after every operation (`impl-vs-model`).
//!
//! Independent oracle (property text only; reads the running server's schema and database, never
//! the model): after every operation the whole database (live, recycled, tombstone) is read back —
//!   O1 a refused operation leaves the database unchanged;
//!   O2 a sync request of agreement A changes no entry whose `sync_parent_uuid` is not A (derived
//!      membership attributes and references to entries A deleted in this request excepted; A's own
//!      account entry may change in `sync_cookie` only), deletes nothing it does not own;
//!   O3 every entry it creates has `sync_parent_uuid` = A, class `sync_object` and a uuid ≥ 2^48;
//!      no stored entry ever changes uuid or `sync_parent_uuid`, none disappears;
//!   O4 on A's entries it changes only attributes that the server's schema marks `sync_allowed`
//!      and that A's `sync_yield_authority` (as stored before the request) does not list — plus the
//!      bookkeeping of the mechanism itself (class / sync_class / sync_external_id, server-derived
//!      attributes, and the documented target of an import attribute present in the request);
//!      classes are only added, and only sync_allowed ones;
//!   O5 a request naming the id of a recycled or tombstoned entry, or made by anything but a
//!      `Synch` identity with `Synchronise` scope, is refused;
//!   O6 a user's accepted modification of a synchronised entry changes only attributes in the
//!      parent agreement's stored yield set or the four session / credential-reset attributes
//!      (server-derived attributes excepted); the yield set is read from the stored agreement entry
//!      in the request's own transaction, never from the server's cached access-control state.
use hlib::*;
use kanidm_proto::internal::Filter as ProtoFilter;
use kanidm_proto::scim_v1::{
    ScimAttr, ScimComplexAttr, ScimEntry, ScimSyncRequest, ScimSyncRetentionMode, ScimSyncState, ScimValue,
    SCIM_SCHEMA_SYNC_1,
};
use kanidmd_lib::entry::{Entry, EntryCommitted, EntryInit, EntryNew, EntrySealed};
use kanidmd_lib::filter::{f_eq, f_pres, Filter, FilterInvalid};
use kanidmd_lib::idm::scim::ScimSyncUpdateEvent;
use kanidmd_lib::idm::server::IdmServer;
use kanidmd_lib::modify::{Modify, ModifyInvalid, ModifyList};
use kanidmd_lib::prelude::*;
use kanidmd_lib::schema::SchemaTransaction;
use kanidmd_lib::server::identity::{AccessScope, IdentType, InternalRole};
use kanidmd_lib::testkit::{setup_idm_test, TestConfiguration};
use kanidmd_lib::verif_hooks::c23::ident_synch;
use serde_json::{json, Value as J};
use std::collections::{BTreeMap, BTreeSet};
use std::sync::Arc;

type Sealed = Entry<EntrySealed, EntryCommitted>;
type NewE = Entry<EntryInit, EntryNew>;

const DAY: u64 = 86_400;
/// The property's range, written from its text: uuids 00000000-0000-0000-0000-xxxxxxxxxxxx.
const RESERVED_BOUND: u128 = 1u128 << 48;

/// Two import strings whose stored form the harness can recognise (`Password: PartialEq`).
const IMPORT_HASHES: [&str; 2] = [
    "pbkdf2_sha256$36000$xIEozuZVAoYm$uW1b35DUKyhvQAf1mBqMvoBDcqSD06juzyO/nmyV0+w=",
    "pbkdf2_sha256$36000$yIEozuZVAoYm$uW1b35DUKyhvQAf1mBqMvoBDcqSD06juzyO/nmyV0+w=",
];

/// Server-derived attributes: maintained by plugins from other entries or from other attributes,
/// never written by a request. Listed from the plugins (memberof, dyngroup, spn, name history,
/// entry change state, key generation, gid allocation, recycle bookkeeping).
const DERIVED: &[&str] = &[
    "memberof",
    "directmemberof",
    "dynmember",
    "recycled_directmemberof",
    "spn",
    "name_history",
    "last_modified_cid",
    "created_at_cid",
    "id_verification_eckey",
];

/// The bookkeeping attributes of the sync mechanism on an owned entry.
const SYNC_BOOKKEEPING: &[&str] = &["class", "sync_class", "sync_external_id"];

/// "session and credential-reset state" of the statement (written from the property text).
const SESSION_STATE: &[&str] =
    &["user_auth_token_session", "oauth2_session", "oauth2_consent_scope_map", "credential_update_intent_token"];

/// Documented import attributes and the stored attribute they are converted into.
const IMPORT_TARGETS: &[(&str, &str)] =
    &[("password_import", "primary_credential"), ("totp_import", "primary_credential"), ("unix_password_import", "unix_password")];

const TRACKED_CLASSES: &[&str] = &[
    "object",
    "sync_object",
    "sync_account",
    "person",
    "account",
    "group",
    "posixgroup",
    "posixaccount",
    "orgperson",
    "service_account",
    "system",
    "builtin",
];
const TRACKED_STR_ATTRS: &[&str] = &["name", "displayname", "legalname", "description", "loginshell"];

fn wu(k: u64) -> Uuid {
    nat_uuid(0xC50_0000 + k)
}

// ---------------------------------------------------------------------------------------------
// atoms
// ---------------------------------------------------------------------------------------------

struct Names {
    cls: BTreeMap<String, u64>,
    attr: BTreeMap<String, u64>,
    vals: BTreeMap<String, u64>,
}

impl Names {
    fn from_driver(d: &mut Driver) -> Names {
        let r = d.ask("tables");
        let mut cls = BTreeMap::new();
        let mut attr = BTreeMap::new();
        for part in r.split(';') {
            let (k, v) = part.split_once('=').expect("tables reply");
            let m = if k == "classes" { &mut cls } else { &mut attr };
            for (i, n) in v.split(',').enumerate() {
                m.insert(n.to_string(), i as u64);
            }
        }
        assert!(cls.len() > 40 && attr.len() > 100, "tables reply too small: {r}");
        Names { cls, attr, vals: BTreeMap::new() }
    }
    fn c(&mut self, n: &str) -> u64 {
        let next = 1000 + self.cls.len() as u64;
        *self.cls.entry(n.to_string()).or_insert(next)
    }
    fn a(&mut self, n: &str) -> u64 {
        let next = 1000 + self.attr.len() as u64;
        *self.attr.entry(n.to_string()).or_insert(next)
    }
    /// value atom of a string (never collides with a uuid number ≥ 2^48 on a reference attribute)
    fn v(&mut self, s: &str) -> u64 {
        let next = 5_000_000 + self.vals.len() as u64;
        *self.vals.entry(s.to_string()).or_insert(next)
    }
}

fn plus<T: ToString>(xs: impl IntoIterator<Item = T>) -> String {
    let v: Vec<String> = xs.into_iter().map(|x| x.to_string()).collect();
    if v.is_empty() {
        "-".into()
    } else {
        v.join("+")
    }
}

fn comma<T: ToString>(xs: impl IntoIterator<Item = T>) -> String {
    let v: Vec<String> = xs.into_iter().map(|x| x.to_string()).collect();
    if v.is_empty() {
        "-".into()
    } else {
        v.join(",")
    }
}

// ---------------------------------------------------------------------------------------------
// operations (concrete, state independent: any sub-list of a history can be run)
// ---------------------------------------------------------------------------------------------

#[derive(Clone, Debug, PartialEq)]
enum IdentSpec {
    /// `IdentType::Synch(agreement)` with scope 0 ro / 1 rw / 2 synchronise
    Synch(u8, u8),
    /// the acting user with scope 0 ro / 1 rw / 2 synchronise
    User(u8),
    Internal,
}

#[derive(Clone, Debug, PartialEq)]
enum St {
    Refresh,
    /// the cookie stored on the agreement when the operation starts (refresh if none)
    Current,
    Cookie(Vec<u8>),
}

#[derive(Clone, Debug, PartialEq)]
enum AVal {
    Str(String),
    Int(i64),
    Refs(Vec<u128>),
    /// a value of the wrong SCIM shape for the attribute
    Bad,
}

#[derive(Clone, Debug, PartialEq)]
struct SEntry {
    id: u128,
    ext: Option<String>,
    schemas: Vec<String>,
    attrs: Vec<(String, AVal)>,
}

#[derive(Clone, Debug, PartialEq)]
enum Ret {
    Ignore,
    Retain(Vec<u128>),
    Delete(Vec<u128>),
}

#[derive(Clone, Debug, PartialEq)]
enum UMod {
    Present(String, String),
    Removed(String, String),
    Purged(String),
    PresentRef(String, u128),
    PresentClass(String),
    RemovedClass(String),
}

#[derive(Clone, Debug, PartialEq)]
enum Op {
    Sync { ident: IdentSpec, from: St, to: St, entries: Vec<SEntry>, retain: Ret },
    Yield { agreement: u8, attrs: Option<Vec<String>> },
    User { ident: IdentSpec, target: u128, mods: Vec<UMod> },
}

struct Pools {
    a: Vec<u128>,
    b: Vec<u128>,
    natives: Vec<u128>,
    native_group: u128,
    recycled: u128,
    tomb: u128,
    agreements: [u128; 2],
    user: u128,
    reserved_free: Vec<u128>,
    reserved_used: Vec<u128>,
    boundary: Vec<u128>,
}

fn pools() -> Pools {
    Pools {
        a: (0..10).map(|k| wu(0x1000 + k).as_u128()).collect(),
        b: (0..10).map(|k| wu(0x2000 + k).as_u128()).collect(),
        natives: vec![wu(0x300).as_u128(), wu(0x301).as_u128()],
        native_group: wu(0x310).as_u128(),
        recycled: wu(0x320).as_u128(),
        tomb: wu(0x321).as_u128(),
        agreements: [wu(0x600).as_u128(), wu(0x601).as_u128()],
        user: wu(0x200).as_u128(),
        reserved_free: vec![0xffff_0000_9999, 1, RESERVED_BOUND - 2, RESERVED_BOUND - 1 - 0x10],
        reserved_used: vec![UUID_ADMIN.as_u128(), UUID_ANONYMOUS.as_u128(), UUID_IDM_ADMINS.as_u128()],
        boundary: vec![RESERVED_BOUND, RESERVED_BOUND + 1],
    }
}

fn name_of(id: u128, variant: u64) -> String {
    format!("c50n{:x}v{}", id & 0xffff_ffff_ffff, variant)
}

fn gen_entry(rng: &mut Rng, p: &Pools, agreement: u8, batch_ids: &[u128], clean: bool) -> SEntry {
    gen_entry_id(rng, p, agreement, batch_ids, clean, None)
}

fn gen_entry_id(rng: &mut Rng, p: &Pools, agreement: u8, batch_ids: &[u128], clean: bool, force: Option<u128>) -> SEntry {
    let own = if agreement == 0 { &p.a } else { &p.b };
    let other = if agreement == 0 { &p.b } else { &p.a };
    let r = if clean { 0 } else { rng.below(100) };
    let id = if r < 58 {
        *rng.pick(own)
    } else if r < 66 {
        *rng.pick(other)
    } else if r < 72 {
        if rng.chance(1, 3) {
            p.native_group
        } else {
            *rng.pick(&p.natives)
        }
    } else if r < 77 {
        if rng.chance(1, 2) {
            p.recycled
        } else {
            p.tomb
        }
    } else if r < 82 {
        *rng.pick(&p.reserved_free)
    } else if r < 86 {
        *rng.pick(&p.reserved_used)
    } else if r < 90 {
        *rng.pick(&p.boundary)
    } else if r < 93 {
        if rng.chance(1, 2) {
            p.agreements[rng.below(2) as usize]
        } else {
            p.user
        }
    } else {
        *rng.pick(own)
    };
    let id = force.unwrap_or(id);
    let is_group = (id & 1) == 1 && id != p.recycled;
    let mut schemas: Vec<String> = if is_group {
        vec![format!("{SCIM_SCHEMA_SYNC_1}group")]
    } else {
        vec![format!("{SCIM_SCHEMA_SYNC_1}account"), format!("{SCIM_SCHEMA_SYNC_1}person")]
    };
    match if clean { 7 + rng.below(6) } else { rng.below(40) } {
        0 => schemas.push(format!("{SCIM_SCHEMA_SYNC_1}system")),
        1 => schemas.push(format!("{SCIM_SCHEMA_SYNC_1}nosuchclass")),
        2 => schemas.push("urn:ietf:params:scim:schemas:core:2.0:User".to_string()),
        3 => schemas.push(format!("{SCIM_SCHEMA_SYNC_1}sync_account")),
        4 | 5 => {
            if is_group {
                schemas.push(format!("{SCIM_SCHEMA_SYNC_1}posixgroup"))
            } else {
                schemas.push(format!("{SCIM_SCHEMA_SYNC_1}posixaccount"))
            }
        }
        6 => schemas.clear(),
        7 | 8 => {
            if is_group {
                schemas.push(format!("{SCIM_SCHEMA_SYNC_1}posixgroup"))
            } else {
                schemas.push(format!("{SCIM_SCHEMA_SYNC_1}posixaccount"))
            }
        }
        _ => {}
    }
    let posix = schemas.iter().any(|s| s.ends_with("posixaccount") || s.ends_with("posixgroup"));
    let mut attrs: BTreeMap<String, AVal> = BTreeMap::new();
    attrs.insert("name".into(), AVal::Str(name_of(id, rng.below(2))));
    if is_group {
        if rng.chance(2, 3) {
            let mut ms = vec![];
            for _ in 0..rng.below(3) {
                let m = match rng.below(6) {
                    0 | 1 => *rng.pick(&p.natives),
                    2 | 3 if !batch_ids.is_empty() => *rng.pick(batch_ids),
                    4 if !clean => *rng.pick(own),
                    _ => *rng.pick(&p.natives),
                };
                ms.push(m);
            }
            attrs.insert("member".into(), AVal::Refs(ms));
        }
        if rng.chance(1, 2) {
            attrs.insert("description".into(), AVal::Str(format!("d{}", rng.below(3))));
        }
    } else {
        if clean || rng.chance(9, 10) {
            attrs.insert("displayname".into(), AVal::Str(format!("dn{}", rng.below(3))));
        }
        if rng.chance(1, 2) {
            attrs.insert("legalname".into(), AVal::Str(format!("ln{}", rng.below(3))));
        }
        if !clean && rng.chance(1, 12) {
            // `description` is not an attribute of person / account: a probe
            attrs.insert("description".into(), AVal::Str(format!("d{}", rng.below(3))));
        }
        if rng.chance(1, 4) {
            attrs.insert("password_import".into(), AVal::Str(IMPORT_HASHES[rng.below(2) as usize].to_string()));
        }
        if posix && rng.chance(1, 2) {
            attrs.insert("loginshell".into(), AVal::Str(format!("/bin/sh{}", rng.below(2))));
        }
    }
    if posix && rng.chance(1, 2) {
        attrs.insert("gidnumber".into(), AVal::Int(70_000 + (id & 0xfff) as i64));
    }
    // probes outside the sync-owned set / ill-typed
    match if clean { 99 } else { rng.below(36) } {
        0 => {
            attrs.insert("uuid".into(), AVal::Str(Uuid::from_u128(*rng.pick(own)).to_string()));
        }
        1 => {
            attrs.insert("sync_parent_uuid".into(), AVal::Str(Uuid::from_u128(p.agreements[rng.below(2) as usize]).to_string()));
        }
        2 => {
            attrs.insert("class".into(), AVal::Str("system".into()));
        }
        3 => {
            attrs.insert("memberof".into(), AVal::Refs(vec![p.native_group]));
        }
        4 => {
            attrs.insert("frobnicate".into(), AVal::Str("x".into()));
        }
        5 => {
            attrs.insert("loginshell".into(), AVal::Str("/bin/zsh".into()));
        }
        6 => {
            attrs.insert("displayname".into(), AVal::Bad);
        }
        7 => {
            attrs.insert("user_auth_token_session".into(), AVal::Str("x".into()));
        }
        8 => {
            attrs.insert("sync_external_id".into(), AVal::Str("stolen".into()));
        }
        9 => {
            attrs.insert("unix_password".into(), AVal::Str("x".into()));
        }
        _ => {}
    }
    let ext = match if clean { 2 + rng.below(10) } else { rng.below(12) } {
        0 => None,
        1 => Some(format!("y{:x}", id & 0xffff_ffff_ffff)),
        _ => Some(format!("x{:x}", id & 0xffff_ffff_ffff)),
    };
    SEntry { id, ext, schemas, attrs: attrs.into_iter().collect() }
}

fn gen_ids(rng: &mut Rng, p: &Pools, agreement: u8, n: u64) -> Vec<u128> {
    let own = if agreement == 0 { &p.a } else { &p.b };
    let other = if agreement == 0 { &p.b } else { &p.a };
    let mut v = vec![];
    for _ in 0..n {
        let r = rng.below(100);
        v.push(if r < 60 {
            *rng.pick(own)
        } else if r < 72 {
            *rng.pick(other)
        } else if r < 80 {
            *rng.pick(&p.natives)
        } else if r < 85 {
            p.native_group
        } else if r < 90 {
            if rng.chance(1, 2) {
                p.recycled
            } else {
                p.tomb
            }
        } else if r < 94 {
            *rng.pick(&p.reserved_used)
        } else if r < 97 {
            p.agreements[rng.below(2) as usize]
        } else {
            wu(0x9000 + rng.below(4)).as_u128()
        });
    }
    v
}

const YIELDABLE: &[&str] =
    &["legalname", "displayname", "description", "member", "primary_credential", "loginshell", "name", "mail", "password_import"];

fn gen_op(rng: &mut Rng, p: &Pools, boundary_heavy: bool) -> Op {
    let r = rng.below(100);
    if r < 58 {
        let agreement = rng.below(2) as u8;
        let clean = boundary_heavy_clean(rng, boundary_heavy);
        let ident = match if clean { 9 } else { rng.below(30) } {
            0 => IdentSpec::Synch(agreement, 0),
            1 => IdentSpec::Synch(agreement, 1),
            2 => IdentSpec::User(1),
            3 => IdentSpec::User(2),
            4 => IdentSpec::Internal,
            _ => IdentSpec::Synch(agreement, 2),
        };
        let from = match if clean { 2 + rng.below(22) } else { rng.below(12) } {
            0 => St::Cookie(vec![9, 9, 9]),
            1 | 2 => St::Refresh,
            _ => St::Current,
        };
        let to = match rng.below(8) {
            0 => St::Refresh,
            _ => St::Cookie(vec![rng.below(4) as u8, 1]),
        };
        let n = match rng.below(10) {
            0 => 0,
            1..=4 => 1,
            5..=7 => 2,
            _ => 3,
        };
        let own = if agreement == 0 { &p.a } else { &p.b };
        let mut entries: Vec<SEntry> = vec![];
        for _ in 0..n {
            let c = clean || rng.chance(1, 2);
            // members may name the entries already in this request (their stubs exist in phase 3)
            let batch: Vec<u128> = entries.iter().map(|e| e.id).collect();
            let e = gen_entry(rng, p, agreement, &batch, c);
            entries.push(e);
        }
        let retain = match if clean { rng.below(14) } else { 8 + rng.below(10) } {
            0..=9 => Ret::Ignore,
            10 => Ret::Delete(vec![*rng.pick(own)]),
            11 => Ret::Delete(vec![*rng.pick(&own[..4]), *rng.pick(&own[..4])]),
            12 | 13 => {
                let mut keep: Vec<u128> = own.iter().copied().filter(|_| rng.chance(15, 16)).collect();
                keep.extend(gen_ids(rng, p, agreement, 1));
                Ret::Retain(keep)
            }
            14 | 15 => {
                let k = rng.below(3);
                Ret::Delete(gen_ids(rng, p, agreement, k))
            }
            16 => {
                let mut keep: Vec<u128> = own.iter().copied().filter(|_| rng.chance(3, 4)).collect();
                keep.extend(gen_ids(rng, p, agreement, 1));
                Ret::Retain(keep)
            }
            _ => Ret::Retain(vec![]),
        };
        Op::Sync { ident, from, to, entries, retain }
    } else if r < 68 {
        let agreement = rng.below(2) as u8;
        let attrs = match rng.below(8) {
            0 => None,
            _ => {
                let k = 2 + rng.below(3);
                Some((0..k).map(|_| rng.pick(YIELDABLE).to_string()).collect::<BTreeSet<_>>().into_iter().collect())
            }
        };
        Op::Yield { agreement, attrs }
    } else {
        let ident = match rng.below(12) {
            0 => IdentSpec::User(0),
            _ => IdentSpec::User(1),
        };
        let t = rng.below(100);
        let target = if t < 40 {
            *rng.pick(&p.a[4..8])
        } else if t < 75 {
            *rng.pick(&p.b[4..8])
        } else if t < 80 {
            {
                let pool = if rng.chance(1, 2) { &p.a } else { &p.b };
                *rng.pick(pool)
            }
        } else if t < 88 {
            *rng.pick(&p.natives)
        } else if t < 94 {
            p.native_group
        } else {
            p.recycled
        };
        let n = 1 + rng.below(2);
        let mut mods = vec![];
        for _ in 0..n {
            let a = if (target & 1) == 1 {
                *rng.pick(&["description", "member", "name", "description", "member", "legalname"])
            } else {
                *rng.pick(&["legalname", "displayname", "description", "name", "legalname", "loginshell"])
            };
            mods.push(match rng.below(14) {
                0 => UMod::Purged("user_auth_token_session".into()),
                1 => UMod::Purged("credential_update_intent_token".into()),
                2 => UMod::Purged("sync_external_id".into()),
                3 => UMod::PresentClass("posixaccount".into()),
                4 => UMod::RemovedClass("sync_object".into()),
                5 => UMod::Purged("primary_credential".into()),
                6 | 7 => UMod::Purged(a.into()),
                8 => UMod::Removed("description".into(), format!("d{}", rng.below(3))),
                _ => {
                    if a == "member" {
                        UMod::PresentRef("member".into(), *rng.pick(&p.natives))
                    } else if a == "name" {
                        UMod::Present("name".into(), name_of(target, 2 + rng.below(2)))
                    } else {
                        UMod::Present(a.into(), format!("u{}", rng.below(3)))
                    }
                }
            });
        }
        Op::User { ident, target, mods }
    }
}

/// a request without probes (own ids, valid classes and attributes, right identity): 55 % of the
/// sync requests, 30 % when a changed fingerprint raised the budget (more boundary requests)
fn boundary_heavy_clean(rng: &mut Rng, boundary_heavy: bool) -> bool {
    if boundary_heavy {
        rng.chance(30, 100)
    } else {
        rng.chance(55, 100)
    }
}

fn seed_op(rng: &mut Rng, p: &Pools, agreement: u8) -> Op {
    let own = if agreement == 0 { &p.a } else { &p.b };
    let batch: Vec<u128> = own[4..8].to_vec();
    let mut entries: Vec<SEntry> = vec![];
    for (k, id) in batch.iter().enumerate() {
        let mut e = gen_entry_id(rng, p, agreement, &batch[..k], true, Some(*id));
        e.ext = Some(format!("x{:x}", id & 0xffff_ffff_ffff));
        for (a, v) in e.attrs.iter_mut() {
            if a == "name" {
                *v = AVal::Str(name_of(*id, 0));
            }
        }
        entries.push(e);
    }
    Op::Sync { ident: IdentSpec::Synch(agreement, 2), from: St::Refresh, to: St::Cookie(vec![agreement, 7]), entries, retain: Ret::Ignore }
}

/// Deterministic openings (regression corpus): the D4 witness and the reserved range boundary, a
/// password import after `primary_credential` was yielded, a foreign / native / recycled id.
fn opening(world: u64, p: &Pools) -> Vec<Op> {
    let acct = |id: u128, attrs: Vec<(&str, AVal)>| SEntry {
        id,
        ext: Some(format!("x{:x}", id & 0xffff_ffff_ffff)),
        schemas: vec![format!("{SCIM_SCHEMA_SYNC_1}account"), format!("{SCIM_SCHEMA_SYNC_1}person")],
        attrs: {
            let mut m: BTreeMap<String, AVal> = BTreeMap::new();
            m.insert("name".into(), AVal::Str(name_of(id, 0)));
            m.insert("displayname".into(), AVal::Str("dn0".into()));
            for (a, v) in attrs {
                m.insert(a.to_string(), v);
            }
            m.into_iter().collect()
        },
    };
    let sync = |agreement: u8, from: St, entries: Vec<SEntry>, retain: Ret| Op::Sync {
        ident: IdentSpec::Synch(agreement, 2),
        from,
        to: St::Cookie(vec![agreement, 7]),
        entries,
        retain,
    };
    let person_a = p.a[0] & !1;
    match world % 4 {
        0 => {
            // D4 (fixed f03f00a): ids in the reserved range, at and around the boundary
            let mut v = vec![];
            for id in [0xffff_0000_9999u128, 1, RESERVED_BOUND - 2, RESERVED_BOUND - 1, RESERVED_BOUND, RESERVED_BOUND + 1] {
                v.push(sync(0, St::Refresh, vec![acct(id, vec![])], Ret::Ignore));
            }
            v
        }
        1 => vec![
            sync(0, St::Refresh, vec![acct(person_a, vec![("password_import", AVal::Str(IMPORT_HASHES[0].into()))])], Ret::Ignore),
            Op::Yield { agreement: 0, attrs: Some(vec!["primary_credential".into()]) },
            sync(0, St::Current, vec![acct(person_a, vec![("password_import", AVal::Str(IMPORT_HASHES[1].into()))])], Ret::Ignore),
            Op::Yield { agreement: 0, attrs: Some(vec!["legalname".into()]) },
            Op::User { ident: IdentSpec::User(1), target: person_a, mods: vec![UMod::Present("legalname".into(), "u0".into())] },
            Op::User { ident: IdentSpec::User(1), target: person_a, mods: vec![UMod::Present("displayname".into(), "u1".into())] },
            sync(0, St::Current, vec![acct(person_a, vec![("legalname", AVal::Str("ln1".into()))])], Ret::Ignore),
            sync(0, St::Current, vec![acct(person_a, vec![])], Ret::Ignore),
        ],
        2 => vec![
            sync(0, St::Refresh, vec![acct(person_a, vec![])], Ret::Ignore),
            sync(1, St::Refresh, vec![acct(person_a, vec![])], Ret::Ignore),
            sync(1, St::Refresh, vec![acct(p.b[0] & !1, vec![])], Ret::Delete(vec![person_a])),
            sync(1, St::Current, vec![acct(p.natives[0], vec![])], Ret::Ignore),
            sync(1, St::Current, vec![acct(p.recycled, vec![])], Ret::Ignore),
            sync(1, St::Current, vec![acct(p.tomb, vec![])], Ret::Ignore),
            sync(1, St::Current, vec![], Ret::Delete(vec![p.natives[0], p.recycled])),
            sync(1, St::Current, vec![], Ret::Retain(vec![])),
            sync(0, St::Current, vec![], Ret::Delete(vec![person_a])),
            sync(0, St::Current, vec![acct(person_a, vec![])], Ret::Ignore),
        ],
        _ => scripted_yield_history((world / 4) % 3, p, &acct, &sync),
    }
}

/// Scripted histories about *taking a yielded attribute back* (always run: worlds 3, 7, 11 of every
/// tier). The access controls cache the map agreement -> yielded attributes and rebuild it when an
/// agreement entry changes; the property speaks about the STORED yield set at the time of the
/// user's request. Seeded change this closes: the rebuilt map was only installed when non-empty, so
/// purging the last yield set left the stale one in force.
fn scripted_yield_history(
    variant: u64,
    p: &Pools,
    acct: &dyn Fn(u128, Vec<(&str, AVal)>) -> SEntry,
    sync: &dyn Fn(u8, St, Vec<SEntry>, Ret) -> Op,
) -> Vec<Op> {
    let person_a = p.a[0] & !1;
    let person_b = p.b[0] & !1;
    let group_a = p.a[1] | 1;
    // (single-valued attributes: replace = purge + present in one request, otherwise the schema refuses
    // a second value after access control has already said yes — and nothing would be observable)
    let user = |target: u128, m: Vec<UMod>| Op::User { ident: IdentSpec::User(1), target, mods: m };
    let set = |a: &str, v: &str| vec![UMod::Purged(a.into()), UMod::Present(a.into(), v.into())];
    let yields = |agreement: u8, attrs: &[&str]| Op::Yield { agreement, attrs: Some(attrs.iter().map(|s| s.to_string()).collect()) };
    let purge = |agreement: u8| Op::Yield { agreement, attrs: None };
    match variant {
        // one agreement yields, then nobody does; again after the yield set was reinstated
        0 => vec![
            sync(0, St::Refresh, vec![acct(person_a, vec![("legalname", AVal::Str("ln0".into()))])], Ret::Ignore),
            yields(0, &["legalname"]),
            user(person_a, set("legalname", "s0")),
            user(person_a, set("displayname", "s1")),
            purge(0),
            user(person_a, set("legalname", "s2")),
            user(person_a, vec![UMod::Purged("legalname".into())]),
            user(person_a, set("displayname", "s3")),
            yields(0, &["displayname", "legalname"]),
            user(person_a, set("displayname", "s4")),
            user(person_a, set("legalname", "s5")),
            purge(0),
            purge(1),
            user(person_a, set("displayname", "s6")),
            user(person_a, set("legalname", "s7")),
            sync(0, St::Current, vec![acct(person_a, vec![("legalname", AVal::Str("ln1".into()))])], Ret::Ignore),
        ],
        // two agreements yield; one is emptied (the other still yields); then both are empty
        1 => vec![
            sync(0, St::Refresh, vec![acct(person_a, vec![])], Ret::Ignore),
            sync(1, St::Refresh, vec![acct(person_b, vec![])], Ret::Ignore),
            yields(0, &["legalname"]),
            yields(1, &["displayname"]),
            user(person_a, set("legalname", "t0")),
            user(person_b, set("displayname", "t1")),
            user(person_a, set("displayname", "t2")),
            user(person_b, set("legalname", "t3")),
            purge(0),
            user(person_a, set("legalname", "t4")),
            user(person_b, set("displayname", "t5")),
            user(person_b, set("legalname", "t6")),
            purge(1),
            user(person_b, set("displayname", "t7")),
            user(person_a, set("legalname", "t8")),
            user(person_b, set("legalname", "t9")),
            user(person_a, set("displayname", "t10")),
        ],
        // a group: description and member handed over, taken back, written by the agreement again;
        // the other agreement's yield set comes and goes in between
        _ => vec![
            sync(
                0,
                St::Refresh,
                vec![SEntry {
                    id: group_a,
                    ext: Some(format!("x{:x}", group_a & 0xffff_ffff_ffff)),
                    schemas: vec![format!("{SCIM_SCHEMA_SYNC_1}group")],
                    attrs: vec![("description".into(), AVal::Str("d0".into())), ("name".into(), AVal::Str(name_of(group_a, 0)))],
                }],
                Ret::Ignore,
            ),
            yields(0, &["description", "member"]),
            user(group_a, set("description", "g0")),
            user(group_a, vec![UMod::PresentRef("member".into(), p.natives[0])]),
            purge(0),
            user(group_a, set("description", "g1")),
            user(group_a, vec![UMod::PresentRef("member".into(), p.natives[1])]),
            user(group_a, vec![UMod::Purged("member".into())]),
            yields(1, &["legalname"]),
            user(group_a, set("description", "g2")),
            purge(1),
            user(group_a, set("description", "g3")),
            user(group_a, vec![UMod::Purged("description".into())]),
        ],
    }
}

/// Generator bias (a *motif*, several operations): some agreement hands attributes over, then EVERY
/// agreement's yield set is purged (either order), then the user tries each attribute that had been
/// handed over and one that never was, on an entry of that agreement.
fn yield_drain_motif(rng: &mut Rng, p: &Pools) -> Vec<Op> {
    let ag = rng.below(2) as u8;
    let own = if ag == 0 { &p.a } else { &p.b };
    let target = *rng.pick(&own[4..8]);
    let pool: &[&str] = if (target & 1) == 1 { &["description", "member"] } else { &["legalname", "displayname"] };
    let mut yset: BTreeSet<String> = BTreeSet::new();
    yset.insert(rng.pick(pool).to_string());
    if rng.chance(1, 3) {
        yset.insert(rng.pick(pool).to_string());
    }
    if rng.chance(1, 3) {
        yset.insert(rng.pick(YIELDABLE).to_string());
    }
    let umod = |rng: &mut Rng, a: &str| {
        if a == "member" {
            vec![UMod::PresentRef("member".into(), *rng.pick(&p.natives))]
        } else if rng.chance(1, 5) {
            vec![UMod::Purged(a.into())]
        } else {
            // replace (the attributes are single-valued: a bare `Present` of a second value is a schema error)
            vec![UMod::Purged(a.into()), UMod::Present(a.into(), format!("m{}", rng.below(1000)))]
        }
    };
    let mut v = vec![Op::Yield { agreement: ag, attrs: Some(yset.iter().cloned().collect()) }];
    if rng.chance(1, 2) {
        v.push(Op::Yield { agreement: 1 - ag, attrs: Some(vec![rng.pick(YIELDABLE).to_string()]) });
    }
    if rng.chance(1, 2) {
        let a = rng.pick(pool).to_string();
        let m = umod(rng, &a);
        v.push(Op::User { ident: IdentSpec::User(1), target, mods: m });
    }
    let first = rng.below(2) as u8;
    v.push(Op::Yield { agreement: first, attrs: None });
    v.push(Op::Yield { agreement: 1 - first, attrs: None });
    for a in pool {
        let m = umod(rng, a);
        v.push(Op::User { ident: IdentSpec::User(1), target, mods: m });
    }
    v
}

fn gen_history(seed: u64, world: u64, n: u64, boundary_heavy: bool) -> Vec<Op> {
    let p = pools();
    let mut rng = Rng::for_case(seed, world);
    let mut v = opening(world, &p);
    v.push(seed_op(&mut rng, &p, 0));
    v.push(seed_op(&mut rng, &p, 1));
    // (generation is sequential: a longer history has the shorter one as a prefix, so `keep` replays)
    while (v.len() as u64) < n {
        if rng.chance(1, if boundary_heavy { 6 } else { 14 }) {
            v.extend(yield_drain_motif(&mut rng, &p));
        } else {
            v.push(gen_op(&mut rng, &p, boundary_heavy));
        }
    }
    v
}

// ---------------------------------------------------------------------------------------------
// world
// ---------------------------------------------------------------------------------------------

struct World {
    idms: IdmServer,
    ct: Duration,
    group: Uuid,
    p: Pools,
    /// granted attribute / class names of the modify profile
    grant_attrs: Vec<String>,
    grant_classes: Vec<String>,
    /// schema facts read from the running server (for the oracle and as the model's parameter)
    sync_attrs: BTreeSet<String>,
    sync_classes: BTreeSet<String>,
    schema_line: String,
    schema_wf: bool,
}

fn person(name: &str, uuid: Uuid) -> NewE {
    let mut e: NewE = Entry::new();
    e.add_ava(Attribute::Class, EntryClass::Object.to_value());
    e.add_ava(Attribute::Class, EntryClass::Account.to_value());
    e.add_ava(Attribute::Class, EntryClass::Person.to_value());
    e.add_ava(Attribute::Name, Value::new_iname(name));
    e.add_ava(Attribute::Uuid, Value::Uuid(uuid));
    e.add_ava(Attribute::DisplayName, Value::new_utf8s(name));
    e.add_ava(Attribute::Description, Value::new_utf8s("native"));
    e
}

fn group(name: &str, uuid: Uuid, members: &[Uuid]) -> NewE {
    let mut e: NewE = Entry::new();
    e.add_ava(Attribute::Class, EntryClass::Object.to_value());
    e.add_ava(Attribute::Class, EntryClass::Group.to_value());
    e.add_ava(Attribute::Name, Value::new_iname(name));
    e.add_ava(Attribute::Uuid, Value::Uuid(uuid));
    for m in members {
        e.add_ava(Attribute::Member, Value::Refer(*m));
    }
    e
}

fn acp(name: &str, uuid: Uuid, kind: EntryClass, group: Uuid) -> NewE {
    let mut e: NewE = Entry::new();
    e.add_ava(Attribute::Class, EntryClass::Object.to_value());
    e.add_ava(Attribute::Class, EntryClass::AccessControlProfile.to_value());
    e.add_ava(Attribute::Class, kind.to_value());
    e.add_ava(Attribute::Class, EntryClass::AccessControlReceiverGroup.to_value());
    e.add_ava(Attribute::Class, EntryClass::AccessControlTargetScope.to_value());
    e.add_ava(Attribute::Name, Value::new_iname(name));
    e.add_ava(Attribute::Uuid, Value::Uuid(uuid));
    e.add_ava(Attribute::Description, Value::new_utf8s(name));
    e.add_ava(Attribute::AcpReceiverGroup, Value::Refer(group));
    e.add_ava(Attribute::AcpTargetScope, Value::JsonFilt(ProtoFilter::Pres("class".into())));
    e
}

impl World {
    async fn build(n: &mut Names) -> World {
        let (idms, _delayed, _audit) = setup_idm_test(TestConfiguration::default()).await;
        let p = pools();
        let t0 = duration_from_epoch_now() + Duration::from_secs(60);
        let grp = wu(0x100);
        let user = Uuid::from_u128(p.user);
        {
            let mut w = idms.proxy_write(t0).await.expect("txn1");
            let f = Filter::new_ignore_hidden(f_eq(Attribute::Class, EntryClass::AccessControlProfile.into()));
            w.qs_write.internal_delete(&f).expect("delete builtin acps");
            w.qs_write
                .internal_create(vec![person("c50user", user), person("c50tomb", Uuid::from_u128(p.tomb))])
                .expect("users");
            w.qs_write.internal_create(vec![group("c50admins", grp, &[user])]).expect("group");
            w.commit().expect("commit1");
        }
        {
            let mut w = idms.proxy_write(t0 + Duration::from_secs(10)).await.expect("txn1b");
            let f = Filter::new_ignore_hidden(f_eq(Attribute::Uuid, PartialValue::Uuid(Uuid::from_u128(p.tomb))));
            w.qs_write.internal_delete(&f).expect("delete tomb fodder");
            w.commit().expect("commit1b");
        }
        {
            let mut w = idms.proxy_write(t0 + Duration::from_secs(8 * DAY)).await.expect("txn2");
            w.qs_write.purge_recycled().expect("purge_recycled");
            w.commit().expect("commit2");
        }
        let t1 = t0 + Duration::from_secs(9 * DAY);
        let grant_attrs: Vec<String> = [
            "class", "name", "displayname", "legalname", "description", "loginshell", "member", "mail", "gidnumber",
            "primary_credential", "user_auth_token_session", "oauth2_session", "oauth2_consent_scope_map",
            "credential_update_intent_token", "sync_external_id", "sync_parent_uuid", "sync_class", "unix_password",
        ]
        .iter()
        .map(|s| s.to_string())
        .collect();
        let grant_classes: Vec<String> =
            ["object", "account", "person", "group", "posixgroup", "posixaccount", "sync_object", "memberof"].iter().map(|s| s.to_string()).collect();
        {
            let mut w = idms.proxy_write(t1).await.expect("txn3");
            let natives: Vec<Uuid> = p.natives.iter().map(|u| Uuid::from_u128(*u)).collect();
            let mut es = vec![];
            for (i, u) in natives.iter().enumerate() {
                es.push(person(&format!("c50native{i}"), *u));
            }
            es.push(person("c50recycled", Uuid::from_u128(p.recycled)));
            w.qs_write.internal_create(es).expect("natives");
            w.qs_write.internal_create(vec![group("c50ngroup", Uuid::from_u128(p.native_group), &natives[..1])]).expect("native group");
            for (i, su) in p.agreements.iter().enumerate() {
                let mut e: NewE = Entry::new();
                e.add_ava(Attribute::Class, EntryClass::Object.to_value());
                e.add_ava(Attribute::Class, EntryClass::SyncAccount.to_value());
                e.add_ava(Attribute::Name, Value::new_iname(&format!("c50sync{i}")));
                e.add_ava(Attribute::Uuid, Value::Uuid(Uuid::from_u128(*su)));
                e.add_ava(Attribute::Description, Value::new_utf8s("c50 sync agreement"));
                w.qs_write.internal_create(vec![e]).expect("sync account");
            }
            let mut s = acp("c50search", wu(0x4ff), EntryClass::AccessControlSearch, UUID_IDM_ALL_ACCOUNTS);
            for a in ["class", "uuid", "name", "spn", "memberof", "member", "description", "displayname", "legalname", "sync_parent_uuid"] {
                s.add_ava(Attribute::AcpSearchAttr, Value::new_iutf8(a));
            }
            let mut m = acp("c50modify", wu(0x400), EntryClass::AccessControlModify, grp);
            for a in &grant_attrs {
                m.add_ava(Attribute::AcpModifyPresentAttr, Value::new_iutf8(a));
                m.add_ava(Attribute::AcpModifyRemovedAttr, Value::new_iutf8(a));
            }
            for c in &grant_classes {
                m.add_ava(Attribute::AcpModifyPresentClass, Value::new_iutf8(c));
                m.add_ava(Attribute::AcpModifyRemoveClass, Value::new_iutf8(c));
            }
            w.qs_write.internal_create(vec![s, m]).expect("acps");
            w.commit().expect("commit3");
        }
        {
            let mut w = idms.proxy_write(t1 + Duration::from_secs(10)).await.expect("txn3b");
            let f = Filter::new_ignore_hidden(f_eq(Attribute::Uuid, PartialValue::Uuid(Uuid::from_u128(p.recycled))));
            w.qs_write.internal_delete(&f).expect("recycle target");
            w.commit().expect("commit3b");
        }
        let ct = t1 + Duration::from_secs(60);
        // schema facts of the running server
        let (sync_attrs, sync_classes, schema_line, schema_wf) = {
            let mut w = idms.proxy_write(ct).await.expect("schema txn");
            let schema = w.qs_write.get_schema();
            let mut sync_attrs = BTreeSet::new();
            let mut sync_classes = BTreeSet::new();
            let mut cls_items = vec![];
            for c in schema.get_classes().values() {
                if c.sync_allowed {
                    sync_classes.insert(c.name.to_string());
                }
                let attrs: Vec<u64> =
                    c.systemmay.iter().chain(c.may.iter()).chain(c.systemmust.iter()).chain(c.must.iter()).map(|a| n.a(a.as_str())).collect();
                cls_items.push(format!("{}:{}:{}", n.c(c.name.as_str()), c.sync_allowed as u8, plus(attrs)));
            }
            let mut attr_items = vec![];
            let mut wf = true;
            for a in schema.get_attributes().values() {
                if a.sync_allowed {
                    sync_attrs.insert(a.name.to_string());
                    if ["uuid", "class", "sync_parent_uuid", "sync_external_id", "sync_class", "sync_cookie", "sync_yield_authority"]
                        .contains(&a.name.as_str())
                    {
                        wf = false;
                    }
                }
                attr_items.push(format!("{}:{}:{}", n.a(a.name.as_str()), a.sync_allowed as u8, a.phantom as u8));
            }
            let line = format!("schema\t{}\t{}\t{}", cls_items.join(";"), attr_items.join(";"), n.a("member"));
            (sync_attrs, sync_classes, line, wf)
        };
        World { idms, ct, group: grp, p, grant_attrs, grant_classes, sync_attrs, sync_classes, schema_line, schema_wf }
    }

    fn acps_m(&self, n: &mut Names) -> String {
        let al = comma(self.grant_attrs.iter().map(|a| n.a(a)).collect::<Vec<_>>());
        let cl = comma(self.grant_classes.iter().map(|c| n.c(c)).collect::<Vec<_>>());
        let ca = n.a("class");
        format!("G:{}~(pres {ca})~{al}~{al}~{cl}~{cl}", self.group.as_u128())
    }
}

// ---------------------------------------------------------------------------------------------
// database views
// ---------------------------------------------------------------------------------------------

/// One stored entry as the oracle sees it: every attribute, values rendered by `Debug`.
#[derive(Clone, Debug, PartialEq)]
struct Full {
    id: u64,
    uuid: u128,
    classes: BTreeSet<String>,
    parent: Option<u128>,
    attrs: BTreeMap<String, String>,
    refs: BTreeMap<String, BTreeSet<u128>>,
    yield_auth: BTreeSet<String>,
}

impl Full {
    fn live(&self) -> bool {
        !self.classes.contains("recycled") && !self.classes.contains("tombstone")
    }
}

fn all_entries(txn: &mut QueryServerWriteTransaction<'_>) -> Vec<Arc<Sealed>> {
    let f = Filter::new(f_pres(Attribute::Class));
    txn.internal_search(f).expect("snapshot search")
}

fn full_of(e: &Sealed) -> Full {
    let mut attrs = BTreeMap::new();
    let mut refs = BTreeMap::new();
    for (a, vs) in e.get_ava_iter() {
        attrs.insert(a.as_str().to_string(), format!("{vs:?}"));
        if let Some(r) = vs.as_refer_set() {
            refs.insert(a.as_str().to_string(), r.iter().map(|u| u.as_u128()).collect());
        }
    }
    Full {
        id: e.get_id(),
        uuid: e.get_uuid().as_u128(),
        classes: e.get_ava_as_iutf8(Attribute::Class).cloned().unwrap_or_default(),
        parent: e.get_ava_single_refer(Attribute::SyncParentUuid).map(|u| u.as_u128()),
        attrs,
        refs,
        yield_auth: e.get_ava_as_iutf8(Attribute::SyncYieldAuthority).cloned().unwrap_or_default(),
    }
}

fn snapshot(txn: &mut QueryServerWriteTransaction<'_>) -> BTreeMap<u64, Full> {
    all_entries(txn).iter().map(|e| (e.get_id(), full_of(e))).collect()
}

/// canonical ENTRY line of the model protocol for a stored entry
fn model_entry(n: &mut Names, e: &Sealed) -> String {
    let classes = e.get_ava_as_iutf8(Attribute::Class).cloned().unwrap_or_default();
    let life = if classes.contains("tombstone") {
        2
    } else if classes.contains("recycled") {
        1
    } else {
        0
    };
    let cls: BTreeSet<u64> = classes.iter().filter(|c| TRACKED_CLASSES.contains(&c.as_str())).map(|c| n.c(c)).collect();
    let parent = e.get_ava_single_refer(Attribute::SyncParentUuid).map(|u| u.as_u128().to_string()).unwrap_or("!".into());
    let ext = e.get_ava_as_iutf8(Attribute::SyncExternalId).and_then(|s| s.iter().next().cloned()).map(|s| n.v(&s).to_string()).unwrap_or("!".into());
    let sc: BTreeSet<u64> = e.get_ava_as_iutf8(Attribute::SyncClass).map(|s| s.iter().map(|c| n.c(c)).collect()).unwrap_or_default();
    let cookie = e.get_ava_single_private_binary(Attribute::SyncCookie).map(|b| n.v(&format!("cookie{b:?}")).to_string()).unwrap_or("!".into());
    let y = match e.get_ava_as_iutf8(Attribute::SyncYieldAuthority) {
        Some(s) => plus(s.iter().map(|a| n.a(a)).collect::<BTreeSet<_>>()),
        None => "!".into(),
    };
    let mut attrs: BTreeMap<u64, BTreeSet<u128>> = BTreeMap::new();
    if life == 0 {
        for a in TRACKED_STR_ATTRS {
            if let Some(vs) = e.get_ava_set(Attribute::from(*a)) {
                let vals: BTreeSet<u128> = vs.to_proto_string_clone_iter().map(|s| n.v(&s) as u128).collect();
                if !vals.is_empty() {
                    attrs.insert(n.a(a), vals);
                }
            }
        }
        if let Some(r) = e.get_ava_refer(Attribute::Member) {
            if !r.is_empty() {
                attrs.insert(n.a("member"), r.iter().map(|u| u.as_u128()).collect());
            }
        }
        for (a, attr) in [("primary_credential", Attribute::PrimaryCredential), ("unix_password", Attribute::UnixPassword)] {
            if let Some(c) = e.get_ava_single_credential(attr) {
                let atom = match c.password_ref() {
                    Ok(pw) => {
                        let mut k = None;
                        for h in IMPORT_HASHES {
                            if let Ok(p) = kanidm_lib_crypto::Password::try_from(h) {
                                if &p == pw {
                                    k = Some(n.v(h));
                                }
                            }
                        }
                        k.unwrap_or_else(|| n.v("other-password"))
                    }
                    Err(_) => n.v("non-password-credential"),
                };
                attrs.insert(n.a(a), [atom as u128].into_iter().collect());
            }
        }
    }
    let at = if attrs.is_empty() { "-".to_string() } else { attrs.iter().map(|(a, vs)| format!("{a}={}", plus(vs))).collect::<Vec<_>>().join(",") };
    format!("{}|{}|{}|{}|{}|{}|{}|{}|{}", e.get_uuid().as_u128(), life, plus(cls), parent, ext, plus(sc), cookie, y, at)
}

/// blank the attribute field of a masked entry (the model keeps what it had, the harness does not
/// read attributes of recycled entries)
fn canon_model_line(l: &str, gid_attr: u64) -> String {
    let f: Vec<&str> = l.split('|').collect();
    if f.len() == 9 && f[1] != "0" {
        let mut g = f.clone();
        g[8] = "-";
        g.join("|")
    } else if f.len() == 9 {
        // gidnumber values are not compared: the server allocates one when a posix class has none
        let pre = format!("{gid_attr}=");
        let kept: Vec<&str> = f[8].split(',').filter(|p| !p.starts_with(&pre)).collect();
        let at = if kept.is_empty() { "-".to_string() } else { kept.join(",") };
        let mut g: Vec<String> = f.iter().map(|x| x.to_string()).collect();
        g[8] = at;
        g.join("|")
    } else {
        l.to_string()
    }
}

// ---------------------------------------------------------------------------------------------
// running a history
// ---------------------------------------------------------------------------------------------

fn scope_of(s: u8) -> AccessScope {
    match s {
        0 => AccessScope::ReadOnly,
        1 => AccessScope::ReadWrite,
        _ => AccessScope::Synchronise,
    }
}

fn err_class(e: &OperationError) -> String {
    match e {
        OperationError::AccessDenied => "accessDenied".into(),
        OperationError::NoMatchingEntries => "noMatchingEntries".into(),
        OperationError::InvalidSyncState => "invalidSyncState".into(),
        OperationError::InvalidEntryState => "invalidEntryState".into(),
        OperationError::EmptyRequest => "emptyRequest".into(),
        OperationError::ModifyAssertionFailed => "modifyAssertionFailed".into(),
        OperationError::InvalidAttribute(_) => "invalidAttribute".into(),
        OperationError::MissingEntries => "missingEntries".into(),
        other => {
            let s = format!("{other:?}");
            let head: String = s.chars().take_while(|c| c.is_alphanumeric() || *c == '_').collect();
            format!("later:{head}")
        }
    }
}

struct Outcome {
    oracle_fail: bool,
}

struct Run<'a> {
    n: &'a mut Names,
    d: &'a mut Driver,
    rep: &'a mut Report,
    seed: u64,
    world: u64,
    heavy: bool,
    quiet: bool,
    model_failures: u64,
    /// stop the history at the first oracle failure (shrinking / replay)
    stop_at_oracle: bool,
    /// oracle classes seen
    classes: BTreeSet<String>,
}

impl Run<'_> {
    fn input(&self, keep: &[usize]) -> J {
        json!({"seed": self.seed, "world": self.world, "heavy": self.heavy, "keep": keep})
    }
}

fn tracked_uuids(w: &World, extra: &BTreeSet<u128>) -> BTreeSet<u128> {
    let p = &w.p;
    let mut s: BTreeSet<u128> = BTreeSet::new();
    s.extend(p.a.iter().copied());
    s.extend(p.b.iter().copied());
    s.extend(p.natives.iter().copied());
    s.insert(p.native_group);
    s.insert(p.recycled);
    s.insert(p.tomb);
    s.extend(p.agreements.iter().copied());
    s.insert(p.user);
    s.extend(p.reserved_used.iter().copied());
    s.extend(p.reserved_free.iter().copied());
    s.extend(p.boundary.iter().copied());
    s.extend(extra.iter().copied());
    s
}

fn real_tracked(n: &mut Names, txn: &mut QueryServerWriteTransaction<'_>, tracked: &BTreeSet<u128>) -> Vec<String> {
    let mut v: Vec<(u128, String)> =
        all_entries(txn).iter().filter(|e| tracked.contains(&e.get_uuid().as_u128())).map(|e| (e.get_uuid().as_u128(), model_entry(n, e))).collect();
    v.sort();
    v.into_iter().map(|x| x.1).collect()
}

fn scim_value(v: &AVal) -> ScimValue {
    match v {
        AVal::Str(s) => ScimValue::Simple(ScimAttr::String(s.clone())),
        AVal::Int(i) => ScimValue::Simple(ScimAttr::Integer(*i)),
        AVal::Refs(us) => ScimValue::MultiComplex(
            us.iter()
                .map(|u| {
                    let mut c: ScimComplexAttr = BTreeMap::new();
                    c.insert("external_id".to_string(), ScimAttr::String(Uuid::from_u128(*u).to_string()));
                    c
                })
                .collect(),
        ),
        AVal::Bad => ScimValue::MultiSimple(vec![ScimAttr::Bool(true)]),
    }
}

/// what `scim_attr_to_values` makes of the value, as the model's atoms (`None` = it fails).
/// Written per attribute of the generator's table; anything else is only sent where the request
/// is rejected before conversion.
fn model_value(n: &mut Names, attr: &str, v: &AVal) -> Option<Vec<u128>> {
    match (attr, v) {
        (_, AVal::Bad) => None,
        ("member", AVal::Refs(us)) => Some(us.clone()),
        ("memberof", AVal::Refs(us)) => Some(us.clone()),
        ("gidnumber", AVal::Int(i)) => Some(vec![n.v(&i.to_string()) as u128]),
        ("name", AVal::Str(s)) => Some(vec![n.v(&s.to_lowercase()) as u128]),
        (_, AVal::Str(s)) => Some(vec![n.v(s) as u128]),
        _ => None,
    }
}

fn sentry_model(n: &mut Names, s: &SEntry) -> String {
    let ext = s.ext.as_ref().map(|x| n.v(&x.to_lowercase()).to_string()).unwrap_or("!".into());
    let schemas: Vec<String> = s
        .schemas
        .iter()
        .map(|x| match x.strip_prefix(SCIM_SCHEMA_SYNC_1) {
            Some(c) => n.c(c).to_string(),
            None => "!".into(),
        })
        .collect();
    let attrs: Vec<String> = s
        .attrs
        .iter()
        .map(|(a, v)| {
            let an = n.a(a);
            match model_value(n, a, v) {
                Some(vs) => format!("{an}={}", plus(vs)),
                None => format!("{an}=!"),
            }
        })
        .collect();
    format!("{}~{}~{}~{}", s.id, ext, if schemas.is_empty() { "-".into() } else { schemas.join("+") }, if attrs.is_empty() { "-".into() } else { attrs.join(",") })
}

fn umod_real(m: &UMod) -> Modify {
    match m {
        UMod::Present(a, v) => {
            let attr = Attribute::from(a.as_str());
            let val = if a == "name" { Value::new_iname(v) } else { Value::new_utf8s(v) };
            Modify::Present(attr, val)
        }
        UMod::Removed(a, v) => Modify::Removed(Attribute::from(a.as_str()), PartialValue::new_utf8s(v)),
        UMod::Purged(a) => Modify::Purged(Attribute::from(a.as_str())),
        UMod::PresentRef(a, u) => Modify::Present(Attribute::from(a.as_str()), Value::Refer(Uuid::from_u128(*u))),
        UMod::PresentClass(c) => Modify::Present(Attribute::Class, Value::new_iutf8(c)),
        UMod::RemovedClass(c) => Modify::Removed(Attribute::Class, PartialValue::new_iutf8(c)),
    }
}

fn umod_model(n: &mut Names, m: &UMod) -> String {
    match m {
        UMod::Present(a, v) => {
            let val = if a == "name" { n.v(&v.to_lowercase()) } else { n.v(v) };
            format!("p:{}:{}", n.a(a), val)
        }
        UMod::Removed(a, v) => format!("r:{}:{}", n.a(a), n.v(v)),
        UMod::Purged(a) => format!("u:{}", n.a(a)),
        UMod::PresentRef(a, u) => format!("p:{}:{}", n.a(a), u),
        UMod::PresentClass(c) => format!("p:{}:{}", n.a("class"), n.c(c)),
        UMod::RemovedClass(c) => format!("r:{}:{}", n.a("class"), n.c(c)),
    }
}

fn op_json(op: &Op) -> J {
    json!(format!("{op:?}"))
}

fn differs(pre: &Full, post: &Full, ignore: &dyn Fn(&str) -> bool, dropped_refs: &BTreeSet<u128>) -> Vec<String> {
    let mut out = vec![];
    let keys: BTreeSet<&String> = pre.attrs.keys().chain(post.attrs.keys()).collect();
    for k in keys {
        if ignore(k) {
            continue;
        }
        let a = pre.attrs.get(k);
        let b = post.attrs.get(k);
        if a == b {
            continue;
        }
        // a reference attribute that only lost references to entries deleted by the request
        if let (Some(ra), rb) = (pre.refs.get(k), post.refs.get(k)) {
            let rb = rb.cloned().unwrap_or_default();
            let lost: BTreeSet<u128> = ra.difference(&rb).copied().collect();
            let gained: BTreeSet<u128> = rb.difference(ra).copied().collect();
            if gained.is_empty() && !lost.is_empty() && lost.is_subset(dropped_refs) {
                continue;
            }
        }
        out.push(k.clone());
    }
    out
}

fn is_derived(a: &str) -> bool {
    DERIVED.contains(&a)
}

/// Run the operations `ops[i]` for `i` in `keep` on a fresh world. Returns whether an oracle
/// failure was found (recorded in the report unless `quiet`).
async fn run_history(r: &mut Run<'_>, ops: &[Op], keep: &[usize]) -> Outcome {
    let w = World::build(r.n).await;
    let mut oracle_fail = false;
    // model: schema + tracked entries
    let wf = r.d.ask(&w.schema_line);
    if !r.quiet {
        if !w.schema_wf {
            r.rep.fail(Failure {
                kind: "impl-vs-oracle".into(),
                class: "c50-structural-attribute-synchronisable".into(),
                input: r.input(&[]),
                expected: "uuid, class, sync_parent_uuid, sync_external_id, sync_class, sync_cookie, sync_yield_authority are not sync_allowed in the server's schema".into(),
                observed: "one of them is".into(),
            });
            oracle_fail = true;
        }
        if wf != format!("ok wf={}", w.schema_wf as u8) {
            r.rep.fail(Failure {
                kind: "impl-vs-model".into(),
                class: "c50-model-schema".into(),
                input: r.input(&[]),
                expected: format!("ok wf={}", w.schema_wf as u8),
                observed: wf.clone(),
            });
        }
    }
    let mut extra: BTreeSet<u128> = BTreeSet::new();
    let mut tracked = tracked_uuids(&w, &extra);
    {
        let mut txn = w.idms.proxy_write(w.ct).await.expect("feed txn");
        for l in real_tracked(r.n, &mut txn.qs_write, &tracked) {
            let rep = r.d.ask(&format!("ent\t{l}"));
            assert_eq!(rep, "ok", "ent rejected: {l}");
        }
    }
    let acps = w.acps_m(r.n);
    let mut done: Vec<usize> = vec![];
    let mut ever_yielded = false;
    for (step, &i) in keep.iter().enumerate() {
        let op = &ops[i];
        done.push(i);
        let ct = w.ct + Duration::from_secs(10 * (step as u64 + 1));
        let mut txn = w.idms.proxy_write(ct).await.expect("op txn");
        let pre = snapshot(&mut txn.qs_write);
        let pre_by_uuid: BTreeMap<u128, &Full> = pre.values().map(|f| (f.uuid, f)).collect();
        // --- run the real operation and build the model line
        let (res, line_of, kind): (Result<(), OperationError>, Box<dyn Fn(bool) -> String>, &str) = match op {
            Op::Sync { ident, from, to, entries, retain } => {
                let (id, id_txt, agreement) = match ident {
                    IdentSpec::Synch(a, sc) => {
                        let su = w.p.agreements[*a as usize];
                        (ident_synch(Uuid::from_u128(su), scope_of(*sc)), format!("S:{su}:{sc}"), Some(su))
                    }
                    IdentSpec::User(sc) => {
                        let e = fetch(&mut txn.qs_write, Uuid::from_u128(w.p.user)).expect("user");
                        let mo = e.get_ava_refer(Attribute::MemberOf).map(|s| comma(s.iter().map(|u| u.as_u128()))).unwrap_or("!".into());
                        (Identity::from_impersonate_entry_readwrite(e).project_with_scope(scope_of(*sc)), format!("U:{}:{sc}:{mo}", w.p.user), None)
                    }
                    IdentSpec::Internal => {
                        let e = fetch(&mut txn.qs_write, Uuid::from_u128(w.p.user)).expect("user");
                        let mut id = Identity::from_impersonate_entry_readwrite(e);
                        id.origin = IdentType::Internal(InternalRole::System);
                        (id, "I:0:1".to_string(), None)
                    }
                };
                let cur_cookie: Option<Vec<u8>> = agreement
                    .and_then(|su| fetch(&mut txn.qs_write, Uuid::from_u128(su)))
                    .and_then(|e| e.get_ava_single_private_binary(Attribute::SyncCookie).map(|b| b.to_vec()));
                let conv = |s: &St| match s {
                    St::Refresh => ScimSyncState::Refresh,
                    St::Cookie(c) => ScimSyncState::Active { cookie: c.clone() },
                    St::Current => match &cur_cookie {
                        Some(c) => ScimSyncState::Active { cookie: c.clone() },
                        None => ScimSyncState::Refresh,
                    },
                };
                let (from_s, to_s) = (conv(from), conv(to));
                let st_txt = |n: &mut Names, s: &ScimSyncState| match s {
                    ScimSyncState::Refresh => "R".to_string(),
                    ScimSyncState::Active { cookie } => format!("A:{}", n.v(&format!("cookie{cookie:?}"))),
                };
                let (f_txt, t_txt) = (st_txt(r.n, &from_s), st_txt(r.n, &to_s));
                let req = ScimSyncRequest {
                    from_state: from_s,
                    to_state: to_s,
                    entries: entries
                        .iter()
                        .map(|s| ScimEntry {
                            schemas: s.schemas.clone(),
                            id: Uuid::from_u128(s.id),
                            external_id: s.ext.clone(),
                            meta: None,
                            attrs: s.attrs.iter().map(|(a, v)| (a.clone(), scim_value(v))).collect(),
                        })
                        .collect(),
                    retain: match retain {
                        Ret::Ignore => ScimSyncRetentionMode::Ignore,
                        Ret::Retain(ids) => ScimSyncRetentionMode::Retain(ids.iter().map(|u| Uuid::from_u128(*u)).collect()),
                        Ret::Delete(ids) => ScimSyncRetentionMode::Delete(ids.iter().map(|u| Uuid::from_u128(*u)).collect()),
                    },
                };
                let es_txt = if entries.is_empty() { "-".to_string() } else { entries.iter().map(|s| sentry_model(r.n, s)).collect::<Vec<_>>().join("^") };
                let r_txt = match retain {
                    Ret::Ignore => "I".to_string(),
                    Ret::Retain(ids) => format!("R:{}", comma(ids.iter())),
                    Ret::Delete(ids) => format!("D:{}", comma(ids.iter())),
                };
                for s in entries {
                    extra.insert(s.id);
                }
                let res = txn.scim_sync_apply(&ScimSyncUpdateEvent { ident: id }, &req, ct);
                (res, Box::new(move |later: bool| format!("sync\t{id_txt}\t{f_txt}\t{t_txt}\t{es_txt}\t{r_txt}\t{}", later as u8)), "sync")
            }
            Op::Yield { agreement, attrs } => {
                let su = w.p.agreements[*agreement as usize];
                let ml = match attrs {
                    None => ModifyList::new_purge(Attribute::SyncYieldAuthority),
                    Some(v) => {
                        let mut ms = vec![Modify::Purged(Attribute::SyncYieldAuthority)];
                        for a in v {
                            ms.push(Modify::Present(Attribute::SyncYieldAuthority, Value::new_iutf8(a)));
                        }
                        ModifyList::new_list(ms)
                    }
                };
                let res = txn.qs_write.internal_modify_uuid(Uuid::from_u128(su), &ml);
                let y_txt = match attrs {
                    None => "!".to_string(),
                    Some(v) => plus(v.iter().map(|a| r.n.a(a)).collect::<Vec<_>>()),
                };
                (res, Box::new(move |_later: bool| format!("yield\t{su}\t{y_txt}")), "yield")
            }
            Op::User { ident, target, mods } => {
                let sc = match ident {
                    IdentSpec::User(sc) => *sc,
                    _ => 1,
                };
                let e = fetch(&mut txn.qs_write, Uuid::from_u128(w.p.user)).expect("user");
                let mo = e.get_ava_refer(Attribute::MemberOf).map(|s| comma(s.iter().map(|u| u.as_u128()))).unwrap_or("!".into());
                let id = Identity::from_impersonate_entry_readwrite(e).project_with_scope(scope_of(sc));
                let id_txt = format!("U:{}:{sc}:{mo}", w.p.user);
                let filter: Filter<FilterInvalid> = Filter::new(f_eq(Attribute::Uuid, PartialValue::Uuid(Uuid::from_u128(*target))));
                let rl = ModifyList::<ModifyInvalid>::new_list(mods.iter().map(umod_real).collect());
                let res = match ModifyEvent::from_internal_parts(id, &rl, &filter, &txn.qs_write) {
                    Ok(me) => txn.qs_write.modify(&me),
                    Err(e) => Err(e),
                };
                let ml_txt = comma(mods.iter().map(|m| umod_model(r.n, m)).collect::<Vec<_>>());
                let acps = acps.clone();
                let target = *target;
                (res, Box::new(move |later: bool| format!("user\t{id_txt}\t{acps}\t{target}\t{ml_txt}\t{}", later as u8)), "user")
            }
        };
        let real_class = match &res {
            Ok(()) => "ok".to_string(),
            Err(e) => err_class(e),
        };
        // commit or drop, as the actor does
        let committed = if res.is_ok() {
            match txn.commit() {
                Ok(()) => true,
                Err(e) => {
                    r.rep.count(&format!("commit-failed:{e:?}"));
                    false
                }
            }
        } else {
            drop(txn);
            false
        };
        let real_class = if res.is_ok() && !committed { "later:Commit".to_string() } else { real_class };
        let mut txn2 = w.idms.proxy_write(ct + Duration::from_secs(1)).await.expect("view txn");
        let post = snapshot(&mut txn2.qs_write);
        // --- model
        let line = line_of(real_class == "ok");
        let model = r.d.ask(&line);
        let agree = if real_class == "ok" {
            model == "ok"
        } else if let Some(m) = model.strip_prefix("err:") {
            m == real_class || (m == "later" && real_class.starts_with("later:")) || (real_class.starts_with("later:") && m != "later" && {
                r.rep.count("modelled-error-masked-by-unmodelled-stage");
                true
            })
        } else {
            false
        };
        tracked = tracked_uuids(&w, &extra);
        let mut resync = false;
        if !r.quiet {
            r.rep.count(&format!("{kind}:{real_class}"));
        }
        if !agree {
            resync = true;
            if !r.quiet && r.model_failures < 6 {
                r.model_failures += 1;
                r.rep.fail(Failure {
                    kind: "impl-vs-model".into(),
                    class: format!("c50-model-result-{kind}"),
                    input: json!({"replay": r.input(&done), "request": line, "op": op_json(op)}),
                    expected: format!("model: {model}"),
                    observed: format!("implementation: {real_class} ({res:?})"),
                });
            } else if !r.quiet {
                r.rep.count("model-mismatch-not-recorded");
            }
        } else {
            let real_lines = real_tracked(r.n, &mut txn2.qs_write, &tracked);
            let dump = r.d.ask("dump");
            let model_lines: Vec<String> = if dump == "-" { vec![] } else { {
                let gid = r.n.a("gidnumber");
                dump.split(';').map(|l| canon_model_line(l, gid)).collect()
            } };
            if real_lines != model_lines {
                resync = true;
                if !r.quiet && r.model_failures < 6 {
                    r.model_failures += 1;
                    let rs: BTreeSet<&String> = real_lines.iter().collect();
                    let ms: BTreeSet<&String> = model_lines.iter().collect();
                    r.rep.fail(Failure {
                        kind: "impl-vs-model".into(),
                        class: format!("c50-model-state-{kind}"),
                        input: json!({"replay": r.input(&done), "request": line, "op": op_json(op)}),
                        expected: format!("model only: {:?}", ms.difference(&rs).collect::<Vec<_>>()),
                        observed: format!("implementation only: {:?} (result {real_class})", rs.difference(&ms).collect::<Vec<_>>()),
                    });
                } else if !r.quiet {
                    r.rep.count("model-mismatch-not-recorded");
                }
            }
        }
        if resync {
            // continue the history from the implementation's state
            r.d.ask(&w.schema_line);
            for l in real_tracked(r.n, &mut txn2.qs_write, &tracked) {
                r.d.ask(&format!("ent\t{l}"));
            }
        }
        // --- oracle (implementation's own outputs only)
        let mut viol: Vec<(String, String, String)> = vec![];
        let post_by_uuid: BTreeMap<u128, &Full> = post.values().map(|f| (f.uuid, f)).collect();
        // stored entries never disappear, never change uuid or parent
        for (id, a) in &pre {
            match post.get(id) {
                None => viol.push(("c50-entry-disappeared".into(), "every stored entry remains stored".into(), format!("entry {} is gone", Uuid::from_u128(a.uuid)))),
                Some(b) => {
                    if a.uuid != b.uuid {
                        viol.push(("c50-uuid-changed".into(), "uuid unchanged".into(), format!("{} -> {}", Uuid::from_u128(a.uuid), Uuid::from_u128(b.uuid))));
                    }
                    if kind == "sync" && a.parent != b.parent {
                        viol.push(("c50-sync-parent-changed".into(), "sync_parent_uuid unchanged".into(), format!("entry {}: {:?} -> {:?}", Uuid::from_u128(a.uuid), a.parent, b.parent)));
                    }
                }
            }
        }
        // coverage of the situation the yield cache turns on: a user request against a synchronised
        // entry while NO stored agreement yields anything, after some agreement did in this history
        if !r.quiet {
            match op {
                Op::Yield { attrs: Some(_), .. } if committed => ever_yielded = true,
                Op::User { target, .. } if pre_by_uuid.get(target).map(|f| f.classes.contains("sync_object") && f.live()).unwrap_or(false) => {
                    let any = pre.values().any(|f| !f.yield_auth.is_empty());
                    let own = pre_by_uuid.get(target).and_then(|f| f.parent).and_then(|p| pre_by_uuid.get(&p)).map(|f| !f.yield_auth.is_empty()).unwrap_or(false);
                    r.rep.count(match (own, any, ever_yielded) {
                        (true, _, _) => "user-on-synced:parent-yields",
                        (false, true, _) => "user-on-synced:only-other-agreement-yields",
                        (false, false, true) => "user-on-synced:nobody-yields-after-someone-did",
                        (false, false, false) => "user-on-synced:nobody-ever-yielded",
                    });
                }
                _ => {}
            }
        }
        if res.is_err() || !committed {
            if pre != post {
                let changed: Vec<String> = pre.iter().filter(|(id, a)| post.get(id) != Some(a)).map(|(_, a)| Uuid::from_u128(a.uuid).to_string()).collect();
                viol.push(("c50-refused-request-left-trace".into(), "a refused operation leaves the database unchanged".into(), format!("changed entries {changed:?}, {} new", post.len().saturating_sub(pre.len()))));
            }
        } else {
            match op {
                Op::Sync { ident, entries, .. } => {
                    let su = match ident {
                        IdentSpec::Synch(a, 2) => Some(w.p.agreements[*a as usize]),
                        _ => None,
                    };
                    match su {
                        None => viol.push(("c50-sync-accepted-from-wrong-identity".into(), "only a Synch identity with Synchronise scope may apply a sync request".into(), format!("{ident:?} accepted"))),
                        Some(su) => {
                            let yielded: BTreeSet<String> = pre_by_uuid.get(&su).map(|f| f.yield_auth.clone()).unwrap_or_default();
                            // entries deleted by this request
                            let deleted: BTreeSet<u128> = pre.iter().filter(|(id, a)| a.live() && post.get(id).map(|b| !b.live()).unwrap_or(false)).map(|(_, a)| a.uuid).collect();
                            let new_deleted: BTreeSet<u128> = post.values().filter(|b| !pre.contains_key(&b.id) && !b.live()).map(|b| b.uuid).collect();
                            let dropped: BTreeSet<u128> = deleted.union(&new_deleted).copied().collect();
                            for s in entries {
                                if let Some(f) = pre_by_uuid.get(&s.id) {
                                    if !f.live() {
                                        viol.push(("c50-masked-id-accepted".into(), "a request naming a recycled or tombstoned id is refused".into(), format!("id {} accepted", Uuid::from_u128(s.id))));
                                    }
                                }
                            }
                            let imports_in_request: BTreeSet<&str> = entries.iter().flat_map(|s| s.attrs.iter().map(|(a, _)| a.as_str())).collect();
                            for (id, a) in &pre {
                                let b = match post.get(id) {
                                    Some(b) => b,
                                    None => continue,
                                };
                                if a.parent != Some(su) {
                                    // not owned by this agreement
                                    let own_account = a.uuid == su;
                                    let ch = differs(a, b, &|k| is_derived(k) || (own_account && k == "sync_cookie"), &dropped);
                                    if !ch.is_empty() {
                                        let what = if a.parent.is_some() { "c50-sync-touched-other-agreements-entry" } else if !a.live() { "c50-sync-touched-masked-entry" } else { "c50-sync-touched-native-entry" };
                                        viol.push((what.into(), format!("agreement {} changes only entries whose sync_parent_uuid is itself", Uuid::from_u128(su)), format!("entry {} (parent {:?}) changed in {ch:?}", Uuid::from_u128(a.uuid), a.parent.map(Uuid::from_u128))));
                                    }
                                } else {
                                    if !a.live() {
                                        let ch = differs(a, b, &is_derived, &dropped);
                                        if !ch.is_empty() {
                                            viol.push(("c50-sync-touched-masked-entry".into(), "recycled entries are not touched".into(), format!("entry {} changed in {ch:?}", Uuid::from_u128(a.uuid))));
                                        }
                                        continue;
                                    }
                                    let ch = differs(a, b, &is_derived, &dropped);
                                    let recycled_now = !b.live();
                                    for k in ch {
                                        if SYNC_BOOKKEEPING.contains(&k.as_str()) {
                                            continue;
                                        }
                                        let import_target = IMPORT_TARGETS.iter().any(|(imp, tgt)| *tgt == k && imports_in_request.contains(imp));
                                        if yielded.contains(&k) {
                                            let class = if import_target { "c50-import-overrides-yielded-attribute" } else { "c50-sync-changed-yielded-attribute" };
                                            viol.push((class.into(), format!("attributes in the yield set {yielded:?} are not changed by the agreement"), format!("entry {} changed in {k}", Uuid::from_u128(a.uuid))));
                                        } else if import_target {
                                            continue;
                                        } else if !w.sync_attrs.contains(&k) {
                                            viol.push(("c50-sync-changed-unsynchronisable-attribute".into(), "only sync_allowed attributes are changed".into(), format!("entry {} changed in {k} (recycled now: {recycled_now})", Uuid::from_u128(a.uuid))));
                                        }
                                    }
                                    let added: Vec<&String> = b.classes.difference(&a.classes).collect();
                                    for c in added {
                                        if !w.sync_classes.contains(c) && c != "memberof" && !(c == "recycled" && recycled_now) {
                                            viol.push(("c50-sync-added-unsynchronisable-class".into(), "only sync_allowed classes are added".into(), format!("entry {} gained class {c}", Uuid::from_u128(a.uuid))));
                                        }
                                    }
                                    let removed: Vec<&String> = a.classes.difference(&b.classes).filter(|c| c.as_str() != "memberof").collect();
                                    if !removed.is_empty() {
                                        viol.push(("c50-sync-removed-class".into(), "classes are only added".into(), format!("entry {} lost {removed:?}", Uuid::from_u128(a.uuid))));
                                    }
                                }
                            }
                            for b in post.values() {
                                if pre.contains_key(&b.id) {
                                    continue;
                                }
                                if b.uuid < RESERVED_BOUND {
                                    viol.push(("D4:sync-stub-in-reserved-range".into(), "no entry is created below 00000000-0000-0000-0001-000000000000".into(), format!("new entry {}", Uuid::from_u128(b.uuid))));
                                }
                                if b.parent != Some(su) || !b.classes.contains("sync_object") {
                                    viol.push(("c50-created-entry-not-owned".into(), "a created entry is a sync_object of this agreement".into(), format!("new entry {} parent {:?} classes {:?}", Uuid::from_u128(b.uuid), b.parent, b.classes)));
                                }
                                if pre_by_uuid.contains_key(&b.uuid) {
                                    viol.push(("c50-created-duplicate-uuid".into(), "a created entry has a fresh uuid".into(), format!("uuid {} stored twice", Uuid::from_u128(b.uuid))));
                                }
                                for c in &b.classes {
                                    if !w.sync_classes.contains(c) && !["object", "sync_object", "memberof", "recycled"].contains(&c.as_str()) {
                                        viol.push(("c50-sync-added-unsynchronisable-class".into(), "only sync_allowed classes are added".into(), format!("new entry {} has class {c}", Uuid::from_u128(b.uuid))));
                                    }
                                }
                                for k in b.attrs.keys() {
                                    if is_derived(k) || SYNC_BOOKKEEPING.contains(&k.as_str()) || k == "uuid" || k == "sync_parent_uuid" {
                                        continue;
                                    }
                                    let import_target = IMPORT_TARGETS.iter().any(|(imp, tgt)| tgt == k && imports_in_request.contains(imp));
                                    if yielded.contains(k) {
                                        let class = if import_target { "c50-import-overrides-yielded-attribute" } else { "c50-sync-changed-yielded-attribute" };
                                        viol.push((class.into(), format!("attributes in the yield set {yielded:?} are not set by the agreement"), format!("new entry {} has {k}", Uuid::from_u128(b.uuid))));
                                    } else if !import_target && !w.sync_attrs.contains(k) {
                                        viol.push(("c50-sync-changed-unsynchronisable-attribute".into(), "only sync_allowed attributes are set".into(), format!("new entry {} has {k}", Uuid::from_u128(b.uuid))));
                                    }
                                }
                            }
                        }
                    }
                }
                Op::User { ident, target, .. } => {
                    if !matches!(ident, IdentSpec::User(1)) {
                        viol.push(("c50-readonly-user-wrote".into(), "a read-only session does not write".into(), format!("{ident:?} accepted")));
                    }
                    if let (Some(a), Some(b)) = (pre_by_uuid.get(target), post_by_uuid.get(target)) {
                        if a.classes.contains("sync_object") {
                            let yielded: BTreeSet<String> = a.parent.and_then(|p| pre_by_uuid.get(&p)).map(|f| f.yield_auth.clone()).unwrap_or_default();
                            for k in differs(a, b, &is_derived, &BTreeSet::new()) {
                                if !yielded.contains(&k) && !SESSION_STATE.contains(&k.as_str()) {
                                    viol.push(("c50-user-changed-unyielded-attribute".into(), format!("a user changes a synchronised entry only in {yielded:?} or session / credential-reset state"), format!("entry {} changed in {k}", Uuid::from_u128(a.uuid))));
                                }
                            }
                        }
                    }
                }
                Op::Yield { .. } => {}
            }
        }
        if !r.quiet {
            r.rep.case(Some(format!("{line}")).filter(|_| nontrivial(op, &real_class, &pre_by_uuid, &w)));
        }
        if !viol.is_empty() {
            oracle_fail = true;
            for (class, expected, observed) in viol {
                r.classes.insert(class.clone());
                if r.quiet {
                    continue;
                }
                r.rep.count(&format!("oracle:{class}"));
                if r.rep.failures.iter().filter(|f| f.class == class).count() >= 2 {
                    continue;
                }
                r.rep.fail(Failure {
                    kind: "impl-vs-oracle".into(),
                    class,
                    input: json!({"replay": r.input(&done), "op": op_json(op)}),
                    expected,
                    observed: format!("{observed}; result {real_class}"),
                });
            }
            if r.stop_at_oracle {
                break;
            }
        }
    }
    Outcome { oracle_fail }
}

/// Non-triviality rule: a sync request accepted, or refused by one of the scope checks, that names
/// at least one entry or delete id; a user modification of a synchronised entry; a yield change.
fn nontrivial(op: &Op, real: &str, pre: &BTreeMap<u128, &Full>, _w: &World) -> bool {
    match op {
        Op::Sync { entries, retain, .. } => {
            let named = !entries.is_empty() || !matches!(retain, Ret::Ignore);
            named && (real == "ok" || ["accessDenied", "invalidEntryState", "modifyAssertionFailed", "invalidSyncState"].contains(&real))
        }
        Op::User { target, .. } => pre.get(target).map(|f| f.classes.contains("sync_object")).unwrap_or(false),
        Op::Yield { .. } => true,
    }
}

fn fetch(txn: &mut QueryServerWriteTransaction<'_>, u: Uuid) -> Option<Arc<Sealed>> {
    let f = Filter::new(f_eq(Attribute::Uuid, PartialValue::Uuid(u)));
    txn.internal_search(f).ok().and_then(|mut v| v.pop())
}

#[tokio::main(flavor = "multi_thread", worker_threads = 2)]
async fn main() {
    let args = Args::parse();
    let mut rep = Report::new(
        "scim-sync",
        "a sync request that names at least one entry or delete id and is accepted or refused by an identity / state / masked-id / range / class / attribute / ownership check, a user modification whose target is a synchronised entry, or a yield-authority change — distinct model request lines",
    );
    let mut d = Driver::spawn(&args.driver);
    let mut names = Names::from_driver(&mut d);
    // the generated constants agree with the property's text
    let consts = d.ask("consts");
    let base: Vec<u64> = SESSION_STATE.iter().map(|a| names.a(a)).collect();
    let imports: Vec<String> = IMPORT_TARGETS.iter().map(|(a, b)| format!("{}>{}", names.a(a), names.a(b))).collect();
    let expect_prefix = format!("dynmin={RESERVED_BOUND};base={};imports=", comma(base.iter()));
    let mut imp_sorted = imports.clone();
    imp_sorted.sort();
    let got_imports: Vec<String> = {
        let mut v: Vec<String> = consts.split(';').find_map(|p| p.strip_prefix("imports=")).unwrap_or("").split(',').map(|s| s.to_string()).collect();
        v.sort();
        v
    };
    if !consts.starts_with(&expect_prefix) || got_imports != imp_sorted || DYNAMIC_RANGE_MINIMUM_UUID.as_u128() != RESERVED_BOUND {
        rep.fail(Failure {
            kind: "impl-vs-oracle".into(),
            class: "c50-constants".into(),
            input: json!({"request": "consts"}),
            expected: format!("{expect_prefix}{}", imports.join(",")),
            observed: consts.clone(),
        });
    }

    let quick_ops = 45u64;
    let thorough_ops = 70u64;
    if let Some(path) = &args.replay {
        let txt = std::fs::read_to_string(path).expect("replay file");
        let v: J = serde_json::from_str(&txt).expect("replay json");
        let inp = v.get("input").cloned().unwrap_or(v.clone());
        let inp = inp.get("replay").cloned().unwrap_or(inp);
        let seed = inp["seed"].as_u64().expect("seed");
        let world = inp["world"].as_u64().expect("world");
        let heavy = inp["heavy"].as_bool().unwrap_or(false);
        let keep: Vec<usize> = inp["keep"].as_array().expect("keep").iter().map(|x| x.as_u64().expect("idx") as usize).collect();
        let n_ops = keep.iter().max().map(|m| *m as u64 + 1).unwrap_or(0);
        let ops = gen_history(seed, world, n_ops, heavy);
        let mut r = Run { n: &mut names, d: &mut d, rep: &mut rep, seed, world, heavy, quiet: false, model_failures: 0, stop_at_oracle: false, classes: BTreeSet::new() };
        run_history(&mut r, &ops, &keep).await;
        rep.model_requests = d.requests;
        rep.write(&args.out);
        println!("c50 replay: {} failure(s)", rep.failures.len());
        return;
    }

    let worlds = args.cases(14, 150);
    let n_ops = if args.thorough() { thorough_ops } else { quick_ops };
    let heavy = args.budget > 1;
    let mut model_failures = 0u64;
    let mut shrunk_classes: BTreeSet<String> = BTreeSet::new();
    for wi in 0..worlds {
        let ops = gen_history(args.seed, wi, n_ops, heavy);
        let keep: Vec<usize> = (0..ops.len()).collect();
        let classes = {
            let mut r = Run { n: &mut names, d: &mut d, rep: &mut rep, seed: args.seed, world: wi, heavy, quiet: false, model_failures, stop_at_oracle: false, classes: BTreeSet::new() };
            run_history(&mut r, &ops, &keep).await;
            model_failures = r.model_failures;
            r.classes.clone()
        };
        if rep.samples.len() < 4 {
            rep.sample(json!({"world": wi, "ops": ops.iter().skip(10).take(3).map(|o| format!("{o:?}")).collect::<Vec<_>>()}));
        }
        // shrink the first witness of every oracle class (at most four classes per run)
        for class in classes {
            if shrunk_classes.contains(&class) || shrunk_classes.len() >= 4 {
                continue;
            }
            shrunk_classes.insert(class.clone());
            let mut cur = keep.clone();
            let mut chunk = (cur.len() / 2).max(1);
            let mut budget = 48;
            loop {
                let mut i = 0;
                while i < cur.len() && budget > 0 {
                    let mut cand = cur.clone();
                    let end = (i + chunk).min(cand.len());
                    cand.drain(i..end);
                    budget -= 1;
                    let mut sink = Report::new("shrink", "");
                    let mut r = Run { n: &mut names, d: &mut d, rep: &mut sink, seed: args.seed, world: wi, heavy, quiet: true, model_failures: 99, stop_at_oracle: false, classes: BTreeSet::new() };
                    run_history(&mut r, &ops, &cand).await;
                    if r.classes.contains(&class) {
                        cur = cand;
                    } else {
                        i += chunk;
                    }
                }
                if chunk == 1 || budget == 0 {
                    break;
                }
                chunk = (chunk / 2).max(1);
            }
            // run the shrunk history loudly: its record replaces the long ones of this class
            let mut small = Report::new("shrunk", "");
            let mut r = Run { n: &mut names, d: &mut d, rep: &mut small, seed: args.seed, world: wi, heavy, quiet: false, model_failures: 99, stop_at_oracle: false, classes: BTreeSet::new() };
            run_history(&mut r, &ops, &cur).await;
            let mut shrunk: Vec<Failure> = small.failures.into_iter().filter(|f| f.kind == "impl-vs-oracle" && f.class == class).take(1).collect();
            if !shrunk.is_empty() {
                rep.failures.retain(|f| !(f.kind == "impl-vs-oracle" && f.class == class));
                shrunk.append(&mut rep.failures);
                rep.failures = shrunk;
            }
        }
    }
    rep.model_requests = d.requests;
    rep.write(&args.out);
    println!(
        "c50 scim-sync: {} worlds x {} ops, {} evaluations, {} distinct non-trivial, {} failure(s)",
        worlds,
        n_ops,
        rep.evaluations,
        rep.nontrivial_keys.len(),
        rep.failures.len()
    );
}
