//! C49 — accounts outside their validity window cannot authenticate anywhere. Stream `validity`.
//!
//! One real in-memory `IdmServer` (per worker thread) holds a person with every credential type
//! (primary password, POSIX password, RADIUS secret, application password, OAuth2 consent), a
//! service account with api tokens, the anonymous account, an OAuth2 client, an LDAP application
//! and a member of `idm_radius_servers`. A *case* is (surface, vf-delta, ex-delta, sub-second
//! offset): the target account's window is opened, the artefact the surface needs is produced
//! (login + recorded session, api token, authorisation code, access/refresh token, LDAP bind …),
//! then `account_valid_from = ct + vf-delta` / `account_expire = ct + ex-delta` are written and the
//! surface is tried at `ct` with every other precondition satisfied (right password, live session,
//! unexpired token, group membership).
//!
//! Channels
//!  * impl-vs-model: `try <surface> …` of `km_c49` (model = generated gate table) must give the same
//!    `ok` / `refused`, and the surfaces named by the harness must be entry points of the
//!    generated table;
//!  * impl-vs-oracle (property text only): `ct < valid_from` or `ct > expire` (nanoseconds) ⇒ the
//!    reply must be a refusal, whoever asks; a RADIUS token or POSIX token released must belong to
//!    an account inside its window.
//!  * self-check: with the window open (`-`/`-`) every surface must succeed (otherwise a refusal
//!    would prove nothing); reported as impl-vs-model (the model says `ok`).
use compact_jwt::JwsCompact;
use hlib::*;
use kanidm_proto::oauth2::{
    AccessTokenIntrospectRequest, AccessTokenRequest, AccessTokenResponse, AuthorisationRequest,
    AuthorisationRequestOidc, ClientPostAuth, GrantTypeReq, ResponseType, OAUTH2_TOKEN_TYPE_ACCESS_TOKEN,
};
use kanidm_proto::v1::{AuthIssueSession, AuthMech};
use kanidmd_lib::entry::{Entry, EntryInit, EntryNew};
use kanidmd_lib::idm::application::GenerateApplicationPasswordEvent;
use kanidmd_lib::idm::authentication::{AuthCredential, AuthState, ClientAuthInfo, ReauthRequest};
use kanidmd_lib::idm::delayed::DelayedAction;
use kanidmd_lib::idm::event::{
    AuthEvent, AuthEventStep, AuthEventStepCred, AuthEventStepInit, AuthEventStepMech, LdapApplicationAuthEvent,
    LdapAuthEvent, LdapTokenAuthEvent, RadiusAuthTokenEvent, UnixUserAuthEvent, UnixUserTokenEvent,
};
use kanidmd_lib::idm::ldap::LdapBoundToken;
use kanidmd_lib::idm::oauth2::{AuthorisationRequestContext, AuthoriseResponse};
use kanidmd_lib::idm::server::{IdmServer, IdmServerDelayed, IdmServerTransaction};
use kanidmd_lib::idm::serviceaccount::GenerateApiTokenEvent;
use kanidmd_lib::prelude::*;
use kanidmd_lib::testkit::{setup_idm_test, TestConfiguration};
use kanidmd_lib::verif_hooks::c23::ident_internal;
use kanidmd_lib::verif_hooks::c27::cred_password;
use serde_json::{json, Value as Json};
use std::collections::{BTreeMap, BTreeSet};
use std::str::FromStr;
use std::time::Duration;
use url::Url;

const NS: i128 = 1_000_000_000;
const DAY: i128 = 86_400 * NS;
/// 2052-05-23 — after any wall clock this runs under (keys are created at the real `now`).
const T0: i128 = 2_600_000_000 * NS;
const PW: &str = "eicieY7ahchaoCh0eeTa-c49";
const UPW: &str = "ohGh2ahphei0Iesh6ahv-c49-unix";
const RADIUS_SECRET: &str = "c49-radius-secret-aGh2eiPh";
const CLIENT: &str = "c49client";
const APP: &str = "c49app";
const REDIRECT: &str = "https://c49.example.com/oauth2/result";

fn dur(ns: i128) -> Duration {
    Duration::new((ns / NS) as u64, (ns % NS) as u32)
}

fn u_person() -> Uuid {
    nat_uuid(0xC49_0001)
}
fn u_service() -> Uuid {
    nat_uuid(0xC49_0002)
}
fn u_radius() -> Uuid {
    nat_uuid(0xC49_0003)
}
fn u_group() -> Uuid {
    nat_uuid(0xC49_0004)
}
fn u_client() -> Uuid {
    nat_uuid(0xC49_0005)
}
fn u_app() -> Uuid {
    nat_uuid(0xC49_0006)
}

/// Every surface the harness drives: (name, entry point of the generated table it exercises, target).
#[derive(Clone, Copy, PartialEq, Eq, Debug)]
enum Target {
    Person,
    Service,
    Anonymous,
}

const SURFACES: &[(&str, &str, Target)] = &[
    ("login", "auth", Target::Person),
    ("login_anonymous", "auth", Target::Anonymous),
    ("reauth", "reauth_init", Target::Person),
    ("unix_auth", "auth_unix", Target::Person),
    ("ldap_bind_password", "auth_ldap_password", Target::Person),
    ("ldap_bind_anonymous", "auth_ldap_anonymous", Target::Anonymous),
    ("ldap_bind_app_password", "application_auth_ldap", Target::Person),
    ("ldap_bind_uat", "token_auth_ldap", Target::Person),
    ("ldap_bind_apit", "token_auth_ldap", Target::Service),
    ("ldap_use_password_bind", "validate_ldap_session", Target::Person),
    ("ldap_use_uat_bind", "validate_ldap_session", Target::Person),
    ("ldap_use_apit_bind", "validate_ldap_session", Target::Service),
    ("ldap_use_anonymous_bind", "validate_ldap_session", Target::Anonymous),
    ("bearer_uat", "validate_client_auth_info_to_ident", Target::Person),
    ("bearer_apit", "validate_client_auth_info_to_ident", Target::Service),
    // a token issued to anonymous while its window was open, presented after the window closed
    // (anonymous has no session records: its token takes a different path through
    // `check_user_auth_token_valid` than a person's)
    ("bearer_anonymous", "validate_client_auth_info_to_ident", Target::Anonymous),
    ("ldap_bind_anonymous_uat", "token_auth_ldap", Target::Anonymous),
    ("radius_as_server", "get_radiusauthtoken", Target::Person),
    ("radius_as_self", "get_radiusauthtoken", Target::Person),
    ("unix_token_as_anonymous", "get_unixusertoken", Target::Person),
    ("unix_token_as_service", "get_unixusertoken", Target::Person),
    ("oauth2_authorise", "validate_client_auth_info_to_ident", Target::Person),
    ("oauth2_code_exchange", "oauth2_token_exchange", Target::Person),
    ("oauth2_refresh", "oauth2_token_exchange", Target::Person),
    ("oauth2_introspect", "oauth2_introspect", Target::Person),
    ("oauth2_userinfo", "oauth2_userinfo", Target::Person),
    ("oauth2_sa_exchange", "oauth2_token_exchange", Target::Service),
];

/// Window-edge offsets relative to the request instant (None = attribute absent).
const DELTAS: &[Option<i128>] = &[None, Some(-DAY), Some(-NS), Some(-1), Some(0), Some(1), Some(NS), Some(DAY)];

#[derive(Clone, Debug)]
struct Case {
    surface: String,
    vf: Option<i128>,
    ex: Option<i128>,
    sub_ns: i128,
}

impl Case {
    fn json(&self) -> Json {
        json!({"surface": self.surface, "vf_delta_ns": self.vf.map(|x| x as i64), "ex_delta_ns": self.ex.map(|x| x as i64), "sub_ns": self.sub_ns as i64})
    }
    fn from_json(v: &Json) -> Case {
        Case {
            surface: v["surface"].as_str().expect("surface").to_string(),
            vf: v["vf_delta_ns"].as_i64().map(|x| x as i128),
            ex: v["ex_delta_ns"].as_i64().map(|x| x as i128),
            sub_ns: v["sub_ns"].as_i64().unwrap_or(0) as i128,
        }
    }
    fn key(&self) -> String {
        format!("{}:{:?}:{:?}:{}", self.surface, self.vf, self.ex, self.sub_ns)
    }
}

struct World {
    idms: IdmServer,
    delayed: IdmServerDelayed,
    now: i128,
    app_pw: String,
    client_secret: String,
    radius_server_token: String,
    dirty: Vec<Uuid>,
}

fn base_entry(name: &str, uuid: Uuid, classes: &[EntryClass]) -> Entry<EntryInit, EntryNew> {
    let mut e: Entry<EntryInit, EntryNew> = Entry::new();
    e.add_ava(Attribute::Class, EntryClass::Object.to_value());
    for c in classes {
        e.add_ava(Attribute::Class, c.to_value());
    }
    e.add_ava(Attribute::Name, Value::new_iname(name));
    e.add_ava(Attribute::Uuid, Value::Uuid(uuid));
    e
}

fn cai_token(jws: &str) -> ClientAuthInfo {
    ClientAuthInfo::new(Source::Internal, None, JwsCompact::from_str(jws).ok(), None)
}
fn cai_none() -> ClientAuthInfo {
    ClientAuthInfo::new(Source::Internal, None, None, None)
}

/// What a surface answered: `ok` (authenticated / credential released / token honoured) or a refusal.
#[derive(Clone, Debug)]
struct Outcome {
    ok: bool,
    detail: String,
}
fn ok(detail: impl Into<String>) -> Outcome {
    Outcome { ok: true, detail: detail.into() }
}
fn refused(detail: impl Into<String>) -> Outcome {
    Outcome { ok: false, detail: detail.into() }
}

impl World {
    async fn new() -> World {
        let (idms, delayed, _audit) = setup_idm_test(TestConfiguration::default()).await;
        std::mem::forget(_audit);
        let t = T0 - DAY;
        let mut pw = idms.proxy_write(dur(t)).await.unwrap();
        let mut person = base_entry("c49person", u_person(), &[EntryClass::Account, EntryClass::Person, EntryClass::PosixAccount]);
        person.add_ava(Attribute::Description, Value::new_utf8s("c49person"));
        person.add_ava(Attribute::DisplayName, Value::new_utf8s("c49person"));
        person.add_ava(Attribute::PrimaryCredential, Value::new_credential("primary", cred_password(PW, false).unwrap()));
        person.add_ava(Attribute::UnixPassword, Value::new_credential("unix", cred_password(UPW, false).unwrap()));
        person.add_ava(Attribute::RadiusSecret, Value::new_secret_str(RADIUS_SECRET));
        let mut service = base_entry("c49service", u_service(), &[EntryClass::Account, EntryClass::ServiceAccount]);
        service.add_ava(Attribute::Description, Value::new_utf8s("c49service"));
        service.add_ava(Attribute::DisplayName, Value::new_utf8s("c49service"));
        let mut radius = base_entry("c49radius", u_radius(), &[EntryClass::Account, EntryClass::ServiceAccount]);
        radius.add_ava(Attribute::Description, Value::new_utf8s("c49radius"));
        radius.add_ava(Attribute::DisplayName, Value::new_utf8s("c49radius"));
        let mut group = base_entry("c49group", u_group(), &[EntryClass::Group]);
        group.add_ava(Attribute::Member, Value::Refer(u_person()));
        group.add_ava(Attribute::Member, Value::Refer(u_service()));
        let mut client = base_entry(CLIENT, u_client(), &[EntryClass::Account, EntryClass::OAuth2ResourceServer, EntryClass::OAuth2ResourceServerBasic]);
        client.add_ava(Attribute::DisplayName, Value::new_utf8s(CLIENT));
        client.add_ava(Attribute::OAuth2RsOriginLanding, Value::new_url_s("https://c49.example.com").unwrap());
        client.add_ava(Attribute::OAuth2RsOrigin, Value::new_url_s(REDIRECT).unwrap());
        let scopes: BTreeSet<String> = ["openid".to_string(), "profile".to_string()].into_iter().collect();
        client.add_ava(Attribute::OAuth2RsScopeMap, Value::new_oauthscopemap(u_group(), scopes).expect("scope map"));
        client.add_ava(Attribute::OAuth2AllowInsecureClientDisablePkce, Value::new_bool(true));
        let mut app = base_entry(APP, u_app(), &[EntryClass::Account, EntryClass::ServiceAccount, EntryClass::Application]);
        app.add_ava(Attribute::DisplayName, Value::new_utf8s(APP));
        app.add_ava(Attribute::LinkedGroup, Value::Refer(u_group()));
        pw.qs_write.internal_create(vec![person, service, radius, group, client, app]).expect("create fixtures");
        // the radius server identity is a member of idm_radius_servers
        let ml = ModifyList::new_append(Attribute::Member, Value::Refer(UUID_IDM_RADIUS_SERVERS));
        let _ = ml;
        pw.qs_write
            .internal_modify_uuid(UUID_IDM_RADIUS_SERVERS, &ModifyList::new_append(Attribute::Member, Value::Refer(u_radius())))
            .expect("add radius server member");
        let client_secret = pw
            .qs_write
            .internal_search_uuid(u_client())
            .expect("client entry")
            .get_ava_single_secret(Attribute::OAuth2RsBasicSecret)
            .map(str::to_string)
            .expect("client secret");
        pw.commit().expect("commit fixtures");

        let mut pw = idms.proxy_write(dur(t + NS)).await.unwrap();
        let ev = GenerateApplicationPasswordEvent { ident: ident_internal(0).unwrap(), target: u_person(), application: u_app(), label: "c49".into() };
        let (app_pw, _) = pw.generate_application_password(&ev).expect("application password");
        let ev = GenerateApiTokenEvent { ident: ident_internal(0).unwrap(), target: u_radius(), label: "radius".into(), expiry: None, read_write: false, compact: false };
        let radius_server_token = pw.service_account_generate_api_token(&ev, dur(t + NS)).expect("radius api token").to_string();
        pw.commit().expect("commit credentials");
        World { idms, delayed, now: T0, app_pw, client_secret, radius_server_token, dirty: vec![] }
    }

    fn target_uuid(t: Target) -> Uuid {
        match t {
            Target::Person => u_person(),
            Target::Service => u_service(),
            Target::Anonymous => UUID_ANONYMOUS,
        }
    }

    async fn set_window(&mut self, uuid: Uuid, vf: Option<i128>, ex: Option<i128>, t: i128) {
        let mut mods = vec![Modify::Purged(Attribute::AccountValidFrom), Modify::Purged(Attribute::AccountExpire)];
        if let Some(v) = vf {
            mods.push(Modify::Present(Attribute::AccountValidFrom, Value::new_datetime_epoch(dur(v))));
        }
        if let Some(e) = ex {
            mods.push(Modify::Present(Attribute::AccountExpire, Value::new_datetime_epoch(dur(e))));
        }
        let mut pw = self.idms.proxy_write(dur(t)).await.unwrap();
        pw.qs_write.internal_modify_uuid(uuid, &ModifyList::new_list(mods)).expect("set window");
        pw.commit().expect("commit window");
    }

    /// Apply the queued delayed actions (session records) at `t`.
    async fn apply_delayed(&mut self, t: i128) {
        loop {
            let mut buf: Vec<DelayedAction> = Vec::with_capacity(8);
            let n = tokio::select! {
                biased;
                n = self.delayed.recv_many(&mut buf) => n,
                _ = std::future::ready(()) => 0,
            };
            if n == 0 {
                break;
            }
            let mut pw = self.idms.proxy_write(dur(t)).await.unwrap();
            for da in &buf {
                let _ = pw.process_delayedaction(da, dur(t));
            }
            pw.commit().expect("commit delayed");
        }
    }

    /// Full interactive login at `t`; Ok(token) or Err(first non-progress reply).
    async fn login(&mut self, name: &str, anon: bool, t: i128) -> Result<String, String> {
        let ct = dur(t);
        let mut a = self.idms.auth().await.unwrap();
        a.expire_auth_sessions(ct).await;
        let init = AuthEvent {
            ident: None,
            step: AuthEventStep::Init(AuthEventStepInit { username: name.to_string(), issue: AuthIssueSession::Token, privileged: false }),
        };
        let r = a.auth(&init, ct, cai_none()).await.map_err(|e| format!("init-err:{e:?}"))?;
        let sid = r.sessionid;
        match r.state {
            AuthState::Choose(_) => {}
            AuthState::Denied(m) => return Err(format!("init-denied:{m}")),
            o => return Err(format!("init-unexpected:{o:?}")),
        }
        let (mech, cred) = if anon { (AuthMech::Anonymous, AuthCredential::Anonymous) } else { (AuthMech::Password, AuthCredential::Password(PW.into())) };
        let begin = AuthEvent { ident: None, step: AuthEventStep::Begin(AuthEventStepMech { sessionid: sid, mech }) };
        let r = a.auth(&begin, ct, cai_none()).await.map_err(|e| format!("begin-err:{e:?}"))?;
        match r.state {
            AuthState::Continue(_) => {}
            AuthState::Denied(m) => return Err(format!("begin-denied:{m}")),
            o => return Err(format!("begin-unexpected:{o:?}")),
        }
        let ev = AuthEvent { ident: None, step: AuthEventStep::Cred(AuthEventStepCred { sessionid: sid, cred }) };
        let r = a.auth(&ev, ct, cai_none()).await.map_err(|e| format!("cred-err:{e:?}"))?;
        let out = match r.state {
            AuthState::Success(tok, _) => Ok(tok.to_string()),
            AuthState::Denied(m) => Err(format!("cred-denied:{m}")),
            o => Err(format!("cred-unexpected:{o:?}")),
        };
        let _ = a.commit();
        out
    }

    /// Login as the person with the window open at `t` and record the session.
    async fn person_session(&mut self, t: i128) -> String {
        let tok = self.login("c49person", false, t).await.unwrap_or_else(|e| panic!("preparation login failed: {e}"));
        self.apply_delayed(t).await;
        tok
    }

    /// Login as anonymous with the window open at `t` (anonymous sessions are not recorded).
    async fn anonymous_session(&mut self, t: i128) -> String {
        let tok = self.login("anonymous", true, t).await.unwrap_or_else(|e| panic!("preparation anonymous login failed: {e}"));
        self.apply_delayed(t).await;
        tok
    }

    async fn service_token(&mut self, t: i128) -> String {
        let ev = GenerateApiTokenEvent { ident: ident_internal(0).unwrap(), target: u_service(), label: format!("t{t}"), expiry: None, read_write: false, compact: false };
        let mut pw = self.idms.proxy_write(dur(t)).await.unwrap();
        let tok = pw.service_account_generate_api_token(&ev, dur(t)).expect("api token").to_string();
        pw.commit().expect("commit api token");
        tok
    }

    async fn identity(&mut self, jws: &str, t: i128) -> Result<Identity, String> {
        let mut r = self.idms.proxy_read().await.unwrap();
        r.validate_client_auth_info_to_ident(cai_token(jws), dur(t)).map_err(|e| format!("ident-err:{e:?}"))
    }

    fn auth_request() -> AuthorisationRequest {
        AuthorisationRequest {
            response_type: ResponseType::Code,
            response_mode: None,
            client_id: CLIENT.to_string(),
            state: Some("c49".to_string()),
            pkce_request: None,
            redirect_uri: Url::parse(REDIRECT).unwrap(),
            scope: ["openid".to_string()].into_iter().collect(),
            nonce: Some("n".to_string()),
            oidc_ext: AuthorisationRequestOidc::default(),
            max_age: None,
            prompt: Default::default(),
            ui_locales: Default::default(),
            unknown_keys: Default::default(),
        }
    }

    /// authorise (+ permit when consent is asked) as `ident` at `t` → authorisation code.
    async fn authorise(&mut self, ident: &Identity, t: i128) -> Result<String, String> {
        let res = {
            let r = self.idms.proxy_read().await.unwrap();
            r.check_oauth2_authorisation(Some(ident), &Self::auth_request(), &AuthorisationRequestContext::default(), dur(t))
        };
        match res {
            Err(e) => Err(format!("authorise-err:{e:?}")),
            Ok(AuthoriseResponse::Permitted(p)) => Ok(p.code),
            Ok(AuthoriseResponse::ConsentRequested { consent_token, .. }) => {
                let mut pw = self.idms.proxy_write(dur(t)).await.unwrap();
                match pw.check_oauth2_authorise_permit(ident, &consent_token, dur(t)) {
                    Ok(p) => {
                        pw.commit().expect("commit permit");
                        Ok(p.code)
                    }
                    Err(e) => Err(format!("permit-err:{e:?}")),
                }
            }
            Ok(AuthoriseResponse::AuthenticationRequired { .. }) => Err("authentication-required".into()),
            Ok(AuthoriseResponse::ReauthenticationRequired { .. }) => Err("reauthentication-required".into()),
        }
    }

    async fn token_request(&mut self, grant: GrantTypeReq, with_secret: bool, t: i128) -> Result<AccessTokenResponse, String> {
        let req = AccessTokenRequest {
            grant_type: grant,
            client_post_auth: ClientPostAuth { client_id: Some(CLIENT.to_string()), client_secret: with_secret.then(|| self.client_secret.clone()) },
        };
        let mut pw = self.idms.proxy_write(dur(t)).await.unwrap();
        match pw.check_oauth2_token_exchange(&cai_none(), &req, dur(t)) {
            Ok(r) => {
                pw.commit().expect("commit token exchange");
                Ok(r)
            }
            Err(e) => Err(format!("token-err:{e:?}")),
        }
    }

    /// Code → tokens at `t` (window open), for the surfaces that need an access / refresh token.
    async fn oauth2_tokens(&mut self, t: i128) -> AccessTokenResponse {
        let tok = self.person_session(t).await;
        let ident = self.identity(&tok, t).await.expect("preparation identity");
        let code = self.authorise(&ident, t).await.expect("preparation authorise");
        self.token_request(GrantTypeReq::AuthorizationCode { code, redirect_uri: Url::parse(REDIRECT).unwrap(), code_verifier: None }, true, t)
            .await
            .expect("preparation code exchange")
    }

    async fn ldap_bind(&mut self, kind: &str, tok: &str, t: i128) -> Result<Option<LdapBoundToken>, String> {
        let mut a = self.idms.auth().await.unwrap();
        let r = match kind {
            "password" => a.auth_ldap(&LdapAuthEvent { target: u_person(), cleartext: UPW.to_string() }, dur(t)).await,
            "anonymous" => a.auth_ldap(&LdapAuthEvent { target: UUID_ANONYMOUS, cleartext: String::new() }, dur(t)).await,
            "app" => a.application_auth_ldap(&LdapApplicationAuthEvent { application: APP.to_string(), target: u_person(), cleartext: self.app_pw.clone() }, dur(t)).await,
            "token" => match JwsCompact::from_str(tok) {
                Ok(j) => a.token_auth_ldap(&LdapTokenAuthEvent { token: j }, dur(t)).await,
                Err(_) => return Err("unparsable token".into()),
            },
            o => panic!("bad bind kind {o}"),
        };
        let _ = a.commit();
        r.map_err(|e| format!("bind-err:{e:?}"))
    }

    async fn ldap_use(&mut self, b: &LdapBoundToken, t: i128) -> Outcome {
        let mut r = self.idms.proxy_read().await.unwrap();
        match r.validate_ldap_session(&b.effective_session, Source::Internal, dur(t)) {
            Ok(id) => ok(format!("identity {}", id.get_uuid())),
            Err(e) => refused(format!("session-err:{e:?}")),
        }
    }

    /// What the asking identity may read of the target's two validity attributes (for the model's
    /// `Acl`; the decision must not depend on it).
    async fn acl_bits(&mut self, ident: &Identity, target: Uuid) -> (bool, bool) {
        let mut r = self.idms.proxy_read().await.unwrap();
        let stored = r.qs_read.internal_search_uuid(target).expect("stored entry");
        match r.qs_read.impersonate_search_ext_uuid(target, ident) {
            Ok(e) => (
                stored.get_ava_single_datetime(Attribute::AccountValidFrom).is_none() || e.get_ava_single_datetime(Attribute::AccountValidFrom).is_some(),
                stored.get_ava_single_datetime(Attribute::AccountExpire).is_none() || e.get_ava_single_datetime(Attribute::AccountExpire).is_some(),
            ),
            Err(_) => (false, false),
        }
    }

    /// Run one case; returns (outcome, acl bits of the asking identity, absolute window, ct).
    async fn run(&mut self, c: &Case) -> (Outcome, (bool, bool), Option<i128>, Option<i128>, i128) {
        let (_, _, target) = *SURFACES.iter().find(|s| s.0 == c.surface).unwrap_or_else(|| panic!("unknown surface {}", c.surface));
        let tu = Self::target_uuid(target);
        let t_prep = self.now;
        self.now += 3600 * NS;
        let ct = t_prep + 40 * NS + c.sub_ns;
        let vf = c.vf.map(|d| ct + d);
        let ex = c.ex.map(|d| ct + d);
        // every window open again
        let dirty: Vec<Uuid> = self.dirty.drain(..).collect();
        for u in dirty {
            self.set_window(u, None, None, t_prep - 2 * NS).await;
        }
        let t_set = t_prep + NS;
        self.dirty.push(tu);
        let mut acl = (true, true);
        let s = c.surface.as_str();
        let out: Outcome = match s {
            "login" | "login_anonymous" => {
                self.set_window(tu, vf, ex, t_set).await;
                let anon = s == "login_anonymous";
                match self.login(if anon { "anonymous" } else { "c49person" }, anon, ct).await {
                    Ok(_) => {
                        self.apply_delayed(ct).await;
                        ok("success")
                    }
                    Err(e) => refused(e),
                }
            }
            "reauth" => {
                let tok = self.person_session(t_prep).await;
                self.set_window(tu, vf, ex, t_set).await;
                // the identity as the request handler builds it from the stored entry; taken at an
                // instant inside the window (the token itself is good for a day) so that the test of
                // `reauth_init` itself is reached
                let ct_in = vf.or(ex).unwrap_or(ct);
                match self.identity(&tok, ct_in).await {
                    Err(e) => Outcome { ok: false, detail: format!("not-applicable:{e}") },
                    Ok(ident) => {
                        let mut a = self.idms.auth().await.unwrap();
                        a.expire_auth_sessions(dur(ct)).await;
                        let r = a.reauth_init(ident, AuthIssueSession::Token, dur(ct), cai_token(&tok), ReauthRequest::default()).await;
                        let _ = a.commit();
                        match r {
                            Ok(ar) => match ar.state {
                                AuthState::Continue(_) => ok("continue"),
                                AuthState::Denied(m) => refused(format!("denied:{m}")),
                                o => refused(format!("unexpected:{o:?}")),
                            },
                            Err(e) => refused(format!("err:{e:?}")),
                        }
                    }
                }
            }
            "unix_auth" => {
                self.set_window(tu, vf, ex, t_set).await;
                let mut a = self.idms.auth().await.unwrap();
                let ev = UnixUserAuthEvent { ident: ident_internal(0).unwrap(), target: tu, cleartext: UPW.to_string() };
                let r = a.auth_unix(&ev, dur(ct)).await;
                let _ = a.commit();
                match r {
                    Ok(Some(t)) => {
                        if t.valid {
                            ok("token")
                        } else {
                            ok("token valid=false")
                        }
                    }
                    Ok(None) => refused("none"),
                    Err(e) => refused(format!("err:{e:?}")),
                }
            }
            "ldap_bind_password" | "ldap_bind_anonymous" | "ldap_bind_app_password" => {
                self.set_window(tu, vf, ex, t_set).await;
                let kind = match s {
                    "ldap_bind_password" => "password",
                    "ldap_bind_anonymous" => "anonymous",
                    _ => "app",
                };
                match self.ldap_bind(kind, "", ct).await {
                    Ok(Some(_)) => ok("bound"),
                    Ok(None) => refused("none"),
                    Err(e) => refused(e),
                }
            }
            "ldap_bind_uat" | "ldap_bind_apit" | "ldap_bind_anonymous_uat" => {
                let tok = match s {
                    "ldap_bind_uat" => self.person_session(t_prep).await,
                    "ldap_bind_anonymous_uat" => self.anonymous_session(t_prep).await,
                    _ => self.service_token(t_prep).await,
                };
                self.set_window(tu, vf, ex, t_set).await;
                match self.ldap_bind("token", &tok, ct).await {
                    Ok(Some(_)) => ok("bound"),
                    Ok(None) => refused("none"),
                    Err(e) => refused(e),
                }
            }
            "ldap_use_password_bind" | "ldap_use_uat_bind" | "ldap_use_apit_bind" | "ldap_use_anonymous_bind" => {
                let b = match s {
                    "ldap_use_password_bind" => self.ldap_bind("password", "", t_prep).await,
                    "ldap_use_anonymous_bind" => self.ldap_bind("anonymous", "", t_prep).await,
                    "ldap_use_uat_bind" => {
                        let tok = self.person_session(t_prep).await;
                        self.ldap_bind("token", &tok, t_prep).await
                    }
                    _ => {
                        let tok = self.service_token(t_prep).await;
                        self.ldap_bind("token", &tok, t_prep).await
                    }
                };
                let b = b.expect("preparation bind").expect("preparation bind refused");
                self.set_window(tu, vf, ex, t_set).await;
                self.ldap_use(&b, ct).await
            }
            "bearer_uat" | "bearer_apit" | "bearer_anonymous" => {
                let tok = match s {
                    "bearer_uat" => self.person_session(t_prep).await,
                    "bearer_anonymous" => self.anonymous_session(t_prep).await,
                    _ => self.service_token(t_prep).await,
                };
                self.set_window(tu, vf, ex, t_set).await;
                match self.identity(&tok, ct).await {
                    Ok(id) => ok(format!("identity {}", id.get_uuid())),
                    Err(e) => refused(e),
                }
            }
            "radius_as_server" | "radius_as_self" => {
                let self_tok = if s == "radius_as_self" { Some(self.person_session(t_prep).await) } else { None };
                self.set_window(tu, vf, ex, t_set).await;
                let asker = match &self_tok {
                    Some(t) => self.identity(t, ct).await,
                    None => {
                        let t = self.radius_server_token.clone();
                        self.identity(&t, ct).await
                    }
                };
                match asker {
                    Err(e) => refused(format!("asker:{e}")),
                    Ok(ident) => {
                        acl = self.acl_bits(&ident, tu).await;
                        let mut r = self.idms.proxy_read().await.unwrap();
                        match r.get_radiusauthtoken(&RadiusAuthTokenEvent { ident, target: tu }, dur(ct)) {
                            Ok(t) if t.secret == RADIUS_SECRET => ok("secret"),
                            Ok(_) => ok("token without the secret?"),
                            Err(e) => refused(format!("err:{e:?}")),
                        }
                    }
                }
            }
            "unix_token_as_anonymous" | "unix_token_as_service" => {
                self.set_window(tu, vf, ex, t_set).await;
                let asker = if s == "unix_token_as_anonymous" {
                    match self.login("anonymous", true, ct).await {
                        Ok(t) => self.identity(&t, ct).await,
                        Err(e) => Err(e),
                    }
                } else {
                    let t = self.radius_server_token.clone();
                    self.identity(&t, ct).await
                };
                match asker {
                    Err(e) => panic!("asking identity unavailable: {e}"),
                    Ok(ident) => {
                        acl = self.acl_bits(&ident, tu).await;
                        let mut r = self.idms.proxy_read().await.unwrap();
                        match r.get_unixusertoken(&UnixUserTokenEvent { ident, target: tu }, dur(ct)) {
                            Ok(t) if t.valid => ok("token valid=true"),
                            Ok(_) => refused("token valid=false"),
                            Err(e) => refused(format!("err:{e:?}")),
                        }
                    }
                }
            }
            "oauth2_authorise" => {
                let tok = self.person_session(t_prep).await;
                self.set_window(tu, vf, ex, t_set).await;
                match self.identity(&tok, ct).await {
                    Err(e) => refused(e),
                    Ok(ident) => match self.authorise(&ident, ct).await {
                        Ok(_) => ok("code"),
                        Err(e) => refused(e),
                    },
                }
            }
            "oauth2_code_exchange" => {
                let tok = self.person_session(t_prep).await;
                let ident = self.identity(&tok, t_prep).await.expect("preparation identity");
                let code = self.authorise(&ident, t_prep).await.expect("preparation authorise");
                self.set_window(tu, vf, ex, t_set).await;
                match self.token_request(GrantTypeReq::AuthorizationCode { code, redirect_uri: Url::parse(REDIRECT).unwrap(), code_verifier: None }, true, ct).await {
                    Ok(_) => ok("tokens"),
                    Err(e) => refused(e),
                }
            }
            "oauth2_refresh" => {
                let r = self.oauth2_tokens(t_prep).await;
                let refresh_token = r.refresh_token.expect("refresh token");
                self.set_window(tu, vf, ex, t_set).await;
                match self.token_request(GrantTypeReq::RefreshToken { refresh_token, scope: None }, true, ct).await {
                    Ok(_) => ok("tokens"),
                    Err(e) => refused(e),
                }
            }
            "oauth2_introspect" => {
                let r = self.oauth2_tokens(t_prep).await;
                self.set_window(tu, vf, ex, t_set).await;
                let req = AccessTokenIntrospectRequest { token: r.access_token, token_type_hint: None, client_post_auth: ClientPostAuth::default() };
                let mut rd = self.idms.proxy_read().await.unwrap();
                match rd.check_oauth2_token_introspect(&req, dur(ct)) {
                    Ok(x) if x.active => ok("active"),
                    Ok(_) => refused("inactive"),
                    Err(e) => refused(format!("err:{e:?}")),
                }
            }
            "oauth2_userinfo" => {
                let r = self.oauth2_tokens(t_prep).await;
                self.set_window(tu, vf, ex, t_set).await;
                let at = JwsCompact::from_str(&r.access_token).expect("access token is a jws");
                let mut rd = self.idms.proxy_read().await.unwrap();
                match rd.oauth2_openid_userinfo(CLIENT, &at, dur(ct)) {
                    Ok(_) => ok("claims"),
                    Err(e) => refused(format!("err:{e:?}")),
                }
            }
            "oauth2_sa_exchange" => {
                let tok = self.service_token(t_prep).await;
                self.set_window(tu, vf, ex, t_set).await;
                let grant = GrantTypeReq::TokenExchange {
                    subject_token: tok,
                    subject_token_type: OAUTH2_TOKEN_TYPE_ACCESS_TOKEN.to_string(),
                    requested_token_type: None,
                    audience: Some(CLIENT.to_string()),
                    resource: None,
                    actor_token: None,
                    actor_token_type: None,
                    scope: Some(["openid".to_string()].into_iter().collect()),
                };
                match self.token_request(grant, false, ct).await {
                    Ok(_) => ok("tokens"),
                    Err(e) => refused(e),
                }
            }
            o => panic!("unknown surface {o}"),
        };
        (out, acl, vf, ex, ct)
    }
}

fn opt(x: Option<i128>) -> String {
    x.map(|v| v.to_string()).unwrap_or("-".into())
}

/// The property, from its statement: valid-from not arrived, or expiry passed.
fn outside(vf: Option<i128>, ex: Option<i128>, ct: i128) -> bool {
    vf.map(|v| ct < v).unwrap_or(false) || ex.map(|e| e < ct).unwrap_or(false)
}

fn classify(surface: &str) -> String {
    match surface {
        "ldap_bind_uat" | "ldap_bind_apit" => "C49:ldap-token-bind-skips-validity".into(),
        _ => "unclassified".into(),
    }
}

struct Checked {
    failures: Vec<Failure>,
    line: String,
    reply: String,
    out: Outcome,
    outside: bool,
}

async fn check_case(w: &mut World, drv: &mut Driver, entry_points: &BTreeSet<String>, c: &Case) -> Checked {
    let (out, acl, vf, ex, ct) = w.run(c).await;
    let (_, entry, _) = *SURFACES.iter().find(|s| s.0 == c.surface).unwrap();
    let mut failures = vec![];
    let na = out.detail.starts_with("not-applicable");
    let line = format!("try {entry} {} {} {} {} {ct} 1", acl.0 as u8, acl.1 as u8, opt(vf), opt(ex));
    let reply = drv.ask(&line);
    let imp = if out.ok { "ok" } else { "refused" };
    let is_out = outside(vf, ex, ct);
    if !entry_points.contains(entry) {
        failures.push(Failure {
            kind: "impl-vs-model".into(),
            class: "unclassified".into(),
            input: c.json(),
            expected: format!("`{entry}` is an entry point of the generated surface table"),
            observed: "absent".into(),
        });
    }
    if !na && reply != imp {
        failures.push(Failure {
            kind: "impl-vs-model".into(),
            class: "unclassified".into(),
            input: c.json(),
            expected: format!("{reply} ({line})"),
            observed: format!("{imp} ({})", out.detail),
        });
    }
    if is_out && out.ok {
        failures.push(Failure {
            kind: "impl-vs-oracle".into(),
            class: classify(&c.surface),
            input: c.json(),
            expected: format!("refusal: surface `{}` at ct={ct} for an account with valid_from={} expire={} (outside its window)", c.surface, opt(vf), opt(ex)),
            observed: format!("accepted ({})", out.detail),
        });
    }
    Checked { failures, line, reply, out, outside: is_out }
}

fn grid(surfaces: &[&str], subs: &[i128]) -> Vec<Case> {
    let mut v = vec![];
    for s in surfaces {
        for sub in subs {
            for vf in DELTAS {
                for ex in DELTAS {
                    v.push(Case { surface: s.to_string(), vf: *vf, ex: *ex, sub_ns: *sub });
                }
            }
        }
    }
    v
}

fn main() {
    if std::env::var_os("RUST_LOG").is_none() {
        std::env::set_var("RUST_LOG", "off");
    }
    let args = Args::parse();
    let mut rep = Report::new(
        "validity",
        "one real IdmServer per worker; per case the target account's window is opened, the artefact the surface needs is produced, then \
         valid_from/expire are written at ct+delta (delta in {absent, -1 day, -1 s, -1 ns, 0, +1 ns, +1 s, +1 day} for each edge) and the surface is \
         tried at ct with every other precondition satisfied; 27 surfaces (interactive login incl. anonymous, re-auth, POSIX password, LDAP bind by \
         password / anonymous / application password / login token / anonymous login token / api token, use of each kind of LDAP bind incl. anonymous, \
         bearer login token, anonymous token and api token, \
         RADIUS token as a radius server and as the account itself, POSIX token as anonymous and as a service account, OAuth2 authorise, code exchange, \
         refresh, introspect, userinfo, service-account token exchange); non-trivial = the case has at least one window edge within 1 s of ct or lies \
         outside the window; distinct = (surface, vf delta, ex delta, sub-second offset)",
    );
    let all: Vec<&str> = SURFACES.iter().map(|s| s.0).collect();
    let mut cases: Vec<Case> = vec![];
    if let Some(path) = &args.replay {
        let v: Json = serde_json::from_str(&std::fs::read_to_string(path).unwrap()).unwrap();
        cases.push(Case::from_json(&v["input"]));
    } else {
        // regression corpus first: the witnesses of the repaired defects D3 (radius token 240 s after
        // expiry, asked by a radius server), D12 (code exchanged 10 s after expiry), D30-style instant,
        cases.push(Case { surface: "radius_as_server".into(), vf: None, ex: Some(-240 * NS), sub_ns: 0 });
        cases.push(Case { surface: "oauth2_code_exchange".into(), vf: None, ex: Some(-10 * NS), sub_ns: 0 });
        cases.push(Case { surface: "bearer_uat".into(), vf: None, ex: Some(0), sub_ns: 0 });
        // D41 (LDAP bind with a login / api token of an account outside its window)
        cases.push(Case { surface: "ldap_bind_uat".into(), vf: None, ex: Some(-DAY), sub_ns: 0 });
        cases.push(Case { surface: "ldap_bind_apit".into(), vf: Some(DAY), ex: None, sub_ns: 0 });
        // directed: an anonymous token issued inside the window, presented 39 s later when the
        // anonymous account has expired / is not yet valid (token lifetime not exhausted)
        cases.push(Case { surface: "bearer_anonymous".into(), vf: None, ex: Some(-10 * NS), sub_ns: 0 });
        cases.push(Case { surface: "bearer_anonymous".into(), vf: Some(DAY), ex: None, sub_ns: 0 });
        // exhaustive grid of edge offsets, at a whole second and at a sub-second instant
        let subs: Vec<i128> = if args.thorough() { vec![0, 1, 500_000_000, 999_999_999] } else { vec![0] };
        cases.extend(grid(&all, &subs));
        // random sub-second offsets and second-granular edges
        let n = args.cases(400, 20000);
        for i in 0..n {
            let mut r = Rng::for_case(args.seed, i);
            let s = all[r.below(all.len() as u64) as usize];
            let pick = |r: &mut Rng| -> Option<i128> {
                match r.below(10) {
                    0 | 1 => None,
                    2 => Some(-(r.range(1, 3 * 86_400) as i128) * NS),
                    3 => Some((r.range(1, 3 * 86_400) as i128) * NS),
                    4 => Some(-(r.range(1, 2_000_000_000) as i128)),
                    5 => Some(r.range(1, 2_000_000_000) as i128),
                    _ => DELTAS[r.range(1, DELTAS.len() as u64 - 1) as usize],
                }
            };
            let vf = pick(&mut r);
            let ex = pick(&mut r);
            cases.push(Case { surface: s.to_string(), vf, ex, sub_ns: r.below(1_000_000_000) as i128 });
        }
    }

    let threads = if args.replay.is_some() { 1 } else { std::thread::available_parallelism().map(|n| n.get()).unwrap_or(4).clamp(2, 8) };
    let chunks: Vec<Vec<Case>> = (0..threads).map(|k| cases.iter().skip(k).step_by(threads).cloned().collect()).collect();
    let driver = args.driver.clone();
    let results: Vec<(Vec<(Case, Checked)>, u64)> = std::thread::scope(|sc| {
        let hs: Vec<_> = chunks
            .into_iter()
            .map(|chunk| {
                let driver = driver.clone();
                sc.spawn(move || {
                    let rt = tokio::runtime::Builder::new_current_thread().enable_all().build().unwrap();
                    let mut drv = Driver::spawn(&driver);
                    let eps: BTreeSet<String> = drv.ask("surfaces").split(',').map(|s| s.to_string()).collect();
                    let out = rt.block_on(async {
                        let mut w = World::new().await;
                        let mut out = vec![];
                        for (i, c) in chunk.into_iter().enumerate() {
                            // a fresh server every 250 cases: the fixture entries accumulate one session /
                            // api token per case
                            if i % 250 == 249 {
                                w = World::new().await;
                            }
                            let ch = check_case(&mut w, &mut drv, &eps, &c).await;
                            out.push((c, ch));
                        }
                        out
                    });
                    (out, drv.requests)
                })
            })
            .collect();
        hs.into_iter().map(|h| h.join().expect("worker")).collect()
    });

    let mut seen: BTreeMap<(String, String, String), usize> = BTreeMap::new();
    let mut model_requests = 0;
    // simplest witnesses first (fewest window attributes, then the largest distance from the edge),
    // so that the failure reported for a (kind, class, surface) is the easiest one to read
    let mut flat: Vec<(Case, Checked)> = vec![];
    for (list, reqs) in results {
        model_requests += reqs;
        flat.extend(list);
    }
    flat.sort_by_key(|(c, _)| {
        let n = c.vf.is_some() as i128 + c.ex.is_some() as i128;
        let far = c.vf.map(|d| d.abs()).unwrap_or(0).max(c.ex.map(|d| d.abs()).unwrap_or(0));
        (n, -far, c.sub_ns, c.surface.clone())
    });
    {
        let list = flat;
        for (c, ch) in list {
            let near = |d: Option<i128>| d.map(|x| x.abs() <= NS).unwrap_or(false);
            let nontrivial = near(c.vf) || near(c.ex) || ch.outside;
            rep.case(if nontrivial { Some(c.key()) } else { None });
            rep.count(&format!("surface:{}", c.surface));
            rep.count(if ch.out.ok { "reply:ok" } else { "reply:refused" });
            rep.count(if ch.outside { "window:outside" } else { "window:inside" });
            if ch.outside && !ch.out.ok {
                rep.count("outside-and-refused");
            }
            if c.ex == Some(0) && ch.out.ok {
                rep.count("observation:accepted-at-the-expiry-instant");
            }
            if ch.out.detail.starts_with("not-applicable") {
                rep.count("reauth:not-applicable(empty window)");
            }
            if rep.evaluations % 397 == 5 {
                rep.sample(json!({"case": c.json(), "model_line": ch.line, "model": ch.reply, "impl": if ch.out.ok { "ok" } else { "refused" }, "detail": ch.out.detail}));
            }
            for f in ch.failures {
                rep.count(&format!("failure:{}:{}", f.kind, f.class));
                let k = (f.kind.clone(), f.class.clone(), c.surface.clone());
                let n = seen.entry(k).or_insert(0);
                *n += 1;
                // the first failure of each (kind, class, surface) is reported; repeats are counted
                if *n == 1 {
                    rep.fail(f);
                }
            }
        }
    }
    rep.model_requests = model_requests;
    rep.write(&args.out);
    println!("c49: {} cases, {} failures", rep.evaluations, rep.failures.len());
}
