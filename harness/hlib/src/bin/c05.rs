//! C05 — a crash at any point recovers to the before or after state: real crash injection.
//!
//! The binary re-executes itself as a child (`--child 1 …`): the child opens a copy of a
//! file-backed database with a real `Backend` + `QueryServer` (+ `initialise_helper`), arms the
//! storage-call counter (`verif_hooks::c05`, call sites in `be/idl_sqlite.rs`: before/after
//! `BEGIN EXCLUSIVE`, every `get_conn()` of the write transaction, before/after `COMMIT`),
//! performs ONE write transaction of a given kind and is killed by `std::process::abort()` when
//! the counter reaches N — no destructor, no ROLLBACK, no cache publication runs.  The parent
//! then
//!   1. dumps every table of the SQLite file through a connection of its own (raw dump),
//!   2. restarts a server on the file (`Backend::new` → `QueryServer::new` at a clock far BELOW
//!      everything committed → first write transaction's cid → `initialise_helper` → `verify()`
//!      → dump of all entries incl. recycled/tombstones),
//! and compares with the same observations on the database as it was before the transaction
//! (child that opens and exits) and after a clean run of the same transaction.
//!
//! ORACLE (property text only): the raw dump equals the before-dump or the after-dump (never a
//! mix); the restarted server's `verify()` is empty; the entries it serves are those of that
//! side; the first cid it issues is greater than every cid found in that state (entries'
//! last-modified cids, `db_op_ts`).
//! CORRESPONDENCE: the recorded trace of storage calls (kind + source line of the caller in
//! idl_sqlite.rs) goes to the Lean model (`km_c05`), which resolves lines to functions with the
//! regenerated span table, replays the calls with the regenerated per-function table effects
//! under the SQLite-atomic-commit semantics and answers, for every N, `before` / `after`, plus
//! the set of tables the transaction may change; both are compared with what was observed.
//!
//! Deterministic: the crash point is a call count, never a time.  quick = `create` | `modify` |
//! `delete` + `purge` (by seed) × every N; thorough (and any run with `--budget` > 1)
//! = all seven kinds; a kind with more storage calls than the cap (`schema`, `reindex`, `init`:
//! 5-9 k) is sampled: first 40, last 40 (around the COMMIT) and an even stride whose offset rotates
//! with the seed (`--cap 100000` = every N).
use hlib::*;
use kanidm_proto::internal::FsType;
use kanidmd_lib::be::{Backend, BackendConfig};
use kanidmd_lib::entry::{Entry, EntryInit, EntryNew, EntrySealedCommitted};
use kanidmd_lib::filter::{f_eq, f_or, f_pres};
use kanidmd_lib::modify::{Modify, ModifyList};
use kanidmd_lib::prelude::*;
use kanidmd_lib::schema::{Schema, SchemaAttribute};
use kanidmd_lib::value::SyntaxType;
use kanidmd_lib::verif_hooks::c05 as hook;
use serde_json::{json, Value as J};
use std::collections::{BTreeMap, BTreeSet};
use std::path::{Path, PathBuf};
use std::sync::atomic::{AtomicUsize, Ordering};
use std::sync::{Arc, Mutex};

const S: u64 = 1_000_000_000;
const DAY: u64 = 86_400 * S;
/// Clock origin (write() refuses clocks below CHANGELOG_MAX_AGE).
const T0: u64 = 2_000_000 * S;
/// Clock of the transaction that is crashed.
const TX: u64 = T0 + 18 * DAY;
/// Clock at which the child starts its server (its startup transactions commit before arming).
const T_OPEN: u64 = TX - S;
/// Clock of the restart after the crash: far below everything committed.
const T_RESTART: u64 = T0 + 5 * S;

const KINDS: &[&str] = &["create", "modify", "delete", "purge", "schema", "reindex", "init"];

fn uu(n: u128) -> Uuid {
    Uuid::from_u128(0xc05c05c0_0000_4000_8000_000000000000 + n)
}
fn dur(ns: u64) -> Duration {
    Duration::from_nanos(ns)
}

struct Srv {
    rt: tokio::runtime::Runtime,
    qs: QueryServer,
}

fn open_backend(path: &Path) -> Result<(Backend, Schema), String> {
    let schema = Schema::new().map_err(|e| format!("schema:{e:?}"))?;
    let idxmeta = {
        let s = schema.write();
        s.reload_idxmeta()
    };
    let be = Backend::new(BackendConfig::new(Some(path), 4, FsType::Generic, Some(2048)), idxmeta, false)
        .map_err(|e| format!("Backend::new:{e:?}"))?;
    Ok((be, schema))
}

fn open_server(path: &Path, ts: u64) -> Result<Srv, String> {
    let rt = tokio::runtime::Builder::new_current_thread().enable_all().build().map_err(|e| e.to_string())?;
    let (be, schema) = open_backend(path)?;
    let qs = QueryServer::new(be, schema, "example.com".to_string(), dur(ts)).map_err(|e| format!("QueryServer::new:{e:?}"))?;
    Ok(Srv { rt, qs })
}

fn init(s: &Srv, ts: u64) -> Result<(), String> {
    s.rt.block_on(s.qs.initialise_helper(dur(ts), DOMAIN_TGT_LEVEL)).map_err(|e| format!("initialise_helper:{e:?}"))
}

fn person(n: u128, name: &str) -> Entry<EntryInit, EntryNew> {
    let mut e: Entry<EntryInit, EntryNew> = Entry::new();
    e.add_ava(Attribute::Class, EntryClass::Object.to_value());
    e.add_ava(Attribute::Class, EntryClass::Account.to_value());
    e.add_ava(Attribute::Class, EntryClass::Person.to_value());
    e.add_ava(Attribute::Name, Value::new_iname(name));
    e.add_ava(Attribute::DisplayName, Value::new_utf8s(name));
    e.add_ava(Attribute::Uuid, Value::Uuid(uu(n)));
    e
}

fn group(n: u128, name: &str, members: &[u128]) -> Entry<EntryInit, EntryNew> {
    let mut e: Entry<EntryInit, EntryNew> = Entry::new();
    e.add_ava(Attribute::Class, EntryClass::Object.to_value());
    e.add_ava(Attribute::Class, EntryClass::Group.to_value());
    e.add_ava(Attribute::Name, Value::new_iname(name));
    e.add_ava(Attribute::Uuid, Value::Uuid(uu(n)));
    for m in members {
        e.add_ava(Attribute::Member, Value::Refer(uu(*m)));
    }
    e
}

fn by_uuid(ns: &[u128]) -> Filter<FilterInvalid> {
    Filter::new_ignore_hidden(f_or(ns.iter().map(|n| f_eq(Attribute::Uuid, PartialValue::Uuid(uu(*n)))).collect()))
}

fn txn<R>(s: &Srv, ts: u64, f: impl FnOnce(&mut QueryServerWriteTransaction<'_>) -> Result<R, OperationError>) -> Result<R, String> {
    let mut w = s.rt.block_on(s.qs.write(dur(ts))).map_err(|e| format!("write:{e:?}"))?;
    let r = f(&mut w).map_err(|e| format!("op:{e:?}"))?;
    w.commit().map_err(|e| format!("commit:{e:?}"))?;
    Ok(r)
}

/// The database every non-`init` kind starts from: a bootstrapped server with persons 1-4, groups
/// 10 (members 1,2) and 11, person 3 a tombstone of age 9 d, person 4 recycled at 9 d.
fn build_base(path: &Path) -> Result<(), String> {
    let s = open_server(path, T0)?;
    init(&s, T0)?;
    txn(&s, T0 + S, |w| {
        w.internal_create(vec![
            person(1, "c05p1"),
            person(2, "c05p2"),
            person(3, "c05p3"),
            person(4, "c05p4"),
            group(10, "c05g10", &[1, 2]),
            group(11, "c05g11", &[]),
        ])
    })?;
    txn(&s, T0 + 2 * S, |w| w.internal_delete(&by_uuid(&[3])))?;
    txn(&s, T0 + 9 * DAY, |w| w.purge_recycled().map(|_| ()))?;
    txn(&s, T0 + 9 * DAY + S, |w| w.internal_delete(&by_uuid(&[4])))?;
    drop(s);
    Ok(())
}

/// The database kind `init` starts from: created, server and domain uuid persisted, nothing else.
fn build_empty(path: &Path) -> Result<(), String> {
    let s = open_server(path, T0)?;
    drop(s);
    Ok(())
}

/// The one write transaction that is crashed.
fn run_kind(s: &Srv, kind: &str) -> Result<(), String> {
    match kind {
        "none" => Ok(()),
        "init" => init(s, TX),
        "create" => txn(s, TX, |w| w.internal_create(vec![person(5, "c05p5"), group(12, "c05g12", &[5, 1])])),
        "modify" => txn(s, TX, |w| {
            w.internal_modify_uuid(
                uu(1),
                &ModifyList::new_list(vec![
                    Modify::Purged(Attribute::Name),
                    Modify::Present(Attribute::Name, Value::new_iname("c05p1renamed")),
                    Modify::Purged(Attribute::DisplayName),
                    Modify::Present(Attribute::DisplayName, Value::new_utf8s("renamed")),
                ]),
            )?;
            w.internal_modify_uuid(uu(11), &ModifyList::new_list(vec![Modify::Present(Attribute::Member, Value::Refer(uu(2)))]))
        }),
        "delete" => txn(s, TX, |w| w.internal_delete(&by_uuid(&[2, 11]))),
        "purge" => txn(s, TX, |w| {
            w.purge_tombstones()?;
            w.purge_recycled().map(|_| ())
        }),
        "schema" => txn(s, TX, |w| {
            let a = SchemaAttribute {
                name: Attribute::from("c05attr"),
                uuid: uu(900),
                description: "c05 probe attribute".to_string(),
                multivalue: true,
                unique: false,
                indexed: true,
                syntax: SyntaxType::Utf8StringInsensitive,
                ..Default::default()
            };
            w.internal_create(vec![a.into()])
        }),
        "reindex" => txn(s, TX, |w| w.reindex(false)),
        k => Err(format!("unknown kind {k}")),
    }
}

// ------------------------------------------------------------------------------------------
// child
// ------------------------------------------------------------------------------------------

fn child_main(a: &Args) -> ! {
    let db = PathBuf::from(a.extra.get("db").expect("--db"));
    let kind = a.extra.get("kind").expect("--kind").clone();
    let abort_at: u64 = a.extra.get("abort").map(|s| s.parse().expect("abort")).unwrap_or(0);
    let traceout = a.extra.get("traceout").cloned();
    let s = match open_server(&db, T_OPEN) {
        Ok(s) => s,
        Err(e) => {
            eprintln!("child: open failed: {e}");
            std::process::exit(3)
        }
    };
    if kind != "init" && !a.extra.contains_key("noinit") {
        if let Err(e) = init(&s, T_OPEN) {
            eprintln!("child: {e}");
            std::process::exit(3)
        }
    }
    hook::arm(abort_at);
    let r = run_kind(&s, &kind);
    let trace = hook::disarm();
    if let Some(p) = traceout {
        let j = json!({"result": match &r { Ok(()) => "ok".to_string(), Err(e) => e.clone() },
                       "trace": trace.iter().map(|(k, l)| json!([k, l])).collect::<Vec<_>>()});
        std::fs::write(p, j.to_string()).expect("traceout");
    }
    drop(s);
    std::process::exit(if r.is_ok() { 0 } else { 4 })
}

// ------------------------------------------------------------------------------------------
// parent: observations
// ------------------------------------------------------------------------------------------

type Raw = Vec<(String, String, Vec<String>)>;

#[derive(Clone, Debug, PartialEq)]
struct Obs {
    raw: Raw,
    /// (ts ns, server uuid) of the first write transaction after the restart
    next_cid: (u128, Uuid),
    verify: Vec<String>,
    entries: Vec<String>,
    /// greatest (ts ns, uuid) found on any entry served after the restart, before initialise_helper
    max_entry_cid: (u128, Uuid),
}

/// Mask the values that bootstrap draws at random (kind `init` only): private key material and
/// everything derived from it.
fn mask_random(raw: &mut Raw) {
    for (name, _sql, rows) in raw.iter_mut() {
        if name == "id2entry" {
            for r in rows.iter_mut() {
                if let Some((id, data)) = r.split_once('|') {
                    if let Ok(mut j) = serde_json::from_str::<J>(data) {
                        mask_json(&mut j);
                        *r = format!("{id}|{j}");
                    }
                }
            }
        } else if name == "keyhandles" {
            for r in rows.iter_mut() {
                if let Some((id, _)) = r.split_once('|') {
                    *r = format!("{id}|<masked>");
                }
            }
        }
    }
}

const MASKED_ATTRS: &[&str] = &["key_internal_data", "es256_private_key_der", "rs256_private_key_der", "private_cookie_key", "fernet_private_key_str", "domain_token_key", "id_verification_eckey"];

fn mask_json(j: &mut J) {
    match j {
        J::Object(m) => {
            for (k, v) in m.iter_mut() {
                if MASKED_ATTRS.contains(&k.as_str()) {
                    *v = J::String("<masked>".into());
                } else {
                    mask_json(v);
                }
            }
        }
        J::Array(a) => a.iter_mut().for_each(mask_json),
        _ => {}
    }
}

fn cid_of(e: &EntrySealedCommitted) -> Option<(u128, Uuid)> {
    e.get_ava_set(Attribute::LastModifiedCid).and_then(|vs| vs.to_cid_single()).map(|c| (c.ts.as_nanos(), c.s_uuid))
}

fn entry_line(e: &EntrySealedCommitted, mask: bool) -> String {
    let mut attrs: Vec<String> = e
        .get_ava_iter()
        .map(|(a, v)| {
            let mut vs: Vec<String> = v.to_proto_string_clone_iter().collect();
            if mask && MASKED_ATTRS.contains(&a.as_str()) {
                vs = vec!["<masked>".to_string()];
            }
            vs.sort();
            format!("{a}={vs:?}")
        })
        .collect();
    attrs.sort();
    format!("{} {}", e.get_uuid(), attrs.join(" "))
}

/// Restart on `path` and observe (the file is modified by the restart, work on a copy).
fn observe(path: &Path, mask: bool) -> Result<Obs, String> {
    let t0 = std::time::Instant::now();
    let timing = std::env::var("C05_TIMING").is_ok();
    let lap = |what: &str| {
        if timing {
            eprintln!("observe {what}: {:.3}s", t0.elapsed().as_secs_f64());
        }
    };
    let mut raw = hook::raw_dump(path)?;
    lap("raw_dump");
    if mask {
        mask_random(&mut raw);
    }
    let s = open_server(path, T_RESTART)?;
    lap("open_server");
    // first transaction after the restart: its cid (then dropped = aborted)
    let next_cid = {
        let w = s.rt.block_on(s.qs.write(dur(T_RESTART))).map_err(|e| format!("write:{e:?}"))?;
        let (ts, u) = kanidmd_lib::verif_hooks::c34::txn_cid(&w);
        (ts.as_nanos(), u)
    };
    // what the database holds, before the startup migrations touch anything
    let max_entry_cid = {
        let mut r = s.rt.block_on(s.qs.read()).map_err(|e| format!("read:{e:?}"))?;
        let all = r.internal_search(Filter::new(f_pres(Attribute::Class))).map_err(|e| format!("search:{e:?}"))?;
        all.iter().filter_map(|e| cid_of(e)).max().unwrap_or((0, Uuid::nil()))
    };
    lap("cid+search");
    init(&s, T_RESTART + S)?;
    lap("init");
    let verify: Vec<String> = s.rt.block_on(s.qs.verify()).into_iter().filter_map(|r| r.err()).map(|e| format!("{e:?}")).collect();
    let entries = {
        let mut r = s.rt.block_on(s.qs.read()).map_err(|e| format!("read:{e:?}"))?;
        let all = r.internal_search(Filter::new(f_pres(Attribute::Class))).map_err(|e| format!("search:{e:?}"))?;
        let mut v: Vec<String> = all.iter().map(|e| entry_line(e, mask)).collect();
        v.sort();
        v
    };
    lap("verify+entries");
    drop(s);
    lap("drop");
    Ok(Obs { raw, next_cid, verify, entries, max_entry_cid })
}

/// `db_op_ts` row of a raw dump in nanoseconds.
fn raw_ts_max(raw: &Raw) -> Option<u128> {
    let rows = &raw.iter().find(|(n, _, _)| n == "db_op_ts")?.2;
    let r = rows.first()?;
    let (_, data) = r.split_once('|')?;
    let j: J = serde_json::from_str(data).ok()?;
    Some(j.get("secs")?.as_u64()? as u128 * 1_000_000_000 + j.get("nanos")?.as_u64()? as u128)
}

fn differing_tables(a: &Raw, b: &Raw) -> BTreeSet<String> {
    let ma: BTreeMap<&String, (&String, &Vec<String>)> = a.iter().map(|(n, s, r)| (n, (s, r))).collect();
    let mb: BTreeMap<&String, (&String, &Vec<String>)> = b.iter().map(|(n, s, r)| (n, (s, r))).collect();
    let mut out = BTreeSet::new();
    for k in ma.keys().chain(mb.keys()) {
        if ma.get(k) != mb.get(k) {
            out.insert((*k).clone());
        }
    }
    out
}

/// Abstract table of a concrete SQLite table name, as the translator names them.
fn table_class(name: &str) -> &'static str {
    match name {
        "id2entry" => "id2entry",
        "id2entry_quarantine" => "quarantine",
        "idx_name2uuid" => "name2uuid",
        "idx_externalid2uuid" => "externalid2uuid",
        "idx_uuid2spn" => "uuid2spn",
        "idx_uuid2rdn" => "uuid2rdn",
        "ruv" => "ruv",
        "db_op_ts" => "dbOpTs",
        "db_sid" => "dbSid",
        "db_did" => "dbDid",
        "db_version" => "dbVersion",
        "idxslope_analysis" => "slope",
        "keyhandles" => "keyhandles",
        n if n.starts_with("idx_") => "idx",
        _ => "unknown",
    }
}

// ------------------------------------------------------------------------------------------
// parent: running children
// ------------------------------------------------------------------------------------------

struct Ctx {
    dir: PathBuf,
    exe: PathBuf,
    /// `--selftest split-ts | lose-ts` (never used by `./check`): harness-side sabotage of the crashed
    /// database through the public `Backend` API before it is observed, see `sabotage`.
    selftest: Option<String>,
}

/// What a broken implementation would have left behind, produced without touching /repo:
///  * `split-ts`: for a crash BEFORE the COMMIT, `ts_max` of the crashed transaction is committed in a
///    transaction of its own (as if `set_db_ts_max` ran on another connection / in a separate
///    transaction) — the oracle must report `mixed-state`;
///  * `lose-ts`: for a crash AFTER the COMMIT, `ts_max` is put back to the clock origin (as if it had
///    been persisted outside the transaction and lost) — the oracle must report `mixed-state`, and with
///    `--selftest lose-ts-cid` (raw comparison skipped) `cid-not-above-committed`.
fn sabotage(mode: &str, path: &Path, n: u64, commit_pre: u64) -> Result<(), String> {
    let ts = match mode {
        "split-ts" if n > 2 && n <= commit_pre => TX,
        "lose-ts" | "lose-ts-cid" if n > commit_pre => T0,
        _ => return Ok(()),
    };
    let (be, _schema) = open_backend(path)?;
    let mut w = be.write().map_err(|e| format!("{e:?}"))?;
    w.set_db_ts_max(dur(ts)).map_err(|e| format!("{e:?}"))?;
    w.commit().map_err(|e| format!("{e:?}"))?;
    Ok(())
}

fn copy_db(from: &Path, to: &Path) -> Result<(), String> {
    for suffix in ["", "-wal", "-shm"] {
        let _ = std::fs::remove_file(format!("{}{suffix}", to.display()));
    }
    std::fs::copy(from, to).map_err(|e| format!("copy {from:?}: {e}"))?;
    let wal = PathBuf::from(format!("{}-wal", from.display()));
    if wal.exists() {
        std::fs::copy(&wal, format!("{}-wal", to.display())).map_err(|e| format!("copy wal: {e}"))?;
    }
    Ok(())
}

fn remove_db(p: &Path) {
    for suffix in ["", "-wal", "-shm"] {
        let _ = std::fs::remove_file(format!("{}{suffix}", p.display()));
    }
}

/// Run the child on `db`; returns (how it ended, trace file content if it got that far).
fn run_child(cx: &Ctx, db: &Path, kind: &str, abort_at: u64, want_trace: bool, noinit: bool) -> Result<(String, Option<J>), String> {
    let tr = PathBuf::from(format!("{}.trace", db.display()));
    let _ = std::fs::remove_file(&tr);
    let mut cmd = std::process::Command::new(&cx.exe);
    cmd.args(["--child", "1", "--db", &db.display().to_string(), "--kind", kind, "--abort", &abort_at.to_string()]);
    if want_trace {
        cmd.args(["--traceout", &tr.display().to_string()]);
    }
    if noinit {
        cmd.args(["--noinit", "1"]);
    }
    cmd.stdout(std::process::Stdio::null());
    let out = cmd.output().map_err(|e| format!("spawn: {e}"))?;
    use std::os::unix::process::ExitStatusExt;
    let how = match (out.status.code(), out.status.signal()) {
        (Some(0), _) => "exit0".to_string(),
        (Some(c), _) => format!("exit{c}:{}", String::from_utf8_lossy(&out.stderr).chars().take(300).collect::<String>()),
        (None, Some(s)) => format!("signal{s}"),
        _ => "unknown".to_string(),
    };
    let trace = std::fs::read_to_string(&tr).ok().and_then(|s| serde_json::from_str(&s).ok());
    let _ = std::fs::remove_file(&tr);
    Ok((how, trace))
}

struct KindRef {
    kind: String,
    base: PathBuf,
    before: Obs,
    after: Obs,
    /// (point kind, source line) of every storage call of a clean run
    trace: Vec<(u32, u32)>,
}

fn trace_tokens(trace: &[(u32, u32)]) -> String {
    trace
        .iter()
        .map(|(k, l)| match *k {
            hook::BEGIN_PRE => "B".to_string(),
            hook::BEGIN_POST => "b".to_string(),
            hook::COMMIT_PRE => "C".to_string(),
            hook::COMMIT_POST => "c".to_string(),
            _ => format!("{l}"),
        })
        .collect::<Vec<_>>()
        .join(" ")
}

/// Reference observations of one kind: before (child opens and exits), after (clean run), twice
/// each — the transaction and the restart must be reproducible or nothing can be compared.
fn prepare_kind(cx: &Ctx, kind: &str, base: &Path) -> Result<KindRef, String> {
    let mask = kind == "init";
    let mut befores = vec![];
    let mut afters = vec![];
    let mut traces = vec![];
    for round in 0..2 {
        let p = cx.dir.join(format!("{kind}-ref-before{round}.db"));
        copy_db(base, &p)?;
        let (how, _) = run_child(cx, &p, "none", 0, false, mask)?;
        if how != "exit0" {
            return Err(format!("{kind}: before-child ended {how}"));
        }
        befores.push(observe(&p, mask)?);
        remove_db(&p);
        let p = cx.dir.join(format!("{kind}-ref-after{round}.db"));
        copy_db(base, &p)?;
        let (how, tr) = run_child(cx, &p, kind, 0, true, false)?;
        if how != "exit0" {
            return Err(format!("{kind}: clean child ended {how}"));
        }
        let tr = tr.ok_or("no trace")?;
        if tr["result"] != "ok" {
            return Err(format!("{kind}: clean transaction returned {}", tr["result"]));
        }
        let t: Vec<(u32, u32)> =
            tr["trace"].as_array().ok_or("trace")?.iter().map(|x| (x[0].as_u64().unwrap_or(0) as u32, x[1].as_u64().unwrap_or(0) as u32)).collect();
        traces.push(t);
        afters.push(observe(&p, mask)?);
        remove_db(&p);
    }
    if befores[0] != befores[1] {
        return Err(format!("{kind}: the before state is not reproducible: {}", obs_diff(&befores[0], &befores[1])));
    }
    if afters[0] != afters[1] {
        return Err(format!("{kind}: the after state is not reproducible: {}", obs_diff(&afters[0], &afters[1])));
    }
    // Dirty cache items are flushed in hash-map order, which differs from process to process: the
    // sequence of point KINDS (where BEGIN and COMMIT sit) and the multiset of callers must be
    // reproducible, the order of callers inside a flush need not be.
    let shape = |t: &Vec<(u32, u32)>| -> (Vec<u32>, Vec<u32>) {
        let mut lines: Vec<u32> = t.iter().map(|x| x.1).collect();
        lines.sort();
        (t.iter().map(|x| x.0).collect(), lines)
    };
    if shape(&traces[0]) != shape(&traces[1]) {
        return Err(format!("{kind}: the storage-call trace is not reproducible ({} vs {} calls)", traces[0].len(), traces[1].len()));
    }
    Ok(KindRef { kind: kind.to_string(), base: base.to_path_buf(), before: befores.remove(0), after: afters.remove(0), trace: traces.remove(0) })
}

fn obs_diff(a: &Obs, b: &Obs) -> String {
    let mut out = vec![];
    let dt = differing_tables(&a.raw, &b.raw);
    if !dt.is_empty() {
        out.push(format!("raw tables differ: {dt:?}"));
        for t in dt.iter().take(2) {
            let ra = a.raw.iter().find(|x| &x.0 == t).map(|x| x.2.clone()).unwrap_or_default();
            let rb = b.raw.iter().find(|x| &x.0 == t).map(|x| x.2.clone()).unwrap_or_default();
            let sa: BTreeSet<_> = ra.iter().collect();
            let sb: BTreeSet<_> = rb.iter().collect();
            for r in sa.symmetric_difference(&sb).take(2) {
                out.push(format!("  {t}: {}", r.chars().take(400).collect::<String>()));
            }
        }
    }
    if a.next_cid != b.next_cid {
        out.push(format!("next cid {:?} vs {:?}", a.next_cid, b.next_cid));
    }
    if a.verify != b.verify {
        out.push(format!("verify {:?} vs {:?}", a.verify, b.verify));
    }
    if a.entries != b.entries {
        let sa: BTreeSet<_> = a.entries.iter().collect();
        let sb: BTreeSet<_> = b.entries.iter().collect();
        out.push(format!("entries differ: {:?}", sa.symmetric_difference(&sb).take(2).map(|s| s.chars().take(300).collect::<String>()).collect::<Vec<_>>()));
    }
    out.join("; ")
}

/// What one crash case observed.
struct CaseOut {
    n: u64,
    how: String,
    obs: Result<Obs, String>,
}

fn run_case(cx: &Ctx, kr: &KindRef, n: u64) -> CaseOut {
    let p = cx.dir.join(format!("{}-crash-{n}.db", kr.kind));
    let r = (|| -> Result<(String, Obs), String> {
        copy_db(&kr.base, &p)?;
        let (how, _) = run_child(cx, &p, &kr.kind, n, false, false)?;
        if let Some(mode) = &cx.selftest {
            let commit_pre = kr.trace.iter().position(|(k, _)| *k == hook::COMMIT_PRE).map(|i| i as u64 + 1).unwrap_or(0);
            sabotage(mode, &p, n, commit_pre)?;
        }
        let obs = observe(&p, kr.kind == "init")?;
        Ok((how, obs))
    })();
    remove_db(&p);
    match r {
        Ok((how, obs)) => CaseOut { n, how, obs: Ok(obs) },
        Err(e) => CaseOut { n, how: "error".into(), obs: Err(e) },
    }
}

/// The oracle on one crash case; `Ok(side)` or the failure (class, expected, observed).
fn judge(kr: &KindRef, c: &CaseOut, skip_raw: bool) -> Result<&'static str, (String, String, String)> {
    let total = kr.trace.len() as u64;
    let expect_signal = c.n >= 1 && c.n <= total;
    if expect_signal && c.how != "signal6" {
        return Err(("child-not-killed".into(), "signal6".into(), c.how.clone()));
    }
    if !expect_signal && c.how != "exit0" {
        return Err(("child-failed".into(), "exit0".into(), c.how.clone()));
    }
    let obs = match &c.obs {
        Ok(o) => o,
        Err(e) => return Err(("restart-failed".into(), "the server restarts on the crashed database".into(), e.clone())),
    };
    let (side, refo) = if obs.raw == kr.before.raw {
        ("before", &kr.before)
    } else if obs.raw == kr.after.raw || (skip_raw && differing_tables(&obs.raw, &kr.after.raw).iter().all(|t| t == "db_op_ts")) {
        ("after", &kr.after)
    } else {
        let db = differing_tables(&obs.raw, &kr.before.raw);
        let da = differing_tables(&obs.raw, &kr.after.raw);
        return Err((
            "mixed-state".into(),
            "raw dump equals the before-dump or the after-dump".into(),
            format!("differs from before in {} and from after in {}", brief(&db), brief(&da)),
        ));
    };
    if !obs.verify.is_empty() {
        return Err(("verify-fails".into(), "verify() = []".into(), format!("{:?}", obs.verify.iter().take(4).collect::<Vec<_>>())));
    }
    // every cid committed in this state: the durable ts_max and the entries' own cids
    let committed_ts = raw_ts_max(&obs.raw).unwrap_or(0).max(obs.max_entry_cid.0);
    if obs.next_cid.0 <= committed_ts {
        return Err((
            "cid-not-above-committed".into(),
            format!("first cid after restart > {committed_ts}"),
            format!("{:?} (restart clock {T_RESTART})", obs.next_cid),
        ));
    }
    if obs.entries != refo.entries || obs.next_cid != refo.next_cid {
        return Err(("restart-state-differs".into(), format!("the restarted server serves the {side} state"), obs_diff(obs, refo)));
    }
    Ok(side)
}

fn brief(s: &BTreeSet<String>) -> String {
    let v: Vec<&String> = s.iter().take(8).collect();
    format!("{} tables {v:?}{}", s.len(), if s.len() > 8 { " …" } else { "" })
}

fn points_for(total: u64, cap: u64, seed: u64) -> Vec<u64> {
    // every N in 1..=total+1 (total+1 = no crash); above the cap: the first 40, the 40 around and after the
    // COMMIT (= the last calls) and an even stride whose offset rotates with the seed
    let all: Vec<u64> = (1..=total + 1).collect();
    if total + 1 <= cap {
        return all;
    }
    let mut s: BTreeSet<u64> = BTreeSet::new();
    for i in 1..=40.min(total) {
        s.insert(i);
        s.insert(total + 1 - (i - 1));
    }
    let stride = (total as f64 / cap as f64).ceil().max(1.0) as u64;
    let mut i = 1 + seed % stride;
    while i <= total {
        s.insert(i);
        i += stride;
    }
    s.into_iter().collect()
}

fn main() {
    let a = Args::parse();
    if a.extra.contains_key("child") {
        child_main(&a);
    }
    let exe = std::env::current_exe().expect("current_exe");
    let dir = PathBuf::from(format!("/tmp/C05/{}", std::process::id()));
    let _ = std::fs::remove_dir_all(&dir);
    std::fs::create_dir_all(&dir).expect("mkdir");
    let cx = Arc::new(Ctx { dir: dir.clone(), exe, selftest: a.extra.get("selftest").cloned() });
    let mut rep = Report::new(
        "crash",
        "a crash case is non-trivial when the child was killed inside the transaction (after BEGIN, N <= number of storage calls); key = kind:N",
    );
    rep.exhaustive = true;

    // --replay: a single (kind, N)
    let replay: Option<(String, u64)> = a.replay.as_ref().map(|f| {
        let j: J = serde_json::from_str(&std::fs::read_to_string(f).expect("replay file")).expect("replay json");
        let i = j.get("input").cloned().unwrap_or(j);
        (i["kind"].as_str().expect("kind").to_string(), i["n"].as_u64().expect("n"))
    });

    let kinds: Vec<String> = if let Some((k, _)) = &replay {
        vec![k.clone()]
    } else if let Some(k) = a.extra.get("kinds") {
        k.split(',').map(|s| s.to_string()).collect()
    } else if a.thorough() || a.budget > 1 {
        // search mode (a fingerprint changed / an obligation broke): every kind, also in the quick tier
        KINDS.iter().map(|s| s.to_string()).collect()
    } else {
        // the quick tier runs one group of small kinds, by seed, every N
        let rot: [&[&str]; 3] = [&["modify"], &["create"], &["delete", "purge"]];
        rot[(a.seed as usize) % rot.len()].iter().map(|s| s.to_string()).collect()
    };
    let cap: u64 = a.extra.get("cap").map(|s| s.parse().expect("cap")).unwrap_or(if a.thorough() { 200 * a.budget.clamp(1, 3) } else if a.budget > 1 { 150 } else { 400 });
    let workers: usize = a.extra.get("workers").map(|s| s.parse().expect("workers")).unwrap_or(12);

    let t_start = std::time::Instant::now();
    let base = dir.join("base.db");
    let empty = dir.join("empty.db");
    if kinds.iter().any(|k| k != "init") {
        build_base(&base).expect("build base database");
    }
    if kinds.iter().any(|k| k == "init") {
        build_empty(&empty).expect("build empty database");
    }
    rep.note(format!("base database built in {:.1}s", t_start.elapsed().as_secs_f64()));

    let mut drv = if a.driver.is_empty() { None } else { Some(Driver::spawn(&a.driver)) };
    let mut model_failures = 0u32;
    let mut oracle_failed = false;

    for kind in &kinds {
        let t_kind = std::time::Instant::now();
        let b = if kind == "init" { &empty } else { &base };
        let kr = match prepare_kind(&cx, kind, b) {
            Ok(k) => Arc::new(k),
            Err(e) => {
                rep.fail(Failure {
                    kind: "impl-vs-oracle".into(),
                    class: "reference-run-failed".into(),
                    input: json!({"kind": kind, "n": 0}),
                    expected: "a clean run of the transaction commits and is reproducible".into(),
                    observed: e,
                });
                oracle_failed = true;
                continue;
            }
        };
        let total = kr.trace.len() as u64;
        let commit_pre = kr.trace.iter().position(|(k, _)| *k == hook::COMMIT_PRE).map(|i| i as u64 + 1).unwrap_or(0);
        rep.count_n(&format!("storage_calls:{kind}"), total);
        let changed: BTreeSet<&'static str> = differing_tables(&kr.before.raw, &kr.after.raw).iter().map(|t| table_class(t)).collect();
        if kr.before.raw == kr.after.raw {
            rep.fail(Failure {
                kind: "impl-vs-oracle".into(),
                class: "transaction-without-effect".into(),
                input: json!({"kind": kind, "n": 0}),
                expected: "the representative transaction changes the database".into(),
                observed: "before == after".into(),
            });
            oracle_failed = true;
        }
        // ---- the model's view of this transaction
        let mut predicted: Option<(u64, BTreeSet<String>)> = None;
        if let Some(d) = drv.as_mut() {
            let reply = d.ask(&format!("load {}", trace_tokens(&kr.trace)));
            rep.model_requests += 1;
            // reply: `ok flip=<k> writes=<t1,t2,…>`  (crash at N <= k -> before, N > k -> after)
            let mut ok = false;
            if let Some(rest) = reply.strip_prefix("ok ") {
                let mut flip = None;
                let mut writes = BTreeSet::new();
                for tok in rest.split_whitespace() {
                    if let Some(v) = tok.strip_prefix("flip=") {
                        flip = v.parse::<u64>().ok();
                    } else if let Some(v) = tok.strip_prefix("writes=") {
                        writes = v.split(',').filter(|s| !s.is_empty()).map(|s| s.to_string()).collect();
                    }
                }
                if let Some(f) = flip {
                    ok = true;
                    predicted = Some((f, writes));
                }
            }
            if !ok {
                model_failures += 1;
                rep.fail(Failure {
                    kind: "impl-vs-model".into(),
                    class: "trace-rejected".into(),
                    input: json!({"kind": kind, "n": 0, "trace": trace_tokens(&kr.trace)}),
                    expected: "the model accepts the recorded storage calls: BEGIN first, every write inside BEGIN…COMMIT, one COMMIT, nothing written after it".into(),
                    observed: reply,
                });
            } else if let Some((_, w)) = &predicted {
                let unpredicted: Vec<&&str> = changed.iter().filter(|t| !w.contains(**t)).collect();
                if !unpredicted.is_empty() {
                    model_failures += 1;
                    rep.fail(Failure {
                        kind: "impl-vs-model".into(),
                        class: "table-changed-outside-model".into(),
                        input: json!({"kind": kind, "n": 0}),
                        expected: format!("changed tables within the model's write set {w:?}"),
                        observed: format!("changed {changed:?}, not predicted {unpredicted:?}"),
                    });
                }
            }
        }
        // ---- crash cases
        let points: Vec<u64> = match &replay {
            Some((_, n)) => vec![*n],
            None => points_for(total, cap, a.seed),
        };
        if (points.len() as u64) < total + 1 {
            rep.exhaustive = false;
        }
        let next = Arc::new(AtomicUsize::new(0));
        let outs: Arc<Mutex<Vec<CaseOut>>> = Arc::new(Mutex::new(Vec::new()));
        let pts = Arc::new(points);
        let mut hs = vec![];
        for _ in 0..workers.min(pts.len()).max(1) {
            let (cx, kr, next, outs, pts) = (cx.clone(), kr.clone(), next.clone(), outs.clone(), pts.clone());
            hs.push(std::thread::spawn(move || loop {
                let i = next.fetch_add(1, Ordering::SeqCst);
                if i >= pts.len() {
                    break;
                }
                let o = run_case(&cx, &kr, pts[i]);
                outs.lock().unwrap().push(o);
            }));
        }
        for h in hs {
            h.join().expect("worker");
        }
        let mut outs = std::mem::take(&mut *outs.lock().unwrap());
        outs.sort_by_key(|c| c.n);
        let mut n_before = 0u64;
        let mut n_after = 0u64;
        for c in &outs {
            let inside = c.n >= 2 && c.n <= total;
            rep.case(if inside { Some(format!("{kind}:{}", c.n)) } else { None });
            let input = json!({"kind": kind, "n": c.n, "storage_calls": total, "commit_call": commit_pre});
            match judge(&kr, c, cx.selftest.as_deref() == Some("lose-ts-cid")) {
                Ok(side) => {
                    rep.count(&format!("{kind}:{side}"));
                    if side == "before" {
                        n_before += 1
                    } else {
                        n_after += 1
                    }
                    if let Some((flip, _)) = &predicted {
                        let model_side = if c.n <= *flip { "before" } else { "after" };
                        if model_side != side && model_failures < 4 {
                            model_failures += 1;
                            rep.fail(Failure {
                                kind: "impl-vs-model".into(),
                                class: "side-differs".into(),
                                input: input.clone(),
                                expected: format!("model: {model_side} (flip after call {flip})"),
                                observed: side.to_string(),
                            });
                        }
                    }
                }
                Err((class, expected, observed)) => {
                    if !oracle_failed || rep.failures.len() < 6 {
                        rep.fail(Failure { kind: "impl-vs-oracle".into(), class, input, expected, observed });
                    }
                    oracle_failed = true;
                }
            }
        }
        if rep.samples.len() < 5 {
            rep.sample(json!({"kind": kind, "storage_calls": total, "commit_call": commit_pre, "cases": outs.len(),
                "before": n_before, "after": n_after, "changed_tables": changed, "model": predicted.as_ref().map(|(f, w)| json!({"flip": f, "writes": w})),
                "secs": t_kind.elapsed().as_secs_f64()}));
        }
        rep.note(format!("{kind}: {total} storage calls, COMMIT is call {commit_pre}, {} crash cases ({n_before} before / {n_after} after) in {:.1}s", outs.len(), t_kind.elapsed().as_secs_f64()));
    }
    let _ = std::fs::remove_dir_all(&dir);
    rep.write(&a.out);
    println!(
        "c05: {} cases, {} non-trivial, {} failures, {:.1}s",
        rep.evaluations,
        rep.nontrivial_keys.len(),
        rep.failures.len(),
        t_start.elapsed().as_secs_f64()
    );
}
