//! C31 — weak or badlisted passwords can never be set.  Stream `pwquality`.
//!
//! Real `IdmServer` (in-memory).  One case = one fresh account (person, usually posix; optional
//! RADIUS secret, mail, existing primary / primary+TOTP / unix credentials) placed in 0-3 fresh
//! `account_policy` groups with random `auth_password_minimum_length` / `credential_type_minimum`,
//! a system badlist set through `Value::new_iutf8`, and a short history through ONE of the
//! password-setting paths:
//!   cu         `init_credential_update` (as the account itself) then `credential_primary_set_password`,
//!              `credential_unix_set_password`, `credential_primary_delete`, `credential_unix_delete`,
//!              the read-only `credential_check_password_quality`, then `commit_credential_update`
//!   cu-intent  the same session obtained through `init_credential_update_intent` + exchange
//!   posix      `set_unix_account_password` (direct POSIX password change), one write txn each
//! interleaved with badlist additions and (rarely) a policy change while the session is open.
//! The same requests go to the Lean model (`km_c31`: C35's `foldFrom` + `initSession`/`setPrimary`/
//! `setUnix`/`commit`/`setUnixDirect`); request results and the stored credentials (identified by
//! the credential timestamp = request instant, confirmed by `Password::verify`) are compared.
//! External parameters of the model are measured here: grapheme count (by construction of the
//! cleartext from known clusters — not through unicode-segmentation), zxcvbn score (same crate,
//! same related inputs, assembled here from the entry's attributes), `str::to_lowercase`.
//!
//! Oracle (property text only): every accepted — in particular every stored — password has at
//! least the account's effective minimum length in graphemes (max of the group minima and 10; at
//! least 15 unless some group demands MFA or better — the numbers are hard-coded here), at most
//! 128 graphemes, and equals no submitted badlist entry ignoring case (per-character simple case
//! folding written here); a rejected request never changes what is stored.
//! Sub-stream `lower`: `lowerGreek` of the model vs `str::to_lowercase` on ASCII+Greek strings.
use hlib::*;
use kanidmd_lib::credential::totp::{Totp, TotpAlgo, TotpDigits};
use kanidmd_lib::entry::{Entry, EntryInit, EntryNew};
use kanidmd_lib::idm::credupdatesession::{
    CredentialUpdateIntentTokenExchange, CredentialUpdateSessionToken, InitCredentialUpdateEvent,
    InitCredentialUpdateIntentEvent,
};
use kanidmd_lib::idm::event::UnixPasswordChangeEvent;
use kanidmd_lib::idm::server::{IdmServer, IdmServerAudit, IdmServerDelayed};
use kanidmd_lib::modify::{Modify, ModifyList};
use kanidmd_lib::prelude::*;
use kanidmd_lib::testkit::{setup_idm_test, TestConfiguration};
use kanidmd_lib::value::CredentialType;
use kanidmd_lib::verif_hooks::c27::{cred_append_totp, cred_password};
use serde_json::{json, Value as J};
use time::OffsetDateTime;

const NS: u128 = 1_000_000_000;
const DAY: u128 = 86_400 * NS;
const T0: u128 = 21_990 * DAY;
const OLD_PW: &str = "the-previous-credential-of-c31";

fn dur(ns: u128) -> Duration {
    Duration::new((ns / NS) as u64, (ns % NS) as u32)
}

// ------------------------------------------------------------------------------------------
// cleartexts built from known grapheme clusters
// ------------------------------------------------------------------------------------------

/// no digits and none of the symbols of zxcvbn's l33t table except `9`: its l33t matcher re-runs the
/// dictionary matcher once per substitution table and is very slow (unoptimised build) otherwise
const ASCII: &str = "abcdefghijkmnopqrstuvwxyzABCDEFGHJKLMNPQRSTUVWXYZ9-_.#^&*=~ ,;:?/>)]}";
/// each is exactly one extended grapheme cluster and none starts with a character that would
/// join the previous cluster (no leading combining mark / ZWJ / jamo vowel / modifier)
const CLUSTERS: &[&str] = &[
    "e\u{301}", "o\u{308}\u{304}", "é", "ß", "Ж", "я", "λ", "Ω", "字", "한", "\u{1100}\u{1161}\u{11A8}", "😀",
    "👍\u{1F3FD}", "👨\u{200D}👩\u{200D}👧", "🇦🇺", "1\u{FE0F}\u{20E3}", "\r\n", "İ", "ǆ", "Æ", "ñ", "Ü", "ø", "€",
];

#[derive(Clone, Debug)]
struct Pw {
    s: String,
    graphemes: u64,
}

fn piece(rng: &mut Rng, multi_pct: u64) -> &'static str {
    if rng.below(100) < multi_pct {
        CLUSTERS[rng.below(CLUSTERS.len() as u64) as usize]
    } else {
        let i = rng.below(ASCII.len() as u64) as usize;
        &ASCII[i..i + 1]
    }
}

fn gen_graphemes(rng: &mut Rng, g: u64, multi_pct: u64) -> Pw {
    let mut s = String::new();
    for _ in 0..g {
        s.push_str(piece(rng, multi_pct));
    }
    Pw { s, graphemes: g }
}

/// exactly `bytes` bytes, as many multi-byte clusters as fit
fn gen_bytes(rng: &mut Rng, bytes: usize, multi_pct: u64) -> Pw {
    let mut s = String::new();
    let mut g = 0;
    while s.len() < bytes {
        let p = piece(rng, if bytes - s.len() > 30 { multi_pct } else { 0 });
        if s.len() + p.len() <= bytes {
            s.push_str(p);
            g += 1;
        }
    }
    Pw { s, graphemes: g }
}

fn cps(s: &str) -> String {
    if s.is_empty() {
        "e".into()
    } else {
        s.chars().map(|c| (c as u32).to_string()).collect::<Vec<_>>().join(".")
    }
}

fn upper1(c: char) -> char {
    let mut it = c.to_uppercase();
    match (it.next(), it.next()) {
        (Some(u), None) => u,
        _ => c,
    }
}
fn lower1(c: char) -> char {
    let mut it = c.to_lowercase();
    match (it.next(), it.next()) {
        (Some(u), None) => u,
        _ => c,
    }
}
/// simple case folding, written for the oracle: one-to-one lower-casing, final sigma = sigma
fn fold1(c: char) -> char {
    let l = lower1(c);
    if l == 'ς' {
        'σ'
    } else {
        l
    }
}
fn caseless_eq(a: &str, b: &str) -> bool {
    a.chars().map(fold1).eq(b.chars().map(fold1))
}

fn case_variant(rng: &mut Rng, s: &str) -> String {
    s.chars()
        .map(|c| match rng.below(3) {
            0 => lower1(c),
            1 => upper1(c),
            _ => c,
        })
        .collect()
}

// ------------------------------------------------------------------------------------------
// cases
// ------------------------------------------------------------------------------------------

#[derive(Clone, Debug)]
enum Op {
    Sp(Pw),
    Su(Pw),
    Dp,
    Du,
    Chk(Pw),
    Direct(Pw),
    Bl(String),
    Pol(u32),
}

#[derive(Clone, Debug)]
struct Case {
    kind: String,
    path: String,
    name: String,
    display: String,
    posix: bool,
    old_primary: u8,
    old_unix: bool,
    radius: Option<String>,
    mail: Option<String>,
    policies: Vec<(Option<u32>, Option<u16>)>,
    badlist: Vec<String>,
    ops: Vec<Op>,
}

fn pw_json(p: &Pw) -> J {
    json!({"s": p.s, "g": p.graphemes})
}
fn pw_from(j: &J) -> Pw {
    Pw { s: j["s"].as_str().expect("pw.s").to_string(), graphemes: j["g"].as_u64().expect("pw.g") }
}

impl Case {
    fn to_json(&self) -> J {
        let ops: Vec<J> = self
            .ops
            .iter()
            .map(|o| match o {
                Op::Sp(p) => json!({"op": "sp", "pw": pw_json(p)}),
                Op::Su(p) => json!({"op": "su", "pw": pw_json(p)}),
                Op::Dp => json!({"op": "dp"}),
                Op::Du => json!({"op": "du"}),
                Op::Chk(p) => json!({"op": "chk", "pw": pw_json(p)}),
                Op::Direct(p) => json!({"op": "direct", "pw": pw_json(p)}),
                Op::Bl(s) => json!({"op": "bl", "entry": s}),
                Op::Pol(n) => json!({"op": "pol", "min": n}),
            })
            .collect();
        json!({
            "kind": self.kind, "path": self.path, "name": self.name, "display": self.display, "posix": self.posix,
            "old_primary": self.old_primary, "old_unix": self.old_unix, "radius": self.radius, "mail": self.mail,
            "policies": self.policies.iter().map(|(m, c)| json!([m, c])).collect::<Vec<_>>(),
            "badlist": self.badlist, "ops": ops,
        })
    }
    fn from_json(j: &J) -> Case {
        let s = |k: &str| j[k].as_str().unwrap_or_else(|| panic!("replay input: {k}")).to_string();
        let os = |k: &str| j[k].as_str().map(|x| x.to_string());
        Case {
            kind: s("kind"),
            path: s("path"),
            name: s("name"),
            display: s("display"),
            posix: j["posix"].as_bool().expect("posix"),
            old_primary: j["old_primary"].as_u64().expect("old_primary") as u8,
            old_unix: j["old_unix"].as_bool().expect("old_unix"),
            radius: os("radius"),
            mail: os("mail"),
            policies: j["policies"]
                .as_array()
                .expect("policies")
                .iter()
                .map(|p| (p[0].as_u64().map(|x| x as u32), p[1].as_u64().map(|x| x as u16)))
                .collect(),
            badlist: j["badlist"].as_array().expect("badlist").iter().map(|x| x.as_str().unwrap().to_string()).collect(),
            ops: j["ops"]
                .as_array()
                .expect("ops")
                .iter()
                .map(|o| match o["op"].as_str().expect("op") {
                    "sp" => Op::Sp(pw_from(&o["pw"])),
                    "su" => Op::Su(pw_from(&o["pw"])),
                    "dp" => Op::Dp,
                    "du" => Op::Du,
                    "chk" => Op::Chk(pw_from(&o["pw"])),
                    "direct" => Op::Direct(pw_from(&o["pw"])),
                    "bl" => Op::Bl(o["entry"].as_str().unwrap().to_string()),
                    "pol" => Op::Pol(o["min"].as_u64().unwrap() as u32),
                    x => panic!("bad op {x}"),
                })
                .collect(),
        }
    }
}

/// the statement's effective minimum, from the group policies (numbers hard-coded on purpose)
fn oracle_min(pols: &[(Option<u32>, Option<u16>)]) -> u64 {
    let mut m: u64 = 10;
    let mut cred: u16 = 0;
    for (mn, c) in pols {
        m = m.max(mn.unwrap_or(10) as u64);
        cred = cred.max(c.unwrap_or(0));
    }
    if cred < 10 {
        m = m.max(15);
    }
    m
}

const SIGMA_ENTRY: &str = "Qwfp-ZXCV-ΘΆΛΑΣΣΑ-arstdhneio-ΟΣ";
const BADLIST: &[&str] = &[
    "GxQmVz9LkWpRtBnYcDfH",
    "hJnKsDfGaLzXcVbMqW-w",
    "ÉCOLE-normale-Zürich-Ænima-ÑANDÚ",
    "Привет-Медвед-Кракозябра",
    "Καλημέρα-Ποτάμι-Βουνό-Δέντρο",
    "worldofwarcraft",
    SIGMA_ENTRY,
];
const WEAK: &[&str] = &[
    "passwordpassword1", "qwertyuiopasdfghjkl", "aaaaaaaaaaaaaaaaaaaaaaaa", "correcthorsebattery", "1212121212121212121",
    "letmeinletmeinletmein", "abcdefghijklmnopqrstuvwxyz", "iloveyouiloveyouiloveyou",
];
const MINS: &[Option<u32>] = &[
    None, Some(0), Some(8), Some(10), Some(12), Some(14), Some(15), Some(16), Some(20), Some(24), Some(30), Some(31),
    Some(40), Some(64), Some(100), Some(127), Some(128), Some(129), Some(200),
];

fn gen_case(seed: u64, i: u64) -> Case {
    let mut rng = Rng::for_case(seed, i);
    let name = format!("c31u{i}s{}", seed % 100_000);
    let display = format!("Cee{i} Thirtyone");
    let path = match rng.below(10) {
        0..=3 => "cu",
        4 => "cu-intent",
        _ => "posix",
    }
    .to_string();
    let posix = path == "posix" && !rng.chance(1, 15) || path != "posix" && rng.chance(3, 4);
    // policies: mostly small minima so that lengths near them are interesting
    let npol = rng.below(4);
    let mut policies = vec![];
    for _ in 0..npol {
        let m = if rng.chance(3, 4) { *rng.pick(&MINS[..13]) } else { *rng.pick(MINS) };
        let c = match rng.below(12) {
            0 => Some(0u16),
            1 | 2 => Some(10),
            3 => Some(20),
            _ => None,
        };
        policies.push((m, c));
    }
    if path == "posix" && rng.chance(1, 5) {
        // MFA demanded and a small minimum: the POSIX gate's own single-factor floor is what decides
        policies = vec![(*rng.pick(&[None, Some(10u32), Some(12), Some(14)]), Some(10))];
    }
    let mfa = policies.iter().any(|p| p.1 == Some(10)) && !policies.iter().any(|p| p.1 == Some(20));
    let old_primary = if mfa { 2 } else { *rng.pick(&[1u8, 1, 2, 1, 0, 1]) };
    let old_unix = posix && rng.chance(1, 2);
    let radius = if rng.chance(1, 4) { Some(format!("radius-{}-{}", i, rng.below(100_000))) } else { None };
    let mail = if rng.chance(1, 4) { Some(format!("{name}@example.com")) } else { None };
    let badlist: Vec<String> = BADLIST.iter().map(|s| s.to_string()).collect();
    let eff = oracle_min(&policies);
    let eff_path = if path == "posix" { eff.max(15) } else { eff };
    let nops = 1 + rng.below(4);
    let mut ops = vec![];
    let mut kinds = vec![];
    for _ in 0..nops {
        let k = rng.below(100);
        let multi = *rng.pick(&[0u64, 0, 25, 80]);
        let (kind, pw): (&str, Pw) = if k < 25 {
            let d = rng.below(3);
            // on the POSIX path also probe around the policy minimum itself when it is below the single-factor floor
            let around = if eff_path != eff && rng.chance(1, 2) { eff } else { eff_path };
            ("len-min", gen_graphemes(&mut rng, (around + d).saturating_sub(1), multi))
        } else if k < 38 {
            let g = 127 + rng.below(3);
            let m = *rng.pick(&[0u64, 0, 10]);
            ("len-max", gen_graphemes(&mut rng, g, m))
        } else if k < 48 {
            let b = 127 + rng.below(3) as usize;
            let m = *rng.pick(&[30u64, 80]);
            ("bytes-max", gen_bytes(&mut rng, b, m))
        } else if k < 68 {
            let e = rng.pick(&badlist).clone();
            let mut v = case_variant(&mut rng, &e);
            match rng.below(6) {
                0 => v.push('x'),
                1 => v = e.clone(),
                _ => {}
            }
            let g = v.chars().count() as u64; // entries are precomposed, one scalar value per cluster
            ("badlist", Pw { s: v, graphemes: g })
        } else if k < 76 {
            let w = rng.pick(WEAK).to_string();
            let g = w.len() as u64;
            ("weak", Pw { s: w, graphemes: g })
        } else if k < 83 {
            let mut p = gen_graphemes(&mut rng, eff_path + 2, 0);
            let ins = match rng.below(3) {
                0 => name.clone(),
                1 => display.clone(),
                _ => format!("{name}@example.com"),
            };
            p.graphemes += ins.chars().count() as u64;
            p.s.push_str(&ins);
            ("related", p)
        } else if k < 88 {
            let mut p = gen_graphemes(&mut rng, eff_path + 2, 0);
            if let Some(r) = &radius {
                p.graphemes += r.len() as u64;
                p.s = format!("{r}{}", p.s);
            }
            ("radius", p)
        } else if k < 97 {
            let g = rng.below(141);
            ("random", gen_graphemes(&mut rng, g, multi))
        } else {
            match rng.below(3) {
                0 => ("malformed", Pw { s: String::new(), graphemes: 0 }),
                1 => ("malformed", gen_graphemes(&mut rng, 1, 100)),
                _ => ("malformed", gen_bytes(&mut rng, 600, 50)),
            }
        };
        kinds.push(kind);
        let op = if path == "posix" {
            Op::Direct(pw)
        } else {
            match rng.below(12) {
                0..=4 => Op::Sp(pw),
                5..=8 => Op::Su(pw),
                9 => Op::Chk(pw),
                10 => {
                    ops.push(if rng.chance(1, 2) { Op::Sp(pw) } else { Op::Su(pw) });
                    if rng.chance(1, 2) {
                        Op::Dp
                    } else {
                        Op::Du
                    }
                }
                _ => Op::Sp(pw),
            }
        };
        ops.push(op);
        if rng.chance(1, 12) {
            // a new badlist entry while the session is open; a later attempt may hit it
            let e = gen_graphemes(&mut rng, 18, 0).s.replace(' ', "_");
            ops.push(Op::Bl(e.clone()));
            let v = case_variant(&mut rng, &e);
            let g = v.chars().count() as u64;
            let pw = Pw { s: v, graphemes: g };
            ops.push(if path == "posix" { Op::Direct(pw) } else if rng.chance(1, 2) { Op::Sp(pw) } else { Op::Su(pw) });
        }
        if !policies.is_empty() && rng.chance(1, 25) {
            ops.push(Op::Pol(*rng.pick(&[8u32, 20, 40])));
        }
    }
    kinds.dedup();
    Case { kind: kinds.join("+"), path, name, display, posix, old_primary, old_unix, radius, mail, policies, badlist, ops }
}

/// D28 probe: the final-sigma entry in the badlist, the same letters in lower case with a
/// non-final sigma submitted.
fn sigma_case(seed: u64, i: u64) -> Case {
    let mut c = gen_case(seed, 1_000_000 + i);
    let mut v = SIGMA_ENTRY.to_lowercase();
    assert!(v.ends_with('ς'));
    v.pop();
    v.push('σ');
    let g = v.chars().count() as u64;
    let pw = Pw { s: v, graphemes: g };
    c.kind = "final-sigma".into();
    c.policies = vec![];
    c.old_primary = 1;
    c.posix = true;
    c.ops = match c.path.as_str() {
        "posix" => vec![Op::Direct(pw)],
        _ => vec![if i % 2 == 0 { Op::Sp(pw) } else { Op::Su(pw) }],
    };
    c
}

// ------------------------------------------------------------------------------------------
// the world
// ------------------------------------------------------------------------------------------

struct World {
    idms: IdmServer,
    _delayed: IdmServerDelayed,
    _audit: IdmServerAudit,
    badlist: Vec<String>,
    case_no: u64,
    accounts: u64,
    /// the credentials accounts are created with (hashed once)
    old_pw: kanidmd_lib::credential::Credential,
    old_pw_totp: kanidmd_lib::credential::Credential,
}

impl World {
    async fn new(case_no: u64) -> World {
        let (idms, _delayed, _audit) = setup_idm_test(TestConfiguration::default()).await;
        {
            // the default policy of idm_all_persons demands MFA; the cases bring their own policies
            let mut t = idms.proxy_write(dur(T0)).await.unwrap();
            t.qs_write
                .internal_modify_uuid(UUID_IDM_ALL_PERSONS, &ModifyList::new_purge(Attribute::CredentialTypeMinimum))
                .expect("lift credential type minimum");
            t.qs_write
                .internal_modify_uuid(UUID_SYSTEM_CONFIG, &ModifyList::new_purge(Attribute::BadlistPassword))
                .expect("purge default badlist");
            t.commit().expect("commit world");
        }
        let old_pw = cred_password(OLD_PW, false).expect("old cred");
        let old_pw_totp = cred_append_totp(&old_pw, "totp", Totp::new(vec![7u8; 32], 30, TotpAlgo::Sha256, TotpDigits::Six));
        World { idms, _delayed, _audit, badlist: vec![], case_no, accounts: 0, old_pw, old_pw_totp }
    }

    async fn set_badlist(&mut self, want: &[String], at: u128) {
        if self.badlist == want {
            return;
        }
        let mut mods = vec![Modify::Purged(Attribute::BadlistPassword)];
        for e in want {
            mods.push(Modify::Present(Attribute::BadlistPassword, Value::new_iutf8(e)));
        }
        let mut t = self.idms.proxy_write(dur(at)).await.unwrap();
        t.qs_write.internal_modify_uuid(UUID_SYSTEM_CONFIG, &ModifyList::new_list(mods)).expect("set badlist");
        t.commit().expect("commit badlist");
        self.badlist = want.to_vec();
    }

    async fn add_badlist(&mut self, e: &str, at: u128) {
        let mut t = self.idms.proxy_write(dur(at)).await.unwrap();
        t.qs_write
            .internal_modify_uuid(UUID_SYSTEM_CONFIG, &ModifyList::new_append(Attribute::BadlistPassword, Value::new_iutf8(e)))
            .expect("append badlist");
        t.commit().expect("commit badlist");
        self.badlist.push(e.to_string());
    }
}

fn real_result<T>(r: &Result<T, OperationError>, posix: bool) -> String {
    match r {
        Ok(_) => "ok".into(),
        Err(e) => {
            let s = format!("{e:?}");
            if let Some(rest) = s.strip_prefix("PasswordQuality([") {
                let inner = rest.trim_end_matches("])");
                if let Some(n) = inner.strip_prefix("TooShort(") {
                    format!("quality:tooshort {}", n.trim_end_matches(')'))
                } else if let Some(n) = inner.strip_prefix("TooLong(") {
                    format!("quality:toolong {}", n.trim_end_matches(')'))
                } else if inner == "BadListed" {
                    if posix { "quality:badlisted-or-weak".into() } else { "quality:badlisted".into() }
                } else if inner == "DontReusePasswords" {
                    "quality:dontreuse".into()
                } else if inner == "NamesAndSurnamesByThemselvesAreEasyToGuess, AvoidDatesAndYearsThatAreAssociatedWithYou" {
                    "quality:related".into()
                } else {
                    "quality:weak".into()
                }
            } else if s == "AccessDenied" {
                "accessdenied".into()
            } else if s.starts_with("MissingClass") {
                "missingposix".into()
            } else {
                format!("err:{s}")
            }
        }
    }
}

fn canon_model(reply: &str, posix: bool) -> String {
    if posix && (reply == "quality:weak" || reply == "quality:badlisted") {
        "quality:badlisted-or-weak".into()
    } else {
        reply.to_string()
    }
}

fn state_of(status_dbg: &str, field: &str) -> String {
    let key = format!("{field}: ");
    match status_dbg.find(&key) {
        Some(i) => status_dbg[i + key.len()..]
            .chars()
            .take_while(|c| c.is_alphanumeric())
            .collect::<String>()
            .to_lowercase(),
        None => "unknown".into(),
    }
}

fn pols_str(p: &[(Option<u32>, Option<u16>)]) -> String {
    if p.is_empty() {
        "-".into()
    } else {
        p.iter()
            .map(|(m, c)| format!("{}:{}", m.map(|x| x.to_string()).unwrap_or("-".into()), c.map(|x| x.to_string()).unwrap_or("-".into())))
            .collect::<Vec<_>>()
            .join(";")
    }
}

fn list_str(l: &[String]) -> String {
    if l.is_empty() {
        "-".into()
    } else {
        l.iter().map(|s| cps(s)).collect::<Vec<_>>().join(",")
    }
}

#[derive(Default)]
struct CaseOut {
    failures: Vec<Failure>,
    counts: Vec<String>,
    gate_ran: bool,
    accepted: u32,
    stored_fresh: u32,
    outcomes: Vec<String>,
    /// microseconds spent in the harness's own zxcvbn calls / in the server's request handlers
    us_score: u128,
    us_requests: u128,
}

struct Attempt {
    slot: &'static str,
    pw: Pw,
    at: u128,
    result: String,
    /// effective minimum the statement applies to this request
    eff: u64,
    /// the badlist (as submitted) at the request
    badlist: Vec<String>,
}

async fn read_policies(idms: &IdmServer, uuid: Uuid) -> Vec<(Option<u32>, Option<u16>)> {
    let mut r = idms.proxy_read().await.unwrap();
    let e = r.qs_read.internal_search_uuid(uuid).expect("account");
    let mut out = vec![];
    if let Some(mo) = e.get_ava_refer(Attribute::MemberOf) {
        for g in mo.iter() {
            let ge = r.qs_read.internal_search_uuid(*g).expect("group");
            if ge.attribute_equality(Attribute::Class, &EntryClass::AccountPolicy.to_partialvalue()) {
                out.push((
                    ge.get_ava_single_uint32(Attribute::AuthPasswordMinimumLength),
                    ge.get_ava_single_credential_type(Attribute::CredentialTypeMinimum).map(|c| c as u16),
                ));
            }
        }
    }
    out
}

async fn exec_case(w: &mut World, drv: &mut Driver, c: &Case) -> CaseOut {
    let mut out = CaseOut::default();
    w.case_no += 1;
    w.accounts += 1;
    let base = T0 + DAY + w.case_no as u128 * 3600 * NS;
    let input = c.to_json();
    let mut reported = false;
    macro_rules! fail {
        ($kind:expr, $class:expr, $exp:expr, $obs:expr) => {
            if !reported || $kind == "impl-vs-oracle" {
                reported = true;
                out.failures.push(Failure { kind: $kind.to_string(), class: $class.to_string(), input: input.clone(), expected: $exp, observed: $obs });
            }
        };
    }
    let t_case = std::time::Instant::now();
    w.set_badlist(&c.badlist, base).await;

    // --- the account and its policy groups
    let uuid = nat_uuid(0xC31_0000_0000 + w.case_no * 8);
    let mut entries = vec![];
    {
        let mut e: Entry<EntryInit, EntryNew> = Entry::new();
        e.add_ava(Attribute::Class, EntryClass::Object.to_value());
        e.add_ava(Attribute::Class, EntryClass::Account.to_value());
        e.add_ava(Attribute::Class, EntryClass::Person.to_value());
        if c.posix {
            e.add_ava(Attribute::Class, EntryClass::PosixAccount.to_value());
        }
        e.add_ava(Attribute::Name, Value::new_iname(&c.name));
        e.add_ava(Attribute::Uuid, Value::Uuid(uuid));
        e.add_ava(Attribute::Description, Value::new_utf8s(&c.name));
        e.add_ava(Attribute::DisplayName, Value::new_utf8s(&c.display));
        if let Some(r) = &c.radius {
            e.add_ava(Attribute::RadiusSecret, Value::new_secret_str(r));
        }
        if let Some(m) = &c.mail {
            e.add_ava(Attribute::Mail, Value::new_email_address_primary_s(m).expect("mail"));
        }
        if c.old_primary > 0 {
            let cred = if c.old_primary == 2 { w.old_pw_totp.clone() } else { w.old_pw.clone() };
            e.add_ava(Attribute::PrimaryCredential, Value::new_credential("primary", cred));
        }
        if c.old_unix {
            e.add_ava(Attribute::UnixPassword, Value::new_credential("unix", w.old_pw.clone()));
        }
        entries.push(e);
    }
    let mut group_uuids = vec![];
    for (k, (m, cr)) in c.policies.iter().enumerate() {
        let gu = nat_uuid(0xC31_0000_0000 + w.case_no * 8 + 1 + k as u64);
        let mut g: Entry<EntryInit, EntryNew> = Entry::new();
        g.add_ava(Attribute::Class, EntryClass::Object.to_value());
        g.add_ava(Attribute::Class, EntryClass::Group.to_value());
        g.add_ava(Attribute::Class, EntryClass::AccountPolicy.to_value());
        g.add_ava(Attribute::Name, Value::new_iname(&format!("{}g{k}", c.name)));
        g.add_ava(Attribute::Uuid, Value::Uuid(gu));
        if let Some(m) = m {
            g.add_ava(Attribute::AuthPasswordMinimumLength, Value::Uint32(*m));
        }
        if let Some(cr) = cr {
            let ct = match cr {
                0 => CredentialType::Any,
                10 => CredentialType::Mfa,
                20 => CredentialType::Passkey,
                x => panic!("credential type {x}"),
            };
            g.add_ava(Attribute::CredentialTypeMinimum, ct.into());
        }
        g.add_ava(Attribute::Member, Value::Refer(uuid));
        group_uuids.push(gu);
        entries.push(g);
    }
    {
        let mut t = w.idms.proxy_write(dur(base)).await.unwrap();
        t.qs_write.internal_create(entries).expect("create account and groups");
        t.commit().expect("commit account");
    }
    let entry = {
        let mut r = w.idms.proxy_read().await.unwrap();
        r.qs_read.internal_search_uuid(uuid).expect("account entry")
    };
    let spn = entry.get_ava_single_proto_string(Attribute::Spn).expect("spn");
    // related inputs, assembled here from the entry's attributes
    let mut related: Vec<String> = vec![];
    if let Some(m) = &c.mail {
        related.push(m.clone());
    }
    related.push(spn.clone());
    related.push(c.name.clone());
    related.push(c.display.clone());
    if let Some(r) = &c.radius {
        related.push(r.clone());
    }
    let related_refs: Vec<&str> = related.iter().map(|s| s.as_str()).collect();
    let ident = Identity::from_impersonate_entry_readwrite(entry.clone());
    let mut pols = read_policies(&w.idms, uuid).await;
    // the oracle's policies are the ones this case configured (plus built-in policy groups, which
    // carry no minimum): they must be what the server sees
    {
        let mut a: Vec<_> = pols.iter().filter(|p| p.0.is_some() || p.1.is_some()).cloned().collect();
        let mut b: Vec<_> = c.policies.iter().filter(|p| p.0.is_some() || p.1.is_some()).cloned().collect();
        a.sort();
        b.sort();
        if a != b {
            fail!("impl-vs-oracle", "policy-groups-not-applied", format!("policies {:?}", b), format!("{:?}", a));
        }
    }

    out.counts.push(format!("us:setup={}", t_case.elapsed().as_micros()));
    // --- model: lower table, account
    let _ = drv.ask("reset");
    let mut lows: Vec<String> = c.badlist.clone();
    for o in &c.ops {
        match o {
            Op::Sp(p) | Op::Su(p) | Op::Chk(p) | Op::Direct(p) => lows.push(p.s.clone()),
            Op::Bl(e) => lows.push(e.clone()),
            _ => {}
        }
    }
    lows.sort();
    lows.dedup();
    for t in &lows {
        let l = t.to_lowercase();
        if &l != t {
            let r = drv.ask(&format!("low {} {}", cps(t), cps(&l)));
            assert_eq!(r, "ok", "low");
        }
    }
    let r = drv.ask(&format!(
        "acct {} {} {} {} {}",
        c.posix as u8,
        (c.old_primary > 0) as u8,
        c.old_unix as u8,
        c.radius.as_ref().map(|r| cps(r)).unwrap_or("-".into()),
        list_str(&related)
    ));
    assert_eq!(r, "ok", "acct");

    // the score only matters when the length gates pass (at most 128 graphemes): zxcvbn is cubic in
    // the length, so it is not asked about the over-long cleartexts the server never scores either
    let us_score = std::cell::Cell::new(0u128);
    let score = |pw: &str| -> u8 {
        if pw.chars().count() > 700 {
            return 0;
        }
        let t0 = std::time::Instant::now();
        let s = u8::from(zxcvbn::zxcvbn(pw, &related_refs).score());
        us_score.set(us_score.get() + t0.elapsed().as_micros());
        s
    };
    let mut attempts: Vec<Attempt> = vec![];
    let posix_path = c.path == "posix";

    let mut token: Option<CredentialUpdateSessionToken> = None;
    let mut init_pols = pols.clone();
    if !posix_path {
        let at = base + NS;
        let mut t = w.idms.proxy_write(dur(at)).await.unwrap();
        let r = if c.path == "cu-intent" {
            let ev = InitCredentialUpdateIntentEvent::new(ident.clone(), uuid, None);
            match t.init_credential_update_intent(&ev, dur(at)) {
                Ok(tok) => t.exchange_intent_credential_update(CredentialUpdateIntentTokenExchange { intent_id: tok.intent_id.clone() }, dur(at)),
                Err(e) => Err(e),
            }
        } else {
            t.init_credential_update(&InitCredentialUpdateEvent::new(ident.clone(), uuid), dur(at))
        };
        match r {
            Ok((tok, status)) => {
                t.commit().expect("commit init");
                let dbg = format!("{status:?}");
                let ps = state_of(&dbg, "primary_state");
                let us = state_of(&dbg, "unixcred_state");
                let m = drv.ask(&format!("init {} {} {}", pols_str(&pols), (ps != "accessdeny") as u8, (us != "accessdeny") as u8));
                out.counts.push(format!("init:{ps}/{us}"));
                if m != format!("{ps} {us}") {
                    fail!("impl-vs-model", "unclassified", format!("model session states {m}"), format!("{ps} {us}"));
                }
                token = Some(tok);
                init_pols = pols.clone();
            }
            Err(e) => {
                drop(t);
                out.counts.push(format!("init-error:{e:?}"));
                fail!("impl-vs-model", "unclassified", "session for the account itself".to_string(), format!("{e:?}"));
                return out;
            }
        }
    }

    for (j, op) in c.ops.iter().enumerate() {
        let at = base + (10 + j as u128) * NS;
        let bad = list_str(&w.badlist);
        match op {
            Op::Bl(e) => {
                w.add_badlist(e, at).await;
            }
            Op::Pol(n) => {
                if let Some(g) = group_uuids.first() {
                    let mut t = w.idms.proxy_write(dur(at)).await.unwrap();
                    t.qs_write
                        .internal_modify_uuid(
                            *g,
                            &ModifyList::new_list(vec![
                                Modify::Purged(Attribute::AuthPasswordMinimumLength),
                                Modify::Present(Attribute::AuthPasswordMinimumLength, Value::Uint32(*n)),
                            ]),
                        )
                        .expect("change policy");
                    t.commit().expect("commit policy");
                    pols = read_policies(&w.idms, uuid).await;
                    if oracle_min(&pols) > oracle_min(&init_pols) {
                        out.counts.push("obs:policy-raised-while-session-open".into());
                    }
                }
            }
            Op::Dp | Op::Du => {
                let tok = token.as_ref().expect("session");
                let cu = w.idms.cred_update_transaction().await.unwrap();
                let (r, line) = match op {
                    Op::Dp => (cu.credential_primary_delete(tok, dur(at)), "dp"),
                    _ => (cu.credential_unix_delete(tok, dur(at)), "du"),
                };
                let real = real_result(&r, false);
                let m = drv.ask(line);
                if m != real {
                    fail!("impl-vs-model", "unclassified", format!("op {j} ({line}): model {m}"), real.clone());
                }
                out.outcomes.push(format!("{line}={real}"));
            }
            Op::Chk(p) => {
                let tok = token.as_ref().expect("session");
                let cu = w.idms.cred_update_transaction().await.unwrap();
                let r = cu.credential_check_password_quality(tok, dur(at), &p.s);
                let real = real_result(&r, false);
                let m = drv.ask(&format!(
                    "check cu {} {} {} {} {} {} {}",
                    pols_str(&init_pols),
                    c.radius.as_ref().map(|r| cps(r)).unwrap_or("-".into()),
                    list_str(&related),
                    bad,
                    p.graphemes,
                    score(&p.s),
                    cps(&p.s)
                ));
                let m = if m == "ok" { m } else { format!("quality:{m}") };
                if m != real {
                    fail!("impl-vs-model", "unclassified", format!("op {j} (check-only): model {m}"), real.clone());
                }
                out.gate_ran = true;
                out.outcomes.push(format!("chk={real}"));
                out.counts.push(format!("check-only:{}", real.split(' ').next().unwrap()));
            }
            Op::Sp(p) | Op::Su(p) => {
                let tok = token.as_ref().expect("session");
                let cu = w.idms.cred_update_transaction().await.unwrap();
                let t0 = std::time::Instant::now();
                let (r, line, slot) = match op {
                    Op::Sp(_) => (cu.credential_primary_set_password(tok, dur(at), &p.s), "sp", "primary"),
                    _ => (cu.credential_unix_set_password(tok, dur(at), &p.s), "su", "unix"),
                };
                out.us_requests += t0.elapsed().as_micros();
                let real = real_result(&r, false);
                let m = drv.ask(&format!("{line} {bad} {} {} {}", p.graphemes, score(&p.s), cps(&p.s)));
                if m != real {
                    fail!("impl-vs-model", "unclassified", format!("op {j} ({line} {:?}): model {m}", p.s), real.clone());
                }
                if real == "ok" || real.starts_with("quality:") {
                    out.gate_ran = true;
                }
                out.counts.push(format!("cu:{}", real.split(' ').next().unwrap()));
                out.outcomes.push(format!("{line}={real}"));
                attempts.push(Attempt { slot, pw: p.clone(), at, result: real, eff: oracle_min(&init_pols), badlist: w.badlist.clone() });
            }
            Op::Direct(p) => {
                let mut t = w.idms.proxy_write(dur(at)).await.unwrap();
                let ev = UnixPasswordChangeEvent::from_parts(ident.clone(), uuid, p.s.clone()).expect("event");
                let t0 = std::time::Instant::now();
                let r = t.set_unix_account_password(&ev);
                out.us_requests += t0.elapsed().as_micros();
                let mut real = real_result(&r, true);
                let sc = score(&p.s);
                if real == "err:InvalidState" && sc == 3 {
                    // zxcvbn gives no feedback at score 3; the POSIX gate then answers InvalidState instead of
                    // PasswordQuality — a refusal all the same (nothing is stored)
                    real = "quality:badlisted-or-weak".into();
                    out.counts.push("obs:posix-score3-answers-InvalidState".into());
                }
                if r.is_ok() {
                    t.commit().expect("commit direct");
                } else {
                    drop(t);
                }
                let allowed = real != "accessdenied";
                let m = drv.ask(&format!("direct {} {} {bad} {} {} {}", pols_str(&pols), allowed as u8, p.graphemes, sc, cps(&p.s)));
                let m = canon_model(&m, true);
                if m != real {
                    fail!("impl-vs-model", "unclassified", format!("op {j} (direct {:?}): model {m}", p.s), real.clone());
                }
                if real == "ok" || real.starts_with("quality:") {
                    out.gate_ran = true;
                }
                out.counts.push(format!("posix:{}", real.split(' ').next().unwrap()));
                out.outcomes.push(format!("direct={real}"));
                attempts.push(Attempt { slot: "unix", pw: p.clone(), at, result: real, eff: oracle_min(&pols), badlist: w.badlist.clone() });
            }
        }
    }

    out.counts.push(format!("us:requests={}", t_case.elapsed().as_micros()));
    // --- commit (credential update paths) and the model's view of what is stored
    let model_stored = if let Some(tok) = &token {
        let at = base + 200 * NS;
        let mut t = w.idms.proxy_write(dur(at)).await.unwrap();
        let r = t.commit_credential_update(tok, dur(at));
        let ok = r.is_ok();
        if ok {
            t.commit().expect("commit cu");
        } else {
            drop(t);
        }
        out.counts.push(if ok { "commit:ok".into() } else { format!("commit:{:?}", r.as_ref().err().unwrap()) });
        out.outcomes.push(format!("commit={}", if ok { "ok" } else { "refused" }));
        drv.ask(&format!("commit {}", ok as u8))
    } else {
        drv.ask("show")
    };

    // --- what is stored now
    let e = {
        let mut r = w.idms.proxy_read().await.unwrap();
        r.qs_read.internal_search_uuid(uuid).expect("account entry")
    };
    let mut stored_desc = vec![];
    for (slot, attr, had_old) in [("primary", Attribute::PrimaryCredential, c.old_primary > 0), ("unix", Attribute::UnixPassword, c.old_unix)] {
        let cred = e.get_ava_single_credential(attr);
        let desc = match cred {
            None => "none".to_string(),
            Some(cr) => {
                let ts = cr.timestamp();
                if ts == OffsetDateTime::UNIX_EPOCH {
                    // the credential the account was created with
                    if !had_old {
                        fail!("impl-vs-oracle", "credential-from-nowhere", format!("{slot}: no credential"), "a credential dated at the epoch".to_string());
                    }
                    "old".to_string()
                } else {
                    match attempts.iter().find(|a| a.slot == slot && OffsetDateTime::UNIX_EPOCH + dur(a.at) == ts) {
                        Some(a) => {
                            out.stored_fresh += 1;
                            // oracle: a rejected request never changes what is stored
                            if a.result != "ok" {
                                fail!("impl-vs-oracle", "rejected-password-stored", format!("{slot}: request answered {} stores nothing", a.result), format!("stored the password {:?}", a.pw.s));
                            }
                            if a.pw.s.len() <= 512 {
                                let v = cr.password_ref().ok().and_then(|p| p.verify(&a.pw.s).ok()).unwrap_or(false);
                                if !v {
                                    fail!("impl-vs-oracle", "stored-credential-does-not-verify", format!("{slot}: stored credential verifies {:?}", a.pw.s), "verify = false".to_string());
                                }
                            } else {
                                out.counts.push("obs:stored-over-512-bytes-unverifiable(D15)".into());
                            }
                            format!("fresh:{}", cps(&a.pw.s))
                        }
                        None => {
                            fail!("impl-vs-oracle", "credential-from-nowhere", format!("{slot}: a credential of this case"), format!("timestamp {ts:?}"));
                            "unknown".to_string()
                        }
                    }
                }
            }
        };
        out.counts.push(format!("stored:{slot}:{}", desc.split(':').next().unwrap()));
        stored_desc.push(format!("{slot}={desc}"));
    }
    let real_stored = stored_desc.join(" ");
    if real_stored != model_stored {
        fail!("impl-vs-model", "unclassified", format!("model stored {model_stored}"), real_stored.clone());
    }
    out.outcomes.push(real_stored);

    out.counts.push(format!("us:observed={}", t_case.elapsed().as_micros()));
    // --- oracle: the statement, on every accepted request
    for a in &attempts {
        if a.result != "ok" {
            continue;
        }
        out.accepted += 1;
        if a.pw.graphemes < a.eff {
            fail!(
                "impl-vs-oracle",
                "short-password-accepted",
                format!("{} path {}: at least {} graphemes (effective minimum of the account)", a.slot, c.path, a.eff),
                format!("accepted {:?} of {} graphemes", a.pw.s, a.pw.graphemes)
            );
        }
        if a.pw.graphemes > 128 {
            fail!("impl-vs-oracle", "long-password-accepted", "at most 128 graphemes".to_string(), format!("accepted {} graphemes", a.pw.graphemes));
        }
        for b in &a.badlist {
            if caseless_eq(b, &a.pw.s) {
                let only_sigma = b.to_lowercase().replace('ς', "σ") == a.pw.s.to_lowercase().replace('ς', "σ") && b.to_lowercase() != a.pw.s.to_lowercase();
                let class = if only_sigma { "casefold-final-sigma" } else { "badlisted-password-accepted" };
                fail!("impl-vs-oracle", class, format!("refused: equals the badlist entry {b:?} ignoring case"), format!("accepted {:?}", a.pw.s));
            }
        }
    }
    out.us_score = us_score.get();
    out
}

// ------------------------------------------------------------------------------------------

fn lower_stream(drv: &mut Driver, rep: &mut Report, seed: u64, n: u64) {
    const ALPHA: &[char] = &['a', 'b', 'Z', 'Q', 'x', '7', '-', ' ', 'Σ', 'σ', 'ς', 'Ο', 'ο', 'Α', 'ω', 'Ω', 'Θ', 'λ', 'Σ', 'Σ'];
    let mut lines = vec![];
    let mut texts = vec![];
    for i in 0..n {
        let mut rng = Rng::for_case(seed ^ 0x10_3E12, i);
        let len = rng.below(9);
        let s: String = (0..len).map(|_| *rng.pick(ALPHA)).collect();
        lines.push(format!("lowg {}", cps(&s)));
        texts.push(s);
    }
    let replies = drv.ask_batch(&lines);
    for (s, m) in texts.iter().zip(replies.iter()) {
        let real = cps(&s.to_lowercase());
        rep.count("lower:cases");
        if s.contains('Σ') {
            rep.count("lower:with-capital-sigma");
        }
        if &real != m {
            rep.fail(Failure {
                kind: "impl-vs-model".into(),
                class: "unclassified".into(),
                input: json!({"lower": s}),
                expected: format!("lowerGreek = {m}"),
                observed: format!("str::to_lowercase = {real}"),
            });
        }
    }
}

fn main() {
    if std::env::var_os("RUST_LOG").is_none() {
        std::env::set_var("RUST_LOG", "off");
    }
    let args = Args::parse();
    let rt = tokio::runtime::Builder::new_current_thread().enable_all().build().unwrap();
    let mut rep = Report::new(
        "pwquality",
        "one fresh account in 0-3 fresh policy groups, 1-9 requests through one password-setting path (credential update \
         session direct or via intent token: primary / unix set, delete, check-only, commit; or direct POSIX change), badlist \
         additions and policy changes interleaved; cleartexts at the effective minimum -1/0/+1, at 127/128/129 graphemes and \
         bytes, badlist entries in random case, weak, containing related inputs / the RADIUS secret, random, malformed; \
         non-trivial = a quality gate ran (request answered Ok or PasswordQuality) and the stored credentials were observed; \
         distinct = distinct (path, policies, requests)",
    );
    let mut drv = Driver::spawn(&args.driver);
    let mut w = rt.block_on(World::new(0));

    let mut run = |w: &mut World, drv: &mut Driver, rep: &mut Report, c: Case| {
        if w.accounts >= 250 {
            let n = w.case_no;
            *w = rt.block_on(World::new(n));
            rep.count("fresh-server");
        }
        let out = rt.block_on(exec_case(w, drv, &c));
        for k in &out.counts {
            match k.strip_prefix("us:").and_then(|r| r.split_once('=')) {
                Some((name, v)) => rep.count_n(&format!("ms-cumulative:{name}"), v.parse::<u64>().unwrap() / 1000),
                None => rep.count(k),
            }
        }
        rep.count(&format!("path:{}", c.path));
        for k in c.kind.split('+') {
            rep.count(&format!("kind:{k}"));
        }
        rep.count_n("accepted-requests", out.accepted as u64);
        rep.count_n("ms:harness-zxcvbn", (out.us_score / 1000) as u64);
        rep.count_n("ms:server-set-requests", (out.us_requests / 1000) as u64);
        rep.count_n("stored-fresh-credentials", out.stored_fresh as u64);
        let key = format!("{}|{}|{}|{}|{}", c.path, pols_str(&c.policies), out.outcomes.join(";"), c.ops.len(), c.name);
        rep.case(if out.gate_ran { Some(key) } else { None });
        if rep.samples.len() < 5 && out.stored_fresh > 0 && rep.evaluations % 11 == 3 {
            rep.sample(json!({"path": c.path, "kind": c.kind, "policies": pols_str(&c.policies), "outcomes": out.outcomes}));
        }
        for f in out.failures {
            // every failure is counted by class; at most 5 witnesses per class are kept, so that the many
            // witnesses of a known class can never crowd an unknown one out of the bounded report
            let k = format!("failure-class:{}:{}", f.kind, f.class);
            rep.count(&k);
            if rep.histogram[&k] <= 5 {
                rep.fail(f);
            }
        }
    };

    if let Some(path) = &args.replay {
        let j: J = serde_json::from_str(&std::fs::read_to_string(path).expect("replay file")).expect("replay json");
        let input = if j.get("input").is_some() { j["input"].clone() } else { j };
        if input.get("lower").is_some() {
            let s = input["lower"].as_str().unwrap().to_string();
            let m = drv.ask(&format!("lowg {}", cps(&s)));
            let real = cps(&s.to_lowercase());
            if m != real {
                rep.fail(Failure { kind: "impl-vs-model".into(), class: "unclassified".into(), input, expected: m, observed: real });
            }
            rep.case(None);
        } else {
            run(&mut w, &mut drv, &mut rep, Case::from_json(&input));
        }
    } else {
        // regression corpus first: D11 (fixed) — policy minimum 30, 20-character POSIX password must be refused,
        // 30 accepted; through the credential update session likewise
        for (k, path) in ["posix", "cu", "cu-intent"].iter().enumerate() {
            let p20 = Pw { s: "c0rrect-h0rse-batt3r".into(), graphemes: 20 };
            let p30 = Pw { s: "c0rrect-h0rse-batt3ry-stapl3-x".into(), graphemes: 30 };
            let ops = if *path == "posix" {
                vec![Op::Direct(p20), Op::Direct(p30)]
            } else {
                vec![Op::Su(p20.clone()), Op::Sp(p20), Op::Su(p30.clone()), Op::Sp(p30)]
            };
            let c = Case {
                kind: "regression-D11".into(),
                path: path.to_string(),
                name: format!("c31d11x{k}s{}", args.seed % 100_000),
                display: "Dee Eleven".into(),
                posix: true,
                old_primary: 1,
                old_unix: true,
                radius: None,
                mail: None,
                policies: vec![(Some(30), None)],
                badlist: BADLIST.iter().map(|s| s.to_string()).collect(),
                ops,
            };
            run(&mut w, &mut drv, &mut rep, c);
        }
        let n = args.extra.get("cases").map(|v| v.parse::<u64>().expect("--cases N")).unwrap_or_else(|| args.cases(500, 9000));
        for i in 0..n {
            run(&mut w, &mut drv, &mut rep, gen_case(args.seed, i));
        }
        // known finding D28 (kept on by default): final-sigma probe through every path
        for i in 0..args.cases(12, 60) {
            run(&mut w, &mut drv, &mut rep, sigma_case(args.seed, i));
        }
        lower_stream(&mut drv, &mut rep, args.seed, args.cases(4000, 60000));
    }
    rep.model_requests = drv.requests;
    rep.write(&args.out);
    println!(
        "c31: {} cases, {} non-trivial, {} failures, {} model requests",
        rep.evaluations,
        rep.nontrivial_keys.len(),
        rep.failures.len(),
        drv.requests
    );
}
