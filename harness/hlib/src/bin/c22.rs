//! C22 — SPNs are always name@domain.
//!
//! Drives a real in-memory server (`testkit::setup_test`; `internal_create`, `internal_modify`,
//! `internal_batch_modify`, `danger_domain_rename`, `internal_delete`, `revive_recycled`; one
//! committed write transaction per operation, dropped on error) and the Lean model (`km_c22`)
//! with the same history, a fresh server per history.
//!
//! After **every** operation (and on the freshly booted server):
//! * oracle (implementation only, written from the property text): for every live entry of
//!   the whole database with class `account` or `group` — built-in entries included — the
//!   `spn` attribute exists, has SPN syntax and exactly one value, the entry has exactly one
//!   `name`, and the spn's string form equals `name + "@" + domain`, where `domain` is the
//!   `domain_name` of the `domain_info` entry, which must also be what the transaction reports
//!   as its domain name;
//! * correspondence: result kind (ok / error class) and the name / spn / class / live-recycled
//!   state of *every* account and group of the database, plus both domain names, equal the
//!   model's prediction; the model's own `inv` flag (the theorems' hypothesis, evaluated by the
//!   driver on the state it shows) must stay 1.
//!
//! Streams (histogram prefix): `dir:` directed histories, `h:` random histories inside the
//! property's quantifier (creates of users, groups, service accounts — with or without a
//! caller-supplied spn of any shape —, renames, direct writes of spn, domain renames, deletes,
//! revives, name collisions), `adv:` histories that additionally purge / add / remove names and
//! create nameless groups.  The `adv:` stream is outside the property's quantifier ("creates and
//! renames"): there an entry *without a name* is exempt from the name@domain comparison (it still
//! must have exactly one spn) and is counted under `adv:nameless-live-entries`.
//!
//! Failure classes: `spn-missing`, `spn-not-single`, `spn-not-name-at-domain`, `nameless-entry`,
//! `domain-names-differ` (oracle); `result`, `state`, `model-inv` (correspondence).
use hlib::*;
use kanidmd_lib::entry::{Entry, EntryInit, EntryNew};
use kanidmd_lib::event::ReviveRecycledEvent;
use kanidmd_lib::prelude::*;
use kanidmd_lib::testkit::{setup_test, TestConfiguration};
use serde_json::{json, Value as J};
use std::collections::{BTreeMap, BTreeSet};

const NIDS: u8 = 10;

// ---------------------------------------------------------------------------------------------
// operations (token syntax = the Lean driver's request syntax)
// ---------------------------------------------------------------------------------------------

#[derive(Clone, Debug, PartialEq, Eq)]
enum SpnIn {
    Absent,
    Spn(Vec<(String, String)>),
    Stash(String),
    Other,
}

#[derive(Clone, Debug, PartialEq, Eq)]
struct Cand {
    id: u8,
    kind: char, // g | p | s
    name: Option<String>,
    spn: SpnIn,
}

#[derive(Clone, Debug, PartialEq, Eq)]
enum Md {
    PurgeName,
    PresName(String),
    RemName(String),
    PurgeSpn,
    PresSpn(String, String),
    RemSpn(String, String),
}

#[derive(Clone, Debug, PartialEq, Eq)]
enum Op {
    Create(Vec<Cand>),
    /// `batch` = through `internal_batch_modify` (same modlist for every uuid)
    Modify { ids: Vec<u8>, mods: Vec<Md>, batch: bool },
    /// `batch` = a batch modify of `domain_info` instead of `danger_domain_rename`
    DRename { dom: String, batch: bool },
    Delete(Vec<u8>),
    Revive(Vec<u8>),
}

fn ids_tok(v: &[u8]) -> String {
    if v.is_empty() {
        "-".into()
    } else {
        v.iter().map(|x| x.to_string()).collect::<Vec<_>>().join(",")
    }
}

fn parse_ids(s: &str) -> Vec<u8> {
    if s == "-" {
        vec![]
    } else {
        s.split(',').map(|x| x.parse().expect("id")).collect()
    }
}

impl Cand {
    fn token(&self) -> String {
        let spn = match &self.spn {
            SpnIn::Absent => "-".to_string(),
            SpnIn::Other => "O".to_string(),
            SpnIn::Stash(n) => format!("I={n}"),
            SpnIn::Spn(v) => format!("S={}", v.iter().map(|(n, d)| format!("{n}@{d}")).collect::<Vec<_>>().join(";")),
        };
        format!("{}/{}/L/{}/{}", self.id, self.kind, self.name.clone().unwrap_or("-".into()), spn)
    }
    fn parse(s: &str) -> Cand {
        let p: Vec<&str> = s.split('/').collect();
        assert_eq!(p.len(), 5, "bad candidate {s}");
        let spn = match p[4] {
            "-" => SpnIn::Absent,
            "O" => SpnIn::Other,
            x if x.starts_with("I=") => SpnIn::Stash(x[2..].to_string()),
            x if x.starts_with("S=") => SpnIn::Spn(
                x[2..].split(';').map(|q| { let (n, d) = q.split_once('@').expect("pair"); (n.to_string(), d.to_string()) }).collect(),
            ),
            x => panic!("bad spn {x}"),
        };
        Cand {
            id: p[0].parse().expect("id"),
            kind: p[1].chars().next().unwrap(),
            name: if p[3] == "-" { None } else { Some(p[3].to_string()) },
            spn,
        }
    }
}

impl Md {
    fn token(&self) -> String {
        match self {
            Md::PurgeName => "pn".into(),
            Md::PresName(n) => format!("+n={n}"),
            Md::RemName(n) => format!("-n={n}"),
            Md::PurgeSpn => "ps".into(),
            Md::PresSpn(n, d) => format!("+s={n}@{d}"),
            Md::RemSpn(n, d) => format!("-s={n}@{d}"),
        }
    }
    fn parse(s: &str) -> Md {
        let pair = |x: &str| { let (n, d) = x.split_once('@').expect("pair"); (n.to_string(), d.to_string()) };
        match s {
            "pn" => Md::PurgeName,
            "ps" => Md::PurgeSpn,
            x if x.starts_with("+n=") => Md::PresName(x[3..].into()),
            x if x.starts_with("-n=") => Md::RemName(x[3..].into()),
            x if x.starts_with("+s=") => { let (n, d) = pair(&x[3..]); Md::PresSpn(n, d) }
            x if x.starts_with("-s=") => { let (n, d) = pair(&x[3..]); Md::RemSpn(n, d) }
            x => panic!("bad mod {x}"),
        }
    }
}

impl Op {
    /// Request understood by the Lean driver (the `batch` variants are the same model operation).
    fn model_token(&self) -> String {
        match self {
            Op::Create(cs) => format!("create {}", cs.iter().map(|c| c.token()).collect::<Vec<_>>().join(" ")),
            Op::Modify { ids, mods, .. } => format!("modify {} {}", ids_tok(ids), mods.iter().map(|m| m.token()).collect::<Vec<_>>().join(" ")),
            Op::DRename { dom, .. } => format!("drename {dom}"),
            Op::Delete(ids) => format!("delete {}", ids_tok(ids)),
            Op::Revive(ids) => format!("revive {}", ids_tok(ids)),
        }
    }
    /// Replayable form (keeps the batch flag).
    fn token(&self) -> String {
        match self {
            Op::Modify { batch: true, .. } => format!("b{}", self.model_token()),
            Op::DRename { batch: true, .. } => format!("b{}", self.model_token()),
            _ => self.model_token(),
        }
    }
    fn parse(s: &str) -> Op {
        let p: Vec<&str> = s.split_whitespace().collect();
        match p[0] {
            "create" => Op::Create(p[1..].iter().map(|c| Cand::parse(c)).collect()),
            "modify" | "bmodify" => Op::Modify { ids: parse_ids(p[1]), mods: p[2..].iter().map(|m| Md::parse(m)).collect(), batch: p[0] == "bmodify" },
            "drename" | "bdrename" => Op::DRename { dom: p[1].to_string(), batch: p[0] == "bdrename" },
            "delete" => Op::Delete(parse_ids(p[1])),
            "revive" => Op::Revive(parse_ids(p[1])),
            x => panic!("bad op {x}"),
        }
    }
}

// ---------------------------------------------------------------------------------------------
// the implementation side
// ---------------------------------------------------------------------------------------------

fn uuid_of(id: u8) -> Uuid {
    nat_uuid(0x2200_0000_0000 + id as u64)
}

struct World {
    rt: tokio::runtime::Runtime,
    qs: QueryServer,
    ct: Duration,
}

impl World {
    fn new() -> World {
        let rt = tokio::runtime::Builder::new_current_thread().enable_all().build().unwrap();
        let qs = rt.block_on(setup_test(TestConfiguration::default()));
        World { rt, qs, ct: duration_from_epoch_now() }
    }
}

fn to_mod(m: &Md) -> Modify {
    match m {
        Md::PurgeName => Modify::Purged(Attribute::Name),
        Md::PresName(n) => Modify::Present(Attribute::Name, Value::new_iname(n)),
        Md::RemName(n) => Modify::Removed(Attribute::Name, PartialValue::new_iname(n)),
        Md::PurgeSpn => Modify::Purged(Attribute::Spn),
        Md::PresSpn(n, d) => Modify::Present(Attribute::Spn, Value::new_spn_str(n, d)),
        Md::RemSpn(n, d) => Modify::Removed(Attribute::Spn, PartialValue::new_spn_nrs(n, d)),
    }
}

fn uuid_filter(ids: &[u8]) -> FC {
    f_or(ids.iter().map(|i| f_eq(Attribute::Uuid, PartialValue::Uuid(uuid_of(*i)))).collect())
}

fn err_kind(e: &OperationError) -> String {
    match e {
        OperationError::EmptyRequest => "err:empty".into(),
        OperationError::Plugin(PluginError::Base(_)) => "err:exists".into(),
        OperationError::InvalidEntryState => "err:spn".into(),
        OperationError::AttributeUniqueness(_) => "err:unique".into(),
        OperationError::SchemaViolation(_) => "err:schema".into(),
        OperationError::NoMatchingEntries => "err:nomatch".into(),
        other => format!("err:other:{other:?}"),
    }
}

/// One operation = one write transaction; `Ok` commits, `Err` drops the transaction.
fn exec_op(w: &mut World, op: &Op) -> String {
    w.ct += Duration::from_secs(1);
    let mut txn = match w.rt.block_on(w.qs.write(w.ct)) {
        Ok(t) => t,
        Err(e) => return format!("err:write:{e:?}"),
    };
    let r: Result<(), OperationError> = match op {
        Op::Create(cs) => {
            let es: Vec<Entry<EntryInit, EntryNew>> = cs
                .iter()
                .map(|c| {
                    let mut e: Entry<EntryInit, EntryNew> = Entry::new();
                    e.add_ava(Attribute::Class, EntryClass::Object.to_value());
                    match c.kind {
                        'g' => e.add_ava(Attribute::Class, EntryClass::Group.to_value()),
                        'p' => {
                            e.add_ava(Attribute::Class, EntryClass::Account.to_value());
                            e.add_ava(Attribute::Class, EntryClass::Person.to_value());
                            e.add_ava(Attribute::DisplayName, Value::new_utf8s("C22 Person"));
                        }
                        's' => {
                            e.add_ava(Attribute::Class, EntryClass::Account.to_value());
                            e.add_ava(Attribute::Class, EntryClass::ServiceAccount.to_value());
                            e.add_ava(Attribute::DisplayName, Value::new_utf8s("C22 Service"));
                        }
                        k => panic!("bad kind {k}"),
                    }
                    e.add_ava(Attribute::Uuid, Value::Uuid(uuid_of(c.id)));
                    if let Some(n) = &c.name {
                        e.add_ava(Attribute::Name, Value::new_iname(n));
                    }
                    match &c.spn {
                        SpnIn::Absent => {}
                        SpnIn::Spn(v) => {
                            for (n, d) in v {
                                e.add_ava(Attribute::Spn, Value::new_spn_str(n, d));
                            }
                        }
                        SpnIn::Stash(n) => e.add_ava(Attribute::Spn, Value::new_iname(n)),
                        SpnIn::Other => e.add_ava(Attribute::Spn, Value::new_utf8s("someone@invalid_domain.example")),
                    }
                    e
                })
                .collect();
            txn.internal_create(es)
        }
        Op::Modify { ids, mods, batch } => {
            let ml = ModifyList::new_list(mods.iter().map(to_mod).collect());
            if *batch {
                // the batch path takes uuids; restrict to live entries like the filter path does
                let live: Vec<Uuid> = match txn.internal_search(Filter::new_ignore_hidden(uuid_filter(ids))) {
                    Ok(es) => es.iter().map(|e| e.get_uuid()).collect(),
                    Err(e) => return err_kind(&e),
                };
                if live.is_empty() {
                    Ok(())
                } else {
                    txn.internal_batch_modify(live.into_iter().map(|u| (u, ml.clone())))
                }
            } else {
                txn.internal_modify(&Filter::new_ignore_hidden(uuid_filter(ids)), &ml)
            }
        }
        Op::DRename { dom, batch } => {
            if *batch {
                let ml = ModifyList::new_purge_and_set(Attribute::DomainName, Value::new_iname(dom));
                txn.internal_batch_modify(std::iter::once((UUID_DOMAIN_INFO, ml)))
            } else {
                txn.danger_domain_rename(dom)
            }
        }
        Op::Delete(ids) => txn.internal_delete(&Filter::new_ignore_hidden(uuid_filter(ids))),
        Op::Revive(ids) => {
            // the recycle-bin API, performed by admin
            match txn.internal_search_uuid(UUID_ADMIN) {
                Err(e) => Err(e),
                Ok(admin) => {
                    let ident = Identity::from_impersonate_entry_readwrite(admin);
                    let f = Filter::new(f_and(vec![f_eq(Attribute::Class, EntryClass::Recycled.into()), uuid_filter(ids)]));
                    match ReviveRecycledEvent::from_parts(ident, &f, &txn) {
                        Ok(re) => txn.revive_recycled(&re),
                        Err(e) => Err(e),
                    }
                }
            }
        }
    };
    match r {
        Ok(()) => match txn.commit() {
            Ok(()) => "ok".into(),
            Err(e) => format!("err:commit:{e:?}"),
        },
        Err(e) => err_kind(&e),
    }
}

#[derive(Clone, Debug)]
struct ObsEntry {
    uuid: Uuid,
    grp: bool,
    acct: bool,
    live: bool,
    names: Vec<String>,
    /// None = attribute absent
    spn: Option<ObsSpn>,
}

#[derive(Clone, Debug)]
struct ObsSpn {
    is_spn_syntax: bool,
    values: Vec<String>,
}

#[derive(Clone, Debug, Default)]
struct Obs {
    dom_db: Option<String>,
    dom_txn: String,
    entries: Vec<ObsEntry>,
}

/// Everything the oracle and the comparison need, read in one read transaction.
fn observe(w: &mut World) -> Result<Obs, String> {
    let mut r = w.rt.block_on(w.qs.read()).map_err(|e| format!("read:{e:?}"))?;
    let dom_txn = r.get_domain_name().to_string();
    let di = r.internal_search_uuid(UUID_DOMAIN_INFO).map_err(|e| format!("domain_info:{e:?}"))?;
    let dom_vals: Vec<String> = di.get_ava_set(Attribute::DomainName).map(|vs| vs.to_proto_string_clone_iter().collect()).unwrap_or_default();
    let dom_db = if dom_vals.len() == 1 { Some(dom_vals[0].clone()) } else { None };
    // every account and group, live or recycled (no hidden-entry wrapper)
    let f = Filter::new(f_or(vec![
        f_eq(Attribute::Class, EntryClass::Group.into()),
        f_eq(Attribute::Class, EntryClass::Account.into()),
    ]));
    let es = r.internal_search(f).map_err(|e| format!("search:{e:?}"))?;
    let mut entries = vec![];
    for e in es.iter() {
        if e.attribute_equality(Attribute::Class, &EntryClass::Tombstone.into()) {
            continue;
        }
        let names: Vec<String> = e.get_ava_set(Attribute::Name).map(|vs| vs.to_proto_string_clone_iter().collect()).unwrap_or_default();
        let spn = e.get_ava_set(Attribute::Spn).map(|vs| ObsSpn {
            is_spn_syntax: vs.syntax() == SyntaxType::SecurityPrincipalName,
            values: vs.to_proto_string_clone_iter().collect(),
        });
        entries.push(ObsEntry {
            uuid: e.get_uuid(),
            grp: e.attribute_equality(Attribute::Class, &EntryClass::Group.into()),
            acct: e.attribute_equality(Attribute::Class, &EntryClass::Account.into()),
            live: !e.attribute_equality(Attribute::Class, &EntryClass::Recycled.into()),
            names,
            spn,
        });
    }
    Ok(Obs { dom_db, dom_txn, entries })
}

/// uuid → model id: the history's own entries keep their small ids, everything that exists when
/// the history starts (built-in accounts and groups) is numbered 1000.. in uuid order.
struct IdMap(BTreeMap<Uuid, u64>);

impl IdMap {
    fn new(initial: &Obs) -> IdMap {
        let mut m = BTreeMap::new();
        for i in 1..=NIDS {
            m.insert(uuid_of(i), i as u64);
        }
        let mut others: Vec<Uuid> = initial.entries.iter().map(|e| e.uuid).filter(|u| !m.contains_key(u)).collect();
        others.sort();
        for (k, u) in others.into_iter().enumerate() {
            m.insert(u, 1000 + k as u64);
        }
        IdMap(m)
    }
    fn id(&self, u: &Uuid) -> u64 {
        *self.0.get(u).unwrap_or(&99999)
    }
}

fn entry_token(e: &ObsEntry, ids: &IdMap) -> String {
    let kind = match (e.grp, e.acct) {
        (true, true) => "ga",
        (true, false) => "g",
        (false, true) => "a",
        (false, false) => "o",
    };
    let mut names = e.names.clone();
    names.sort();
    let spn = match &e.spn {
        None => "-".to_string(),
        Some(s) if s.is_spn_syntax => {
            let mut v = s.values.clone();
            v.sort();
            format!("S={}", v.join(";"))
        }
        Some(_) => "O".to_string(),
    };
    format!(
        "{}/{}/{}/{}/{}",
        ids.id(&e.uuid),
        kind,
        if e.live { "L" } else { "R" },
        if names.is_empty() { "-".to_string() } else { names.join(",") },
        spn
    )
}

fn entries_tokens(obs: &Obs, ids: &IdMap) -> Vec<String> {
    let mut v: Vec<(u64, String)> = obs.entries.iter().map(|e| (ids.id(&e.uuid), entry_token(e, ids))).collect();
    v.sort();
    v.into_iter().map(|(_, t)| t).collect()
}

/// The model's `<state>` for the observed implementation state.
fn state_string(obs: &Obs, ids: &IdMap) -> String {
    let mut parts = vec![obs.dom_txn.clone(), obs.dom_db.clone().unwrap_or("?".into())];
    parts.extend(entries_tokens(obs, ids));
    parts.join(" ")
}

// ---------------------------------------------------------------------------------------------
// the oracle (property text only)
// ---------------------------------------------------------------------------------------------

struct OracleHit {
    class: &'static str,
    detail: String,
}

/// Returns (violations, live accounts/groups checked, nameless live entries seen).
fn oracle(obs: &Obs, adversarial: bool) -> (Vec<OracleHit>, u64, u64) {
    let mut hits = vec![];
    let mut checked = 0;
    let mut nameless = 0;
    let domain = match &obs.dom_db {
        Some(d) => d.clone(),
        None => {
            hits.push(OracleHit { class: "domain-names-differ", detail: "domain_info has no single domain_name".into() });
            return (hits, 0, 0);
        }
    };
    if domain != obs.dom_txn {
        hits.push(OracleHit {
            class: "domain-names-differ",
            detail: format!("domain_info.domain_name = {domain}, transaction reports {}", obs.dom_txn),
        });
    }
    for e in obs.entries.iter().filter(|e| e.live && (e.grp || e.acct)) {
        checked += 1;
        let who = format!("{} ({})", e.uuid, e.names.join(","));
        let spn = match &e.spn {
            None => {
                hits.push(OracleHit { class: "spn-missing", detail: format!("{who}: no spn attribute") });
                continue;
            }
            Some(s) => s,
        };
        if !spn.is_spn_syntax || spn.values.len() != 1 {
            hits.push(OracleHit { class: "spn-not-single", detail: format!("{who}: spn values {:?} (spn syntax: {})", spn.values, spn.is_spn_syntax) });
            continue;
        }
        if e.names.len() != 1 {
            nameless += 1;
            if !adversarial {
                hits.push(OracleHit { class: "nameless-entry", detail: format!("{who}: {} name values, spn {}", e.names.len(), spn.values[0]) });
            }
            continue;
        }
        let expected = format!("{}@{}", e.names[0], domain);
        if spn.values[0] != expected {
            hits.push(OracleHit { class: "spn-not-name-at-domain", detail: format!("{who}: spn {} expected {expected}", spn.values[0]) });
        }
    }
    (hits, checked, nameless)
}

// ---------------------------------------------------------------------------------------------
// running one history
// ---------------------------------------------------------------------------------------------

#[derive(Default)]
struct Stats {
    ops_ok: u64,
    results: BTreeMap<String, u64>,
    oracle_checked: u64,
    nameless_seen: u64,
    effective_domain_renames: u64,
    entries_regenerated_by_domain_rename: u64,
    revived_with_stale_spn: u64,
    supplied_spn_overwritten: u64,
    ok_create_group: bool,
    ok_create_account: bool,
    ok_rename: bool,
    max_live_own_at_domain_rename: usize,
}

struct Fail {
    kind: &'static str,
    class: String,
    step: usize,
    expected: String,
    observed: String,
}

fn first_diff(a: &str, b: &str) -> String {
    let (ta, tb): (Vec<&str>, Vec<&str>) = (a.split(' ').collect(), b.split(' ').collect());
    for i in 0..ta.len().max(tb.len()) {
        let (x, y) = (ta.get(i).copied().unwrap_or("<none>"), tb.get(i).copied().unwrap_or("<none>"));
        if x != y {
            return format!("token {i}: model `{x}` implementation `{y}`");
        }
    }
    "equal".into()
}

/// Runs `ops` on a fresh server and the model; stops at the first failure.
fn run_history(drv: &mut Driver, ops: &[Op], adversarial: bool, st: &mut Stats) -> Option<Fail> {
    let mut w = World::new();
    let obs0 = match observe(&mut w) {
        Ok(o) => o,
        Err(e) => return Some(Fail { kind: "impl-vs-model", class: "observe".into(), step: 0, expected: "readable state".into(), observed: e }),
    };
    let ids = IdMap::new(&obs0);
    // the booted server itself must satisfy the property …
    let (hits, checked, _) = oracle(&obs0, false);
    st.oracle_checked += checked;
    if let Some(h) = hits.first() {
        return Some(Fail { kind: "impl-vs-oracle", class: h.class.into(), step: 0, expected: "spn = name@domain on the booted server".into(), observed: h.detail.clone() });
    }
    // … and the model starts from exactly that state, which must satisfy the theorems' hypotheses
    let init = format!("init {} {}", obs0.dom_txn, entries_tokens(&obs0, &ids).join(" "));
    let reply = drv.ask(&init);
    let want = format!("ok inv=1 named=1 {}", state_string(&obs0, &ids));
    if reply != want {
        return Some(Fail { kind: "impl-vs-model", class: "state".into(), step: 0, expected: reply.chars().take(300).collect(), observed: format!("initial state: {}", first_diff(&reply, &want)) });
    }
    let mut prev = obs0;
    for (k, op) in ops.iter().enumerate() {
        let step = k + 1;
        let res = std::panic::catch_unwind(std::panic::AssertUnwindSafe(|| exec_op(&mut w, op))).unwrap_or_else(|_| "panic".into());
        let obs = match observe(&mut w) {
            Ok(o) => o,
            Err(e) => return Some(Fail { kind: "impl-vs-model", class: "observe".into(), step, expected: "readable state".into(), observed: e }),
        };
        *st.results.entry(format!("{}:{}", op.model_token().split(' ').next().unwrap(), res.split(':').take(2).collect::<Vec<_>>().join(":"))).or_insert(0) += 1;
        // ---- oracle
        let (hits, checked, nameless) = oracle(&obs, adversarial);
        st.oracle_checked += checked;
        st.nameless_seen += nameless;
        if let Some(h) = hits.first() {
            return Some(Fail { kind: "impl-vs-oracle", class: h.class.into(), step, expected: "every live account/group: exactly one spn = name@domain".into(), observed: format!("after `{}` ({res}): {}", op.token(), h.detail) });
        }
        // ---- correspondence
        let reply = drv.ask(&format!("op {}", op.model_token()));
        let mut it = reply.splitn(4, ' ');
        let (m_res, m_inv, _m_named, m_state) = (it.next().unwrap_or(""), it.next().unwrap_or(""), it.next().unwrap_or(""), it.next().unwrap_or(""));
        if m_res != res {
            return Some(Fail { kind: "impl-vs-model", class: "result".into(), step, expected: format!("model: {m_res}"), observed: format!("implementation: {res} on `{}`", op.token()) });
        }
        let i_state = state_string(&obs, &ids);
        if m_state != i_state {
            return Some(Fail { kind: "impl-vs-model", class: "state".into(), step, expected: format!("model state after `{}`", op.token()), observed: first_diff(m_state, &i_state) });
        }
        if m_inv != "inv=1" {
            return Some(Fail { kind: "impl-vs-model", class: "model-inv".into(), step, expected: "inv=1".into(), observed: format!("{m_inv} after `{}`", op.token()) });
        }
        // ---- statistics for the non-triviality rule
        if res == "ok" {
            st.ops_ok += 1;
            match op {
                Op::Create(cs) => {
                    for c in cs {
                        if c.kind == 'g' { st.ok_create_group = true } else { st.ok_create_account = true }
                        if c.spn != SpnIn::Absent && c.name.is_some() {
                            st.supplied_spn_overwritten += 1;
                        }
                    }
                }
                Op::Modify { mods, .. } => {
                    if mods.iter().any(|m| matches!(m, Md::PresName(_))) {
                        st.ok_rename = true;
                    }
                }
                Op::DRename { .. } => {
                    if obs.dom_db != prev.dom_db {
                        st.effective_domain_renames += 1;
                        let own_live = obs.entries.iter().filter(|e| e.live && ids.id(&e.uuid) < 1000).count();
                        st.max_live_own_at_domain_rename = st.max_live_own_at_domain_rename.max(own_live);
                        st.entries_regenerated_by_domain_rename += obs.entries.iter().filter(|e| e.live).count() as u64;
                    }
                }
                Op::Revive(rids) => {
                    for i in rids {
                        if let Some(pe) = prev.entries.iter().find(|e| e.uuid == uuid_of(*i) && !e.live) {
                            let stale = pe.spn.as_ref().map(|s| s.values.iter().any(|v| !v.ends_with(&format!("@{}", prev.dom_txn)))).unwrap_or(false);
                            if stale {
                                st.revived_with_stale_spn += 1;
                            }
                        }
                    }
                }
                Op::Delete(_) => {}
            }
        }
        prev = obs;
    }
    None
}

// ---------------------------------------------------------------------------------------------
// generators
// ---------------------------------------------------------------------------------------------

const DOMAINS: [&str; 5] = ["example.com", "idm.corp.example", "b.test", "c22.kanidm.dev", "x"];

/// Generator-side bookkeeping (best effort: used to aim operations, never as an expectation).
#[derive(Default)]
struct Sim {
    live: BTreeSet<u8>,
    recycled: BTreeSet<u8>,
    kind: BTreeMap<u8, char>,
    dom: String,
}

fn gen_history(r: &mut Rng, case: u64, adversarial: bool) -> Vec<Op> {
    let names: Vec<String> = (0..8).map(|k| format!("c{case}n{k}")).collect();
    let mut sim = Sim { dom: "example.com".into(), ..Default::default() };
    let n = r.range(14, 34) as usize;
    let mut ops = vec![];
    let pick_name = |r: &mut Rng| names[r.below(names.len() as u64) as usize].clone();
    let gen_spn = |r: &mut Rng, name: &Option<String>, dom: &str, adversarial: bool| -> SpnIn {
        let n = name.clone().unwrap_or_else(|| "ghost".into());
        match r.below(20) {
            0..=8 => SpnIn::Absent,
            9..=11 => SpnIn::Spn(vec![(n, "evil.example".into())]),
            12 => SpnIn::Spn(vec![(n, dom.into())]),
            13 => SpnIn::Spn(vec![("other".into(), dom.into())]),
            14..=15 => SpnIn::Spn(vec![(n.clone(), "evil.example".into()), ("second".into(), dom.into())]),
            16..=17 => SpnIn::Stash(format!("stash{}", r.below(3))),
            // a value of another syntax under a nameless entry trips a debug assertion of the
            // valueset accessor (`to_iname_single`), not part of any release build: avoided
            _ => if name.is_some() || !adversarial { SpnIn::Other } else { SpnIn::Absent },
        }
    };
    for _ in 0..n {
        let roll = r.below(100);
        let free: Vec<u8> = (1..=NIDS).filter(|i| !sim.live.contains(i) && !sim.recycled.contains(i)).collect();
        let live: Vec<u8> = sim.live.iter().copied().collect();
        let rec: Vec<u8> = sim.recycled.iter().copied().collect();
        let op = if (roll < 28 || live.len() < 2) && !free.is_empty() {
            // ---- create (1 or 2 candidates)
            let k = if r.chance(1, 8) && free.len() >= 2 { 2 } else { 1 };
            let mut cs = vec![];
            for j in 0..k {
                let id = if r.chance(1, 30) && !live.is_empty() { *r.pick(&live) } else { free[j] };
                let kind = *r.pick(&['g', 'g', 'p', 'p', 's']);
                let name = if adversarial && kind == 'g' && r.chance(1, 5) { None } else { Some(pick_name(r)) };
                let name = if adversarial && kind != 'g' && r.chance(1, 25) { None } else { name };
                let spn = gen_spn(r, &name, &sim.dom, adversarial);
                let spn = if name.is_none() && spn == SpnIn::Absent && r.chance(2, 3) { SpnIn::Stash(format!("stash{}", r.below(3))) } else { spn };
                cs.push(Cand { id, kind, name, spn });
            }
            for c in &cs {
                sim.live.insert(c.id);
                sim.kind.insert(c.id, c.kind);
            }
            Op::Create(cs)
        } else if roll < 52 && !live.is_empty() {
            // ---- rename (sometimes two entries at once: collides; sometimes with spn noise)
            let mut ids = vec![*r.pick(&live)];
            if r.chance(1, 12) && live.len() >= 2 {
                ids.push(*r.pick(&live));
                ids.dedup();
            }
            let mut mods = vec![Md::PurgeName, Md::PresName(pick_name(r))];
            if r.chance(1, 5) {
                mods.push(Md::PurgeSpn);
            }
            if r.chance(1, 5) {
                mods.push(Md::PresSpn("intruder".into(), sim.dom.clone()));
            }
            Op::Modify { ids, mods, batch: r.chance(1, 4) }
        } else if roll < 62 && !live.is_empty() {
            // ---- direct writes of spn
            let id = *r.pick(&live);
            let mods = match r.below(5) {
                0 => vec![Md::PurgeSpn],
                1 => vec![Md::PurgeSpn, Md::PresSpn("root".into(), sim.dom.clone())],
                2 => vec![Md::PresSpn("extra".into(), "evil.example".into())],
                3 => vec![Md::RemSpn(pick_name(r), sim.dom.clone())],
                _ => vec![Md::PresSpn(pick_name(r), sim.dom.clone()), Md::PresSpn("third".into(), sim.dom.clone())],
            };
            Op::Modify { ids: vec![id], mods, batch: r.chance(1, 4) }
        } else if roll < 74 {
            // ---- domain rename (now and then to the current name: no-op)
            let dom = r.pick(&DOMAINS).to_string();
            sim.dom = dom.clone();
            Op::DRename { dom, batch: r.chance(1, 5) }
        } else if roll < 84 && !live.is_empty() {
            let mut ids = vec![*r.pick(&live)];
            if r.chance(1, 4) {
                ids.push(*r.pick(&live));
                ids.dedup();
            }
            for i in &ids {
                sim.live.remove(i);
                sim.recycled.insert(*i);
            }
            Op::Delete(ids)
        } else if roll < 94 && !rec.is_empty() {
            let mut ids = vec![*r.pick(&rec)];
            if r.chance(1, 4) {
                ids.push(*r.pick(&rec));
                ids.dedup();
            }
            for i in &ids {
                sim.recycled.remove(i);
                sim.live.insert(*i);
            }
            Op::Revive(ids)
        } else if adversarial && !live.is_empty() {
            // ---- outside the quantifier: names purged, doubled, removed
            let id = *r.pick(&live);
            let mods = match r.below(4) {
                0 => vec![Md::PurgeName],
                1 => vec![Md::PresName(pick_name(r))],
                2 => vec![Md::RemName(pick_name(r))],
                _ => vec![Md::PurgeName, Md::PurgeSpn],
            };
            Op::Modify { ids: vec![id], mods, batch: false }
        } else if r.chance(1, 2) {
            // ---- targets that do not exist / are in the other state
            match r.below(3) {
                0 => Op::Delete(vec![NIDS]),
                1 => Op::Revive(vec![if live.is_empty() { NIDS } else { *r.pick(&live) }]),
                _ => Op::Modify { ids: vec![NIDS], mods: vec![Md::PurgeSpn], batch: false },
            }
        } else {
            let dom = r.pick(&DOMAINS).to_string();
            sim.dom = dom.clone();
            Op::DRename { dom, batch: false }
        };
        ops.push(op);
    }
    ops
}

fn directed() -> Vec<(&'static str, bool, Vec<&'static str>)> {
    vec![
        // plugins/spn.rs test_spn_regen_domain_rename, extended by the uuid2spn-independent checks
        ("domain-rename-regenerates", false, vec![
            "create 1/p/L/a_testperson1/- 2/g/L/testgroup/-",
            "drename new.example.com",
            "create 3/s/L/svc/-",
            "drename example.com",
        ]),
        // test_spn_validate_create / test_spn_validate_modify / test_spn_generate_modify
        ("caller-supplied-spn-is-overwritten", false, vec![
            "create 1/s/L/testperson/O",
            "create 2/p/L/other/S=other@invalid_domain.com",
            "modify 1 ps",
            "modify 1 ps +s=invalid@spn",
            "bmodify 2 +s=second@example.com",
            "modify 2 -s=other@example.com",
        ]),
        ("rename-then-domain-rename-then-revive", false, vec![
            "create 1/p/L/alice/-",
            "create 2/g/L/staff/-",
            "delete 1",
            "drename idm.corp.example",
            "modify 2 pn +n=crew",
            "revive 1",
            "bdrename b.test",
            "modify 1 pn +n=alicia ps",
        ]),
        ("name-collisions", false, vec![
            "create 1/p/L/sam/-",
            "create 2/g/L/sam/-",
            "create 2/g/L/sam2/- 3/g/L/sam2/-",
            "create 2/g/L/team/-",
            "modify 2 pn +n=sam",
            "delete 1",
            "modify 2 pn +n=sam",
            "revive 1",
            "modify 1,2 pn +n=both",
        ]),
        // outside the quantifier: a group may lose its name; it keeps its spn, and every later
        // domain rename fails (see notes/C22.md)
        ("nameless-group-blocks-domain-rename", true, vec![
            "create 1/g/L/crew/-",
            "modify 1 pn",
            "drename b.test",
            "create 2/g/L/-/I=stash0",
            "create 3/g/L/-/S=ghost@elsewhere.example",
            "modify 1 +n=crew2",
            "delete 2,3",
            "drename b.test",
        ]),
    ]
}

// ---------------------------------------------------------------------------------------------
// reporting
// ---------------------------------------------------------------------------------------------

fn ops_json(ops: &[Op]) -> J {
    J::Array(ops.iter().map(|o| J::String(o.token())).collect())
}

fn run_case(drv: &mut Driver, rep: &mut Report, prefix: &str, ops: &[Op], adversarial: bool) {
    let mut st = Stats::default();
    let fail = run_history(drv, ops, adversarial, &mut st);
    for (k, v) in &st.results {
        rep.count_n(&format!("{prefix}:{k}"), *v);
    }
    rep.count_n(&format!("{prefix}:oracle-entries-checked"), st.oracle_checked);
    rep.count_n(&format!("{prefix}:effective-domain-renames"), st.effective_domain_renames);
    rep.count_n(&format!("{prefix}:entries-regenerated-by-domain-rename"), st.entries_regenerated_by_domain_rename);
    rep.count_n(&format!("{prefix}:revived-with-stale-spn"), st.revived_with_stale_spn);
    rep.count_n(&format!("{prefix}:caller-supplied-spn-overwritten"), st.supplied_spn_overwritten);
    if adversarial {
        rep.count_n(&format!("{prefix}:nameless-live-entries"), st.nameless_seen);
    }
    let nontrivial = fail.is_none()
        && st.ok_create_group
        && st.ok_create_account
        && st.ok_rename
        && st.effective_domain_renames >= 1
        && st.max_live_own_at_domain_rename >= 2;
    let key = ops.iter().map(|o| o.token()).collect::<Vec<_>>().join(";");
    rep.case(if nontrivial { Some(key) } else { None });
    if nontrivial {
        rep.sample(json!({ "stream": prefix, "ops": ops_json(&ops[..ops.len().min(8)]), "ops_total": ops.len(), "ops_ok": st.ops_ok,
            "effective_domain_renames": st.effective_domain_renames, "oracle_entries_checked": st.oracle_checked }));
    }
    if let Some(f) = fail {
        // minimise: shortest prefix first, then drop operations while the same failure class remains
        let mut cur: Vec<Op> = ops[..f.step.min(ops.len())].to_vec();
        let class = f.class.clone();
        let kind = f.kind;
        cur = shrink_list(cur, |cand| {
            let mut s = Stats::default();
            matches!(run_history(drv, cand, adversarial, &mut s), Some(g) if g.class == class && g.kind == kind)
        });
        let mut s = Stats::default();
        let fin = run_history(drv, &cur, adversarial, &mut s).unwrap_or(f);
        rep.fail(Failure {
            kind: fin.kind.into(),
            class: fin.class.clone(),
            input: json!({ "adversarial": adversarial, "ops": ops_json(&cur) }),
            expected: fin.expected,
            observed: format!("step {}: {}", fin.step, fin.observed),
        });
    }
}

fn merge(into: &mut Report, from: Report) {
    into.evaluations += from.evaluations;
    into.nontrivial_keys.extend(from.nontrivial_keys);
    for (k, v) in from.histogram {
        *into.histogram.entry(k).or_insert(0) += v;
    }
    for s in from.samples {
        into.sample(s);
    }
    for f in from.failures {
        into.fail(f);
    }
    into.notes.extend(from.notes);
    into.model_requests += from.model_requests;
}

fn main() {
    if std::env::var_os("RUST_LOG").is_none() {
        std::env::set_var("RUST_LOG", "off");
    }
    let args = Args::parse();
    let mut rep = Report::new(
        "spn-histories",
        "histories of 14-34 write transactions on a fresh real server (create of users, groups, service accounts with and without a \
         caller-supplied spn, rename, direct spn writes, domain rename, delete, revive, name collisions; plus a stream that also purges / \
         doubles names and creates nameless groups); after every operation the oracle checks every live account and group of the whole \
         database (built-ins included) and the model is compared on result kind and the complete name/spn state; \
         non-trivial = the history creates a group and an account, renames one, and renames the domain effectively while at least two of its \
         own entries are live, all without a failure; distinct = distinct operation list",
    );
    if let Some(path) = &args.replay {
        let v: J = serde_json::from_str(&std::fs::read_to_string(path).unwrap()).unwrap();
        let ops: Vec<Op> = v["input"]["ops"].as_array().unwrap().iter().map(|s| Op::parse(s.as_str().unwrap())).collect();
        let adversarial = v["input"]["adversarial"].as_bool().unwrap_or(false);
        let mut drv = Driver::spawn(&args.driver);
        run_case(&mut drv, &mut rep, "replay", &ops, adversarial);
        rep.model_requests = drv.requests;
        rep.write(&args.out);
        println!("c22 replay: {} failures", rep.failures.len());
        return;
    }
    // ---- directed histories
    {
        let mut drv = Driver::spawn(&args.driver);
        for (name, adversarial, toks) in directed() {
            let ops: Vec<Op> = toks.iter().map(|t| Op::parse(t)).collect();
            run_case(&mut drv, &mut rep, "dir", &ops, adversarial);
            rep.count(&format!("dir:history:{name}"));
        }
        rep.model_requests += drv.requests;
    }
    // ---- random histories, in parallel slices (own server and own model process per history / slice)
    let n_in = args.cases(72, 1080);
    let n_adv = args.cases(24, 360);
    let parts: u64 = 6;
    let mut jobs: Vec<(bool, u64, u64)> = vec![];
    for k in 0..parts {
        jobs.push((false, n_in * k / parts, n_in * (k + 1) / parts));
        jobs.push((true, n_adv * k / parts, n_adv * (k + 1) / parts));
    }
    let results: Vec<Report> = std::thread::scope(|sc| {
        let handles: Vec<_> = jobs
            .iter()
            .map(|(adv, from, to)| {
                let a = &args;
                sc.spawn(move || {
                    let mut rep = Report::new("part", "");
                    let mut drv = Driver::spawn(&a.driver);
                    for c in *from..*to {
                        let case = if *adv { 1_000_000 + c } else { c };
                        let mut r = Rng::for_case(a.seed, case);
                        let ops = gen_history(&mut r, c, *adv);
                        run_case(&mut drv, &mut rep, if *adv { "adv" } else { "h" }, &ops, *adv);
                    }
                    rep.model_requests = drv.requests;
                    rep
                })
            })
            .collect();
        handles.into_iter().map(|h| h.join().expect("slice panicked")).collect()
    });
    for r in results {
        merge(&mut rep, r);
    }
    rep.write(&args.out);
    println!(
        "c22: {} histories, {} non-trivial, {} failures, {} model requests",
        rep.evaluations,
        rep.nontrivial_keys.len(),
        rep.failures.len(),
        rep.model_requests
    );
}
