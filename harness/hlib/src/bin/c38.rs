//! C38 — OAuth2 authorisation happens only on registered terms. Stream `oauth2-authz`.
//!
//! A real in-memory `IdmServer` per scenario. A scenario (plain JSON, also the replay format) is:
//! four groups (optionally g3 ⊂ g2), three persons with direct memberships, and a list of ops:
//!  * `client`    create / reconfigure an OAuth2 client entry (basic or public; the optional flags
//!                disable-PKCE / consent-prompt / localhost-redirect absent, false or true; landing
//!                URL + extra URLs with https / http / opaque schemes and fragments; scope maps and
//!                supplementary scope maps keyed by g0..g3, idm_all_persons, idm_all_accounts)
//!  * `delclient` delete it
//!  * `auth`      `check_oauth2_authorisation` with a random request (client id case variants and
//!                unknown ids; response type / mode; prompt lists; PKCE present or not; redirect URI =
//!                registered, a near miss of a registered one — trailing slash, port, scheme,
//!                userinfo, host/path case, path prefix, query, fragment, dot segments, percent
//!                encoding — a loopback family member or a stranger; scopes held / unheld /
//!                supplementary-only / malformed / empty; max_age around the last verification)
//!                as no identity, a person (forged UAT through `process_uat_to_identity`),
//!                anonymous, the internal identity or an impersonated entry
//!  * `permit`    `check_oauth2_authorise_permit` on an earlier consent token, by the same or another
//!                identity / session, at instants around the token's expiry second
//!  * `badpermit` a garbage / truncated / bit-flipped consent token
//!
//! Every reply is canonicalised (codes are decrypted with hook `c38::decode_code`) and compared with
//! the Lean model's reply to the same line (`impl-vs-model`). The ORACLE (written from the property
//! text, evaluated on the implementation's outputs and the scenario's own configuration only)
//! checks every code and every consent request: client id names an existing client; redirect URI
//! equals (string equality of the serialised URL) a configured URL without its fragment, or is a
//! loopback URI while the client is public with the localhost flag true; identity is a person, not
//! anonymous; every requested scope is held through a scope map of a group the person is in
//! (membership from the scenario, not from the entry); PKCE present and carried when the client
//! requires it (public, or basic without disable flag = true); granted = requested ∪ held
//! supplementary; code bound to the requester's account / session and the request's URI.
use hlib::*;
use kanidm_proto::internal::{UatPurpose, UserAuthToken};
use kanidm_proto::oauth2::{
    AuthorisationRequest, AuthorisationRequestOidc, CodeChallengeMethod, PkceRequest, Prompt, ResponseMode, ResponseType,
};
use kanidmd_lib::entry::{Entry, EntryInit, EntryNew};
use kanidmd_lib::idm::oauth2::{AuthorisationRequestContext, AuthoriseResponse};
use kanidmd_lib::idm::server::{IdmServer, IdmServerTransaction};
use kanidmd_lib::prelude::*;
use kanidmd_lib::testkit::{setup_idm_test, TestConfiguration};
use kanidmd_lib::verif_hooks::c23::ident_internal;
use kanidmd_lib::verif_hooks::c38::decode_code;
use serde_json::{json, Value as Json};
use std::collections::{BTreeMap, BTreeSet};
use std::time::Duration;
use url::Url;

const NS: u128 = 1_000_000_000;
const T0_S: u64 = 2_000_000_000;

fn dur(ns: u128) -> Duration {
    Duration::new((ns / NS) as u64, (ns % NS) as u32)
}
fn odt(ns: i128) -> time::OffsetDateTime {
    time::OffsetDateTime::from_unix_timestamp_nanos(ns).expect("odt")
}
fn hexs(s: &str) -> String {
    if s.is_empty() {
        "-".into()
    } else {
        s.bytes().map(|b| format!("{b:02x}")).collect()
    }
}
fn group_uuid(i: u64) -> Uuid {
    nat_uuid(0xC38_100 + i)
}
fn user_uuid(i: u64) -> Uuid {
    nat_uuid(0xC38_200 + i)
}
fn session_uuid(i: u64) -> Uuid {
    nat_uuid(0xC38_300 + i)
}
fn client_uuid(i: u64) -> Uuid {
    nat_uuid(0xC38_400 + i)
}

/// uuid ↦ model atom (anonymous must be 0).
fn uuid_atom(u: Uuid, dynamic: &mut BTreeMap<Uuid, u64>) -> u64 {
    if u == UUID_ANONYMOUS {
        return 0;
    }
    let base = nat_uuid(0).as_u128();
    let x = u.as_u128();
    if x >= base + 0xC38_100 && x < base + 0xC38_500 {
        return (x - base - 0xC38_000) as u64; // groups 0x100.., users 0x200.., sessions 0x300.., clients 0x400..
    }
    if u == UUID_IDM_ALL_PERSONS {
        return 20;
    }
    if u == UUID_IDM_ALL_ACCOUNTS {
        return 21;
    }
    let n = dynamic.len() as u64;
    *dynamic.entry(u).or_insert(5000 + n)
}

fn gkey_uuid(k: &str) -> Uuid {
    match k {
        "g0" => group_uuid(0),
        "g1" => group_uuid(1),
        "g2" => group_uuid(2),
        "g3" => group_uuid(3),
        "persons" => UUID_IDM_ALL_PERSONS,
        "accounts" => UUID_IDM_ALL_ACCOUNTS,
        o => panic!("bad group key {o}"),
    }
}

/// Independent transcription of `^[0-9a-zA-Z_]+(([:\-.]|(://))[0-9a-zA-Z_]+)*$`.
fn scope_syntax_ok(s: &str) -> bool {
    let b = s.as_bytes();
    let word = |i: &mut usize| {
        let st = *i;
        while *i < b.len() && (b[*i].is_ascii_alphanumeric() || b[*i] == b'_') {
            *i += 1;
        }
        *i > st
    };
    let mut i = 0;
    if !word(&mut i) {
        return false;
    }
    while i < b.len() {
        if b[i..].starts_with(b"://") {
            i += 3;
        } else if b[i] == b':' || b[i] == b'-' || b[i] == b'.' {
            i += 1;
        } else {
            return false;
        }
        if !word(&mut i) {
            return false;
        }
    }
    true
}

#[derive(Default)]
struct Atoms {
    urls: BTreeMap<String, u64>,
    scopes: BTreeMap<String, u64>,
    strs: BTreeMap<String, u64>,
    chals: BTreeMap<Vec<u8>, u64>,
    uuids: BTreeMap<Uuid, u64>,
}
impl Atoms {
    fn new() -> Atoms {
        let mut a = Atoms::default();
        for (i, s) in ["openid", "email", "ssh_publickeys", "email_verified"].iter().enumerate() {
            a.scopes.insert(s.to_string(), i as u64);
        }
        a
    }
    fn url(&mut self, s: &str) -> u64 {
        let n = self.urls.len() as u64 + 1;
        *self.urls.entry(s.to_string()).or_insert(n)
    }
    fn scope(&mut self, s: &str) -> u64 {
        let n = self.scopes.len() as u64 + 6;
        *self.scopes.entry(s.to_string()).or_insert(n)
    }
    fn st(&mut self, s: &str) -> u64 {
        let n = self.strs.len() as u64 + 1;
        *self.strs.entry(s.to_string()).or_insert(n)
    }
    fn chal(&mut self, c: &[u8]) -> u64 {
        let n = self.chals.len() as u64 + 1;
        *self.chals.entry(c.to_vec()).or_insert(n)
    }
    fn uuid(&mut self, u: Uuid) -> u64 {
        uuid_atom(u, &mut self.uuids)
    }
    fn scope_set<'a>(&mut self, it: impl Iterator<Item = &'a String>) -> String {
        let v: BTreeSet<u64> = it.map(|s| self.scope(s)).collect();
        show_set(&v)
    }
}
fn show_set(v: &BTreeSet<u64>) -> String {
    if v.is_empty() {
        "-".into()
    } else {
        v.iter().map(|x| x.to_string()).collect::<Vec<_>>().join(",")
    }
}
fn opt_s(o: Option<u64>) -> String {
    o.map(|x| x.to_string()).unwrap_or("-".into())
}

/// A configured URL without its fragment, as a string (`Url::as_str` cut at `#`).
fn strip_fragment(u: &Url) -> String {
    u.as_str().split('#').next().unwrap().to_string()
}

/// Oracle's own reading of "loopback URI": host `localhost`, 127.0.0.0/8 or ::1.
fn oracle_is_loopback(u: &Url) -> bool {
    match u.host_str() {
        None => false,
        Some(h) => {
            let h = h.trim_start_matches('[').trim_end_matches(']');
            h == "localhost" || h.parse::<std::net::IpAddr>().map(|ip| ip.is_loopback()).unwrap_or(false)
        }
    }
}

#[derive(Clone)]
struct ClientLive {
    uuid: Uuid,
    spec: Json,
}

/// What the oracle needs to judge a grant: taken at request time.
#[derive(Clone)]
struct Ctx {
    client: Option<ClientLive>,
    uri: String,
    scopes: BTreeSet<String>,
    pkce: Option<Vec<u8>>,
    ident_kind: String,
    user: Option<u64>,
    session: Uuid,
    account: Option<Uuid>,
    ct_ns: u128,
    input: Json,
}

struct Tok {
    real: String,
    model_idx: Option<u64>,
    ctx: Ctx,
}

struct World {
    idms: IdmServer,
    atoms: Atoms,
    nested: bool,
    users: Vec<Vec<u64>>,
    /// observed once at setup: are persons members of the two dyngroups?
    in_persons: bool,
    in_accounts: bool,
    clients: BTreeMap<String, ClientLive>,
    next_client: u64,
    toks: Vec<Tok>,
    model_toks: u64,
    clock_ns: u128,
    last_issued: bool,
}

impl World {
    async fn new(sc: &Json) -> World {
        let (idms, _delayed, _audit) = setup_idm_test(TestConfiguration::default()).await;
        let nested = sc["nested"].as_bool().unwrap_or(false);
        let users: Vec<Vec<u64>> =
            sc["users"].as_array().unwrap().iter().map(|g| g.as_array().unwrap().iter().map(|x| x.as_u64().unwrap()).collect()).collect();
        let ct = dur(T0_S as u128 * NS);
        let mut w = idms.proxy_write(ct).await.unwrap();
        let mut es = vec![];
        for (i, gs) in users.iter().enumerate() {
            let name = format!("c38user{i}");
            let mut e: Entry<EntryInit, EntryNew> = Entry::new();
            e.add_ava(Attribute::Class, EntryClass::Object.to_value());
            e.add_ava(Attribute::Class, EntryClass::Account.to_value());
            e.add_ava(Attribute::Class, EntryClass::Person.to_value());
            e.add_ava(Attribute::Name, Value::new_iname(&name));
            e.add_ava(Attribute::Uuid, Value::Uuid(user_uuid(i as u64)));
            e.add_ava(Attribute::Description, Value::new_utf8s(&name));
            e.add_ava(Attribute::DisplayName, Value::new_utf8s(&name));
            es.push(e);
            let _ = gs;
        }
        for g in 0..4u64 {
            let name = format!("c38group{g}");
            let mut e: Entry<EntryInit, EntryNew> = Entry::new();
            e.add_ava(Attribute::Class, EntryClass::Object.to_value());
            e.add_ava(Attribute::Class, EntryClass::Group.to_value());
            e.add_ava(Attribute::Name, Value::new_iname(&name));
            e.add_ava(Attribute::Uuid, Value::Uuid(group_uuid(g)));
            e.add_ava(Attribute::Description, Value::new_utf8s(&name));
            for (i, gs) in users.iter().enumerate() {
                if gs.contains(&g) {
                    e.add_ava(Attribute::Member, Value::Refer(user_uuid(i as u64)));
                }
            }
            if g == 2 && nested {
                e.add_ava(Attribute::Member, Value::Refer(group_uuid(3)));
            }
            es.push(e);
        }
        w.qs_write.internal_create(es).expect("create users and groups");
        w.commit().expect("commit setup");
        let (in_persons, in_accounts) = {
            let mut r = idms.proxy_read().await.unwrap();
            let e = r.qs_read.internal_search_uuid(user_uuid(0)).expect("user0");
            let mo = e.get_ava_refer(Attribute::MemberOf).cloned().unwrap_or_default();
            (mo.contains(&UUID_IDM_ALL_PERSONS), mo.contains(&UUID_IDM_ALL_ACCOUNTS))
        };
        World {
            idms,
            atoms: Atoms::new(),
            nested,
            users,
            in_persons,
            in_accounts,
            clients: BTreeMap::new(),
            next_client: 0,
            toks: vec![],
            model_toks: 0,
            clock_ns: T0_S as u128 * NS + 10 * NS,
            last_issued: false,
        }
    }

    /// Scenario-level membership (the oracle's): direct, g3 ⊂ g2 when nested, the two dyngroups.
    fn user_in(&self, user: u64, gkey: &str) -> bool {
        let direct = &self.users[user as usize];
        match gkey {
            "g0" => direct.contains(&0),
            "g1" => direct.contains(&1),
            "g2" => direct.contains(&2) || (self.nested && direct.contains(&3)),
            "g3" => direct.contains(&3),
            "persons" => self.in_persons,
            "accounts" => self.in_accounts,
            _ => false,
        }
    }

    fn client_entry(uuid: Uuid, spec: &Json) -> Entry<EntryInit, EntryNew> {
        let mut e: Entry<EntryInit, EntryNew> = Entry::new();
        let name = spec["name"].as_str().unwrap();
        e.add_ava(Attribute::Class, EntryClass::Object.to_value());
        e.add_ava(Attribute::Class, EntryClass::Account.to_value());
        e.add_ava(Attribute::Class, EntryClass::OAuth2ResourceServer.to_value());
        let basic = spec["basic"].as_bool().unwrap();
        e.add_ava(
            Attribute::Class,
            if basic { EntryClass::OAuth2ResourceServerBasic.to_value() } else { EntryClass::OAuth2ResourceServerPublic.to_value() },
        );
        e.add_ava(Attribute::Uuid, Value::Uuid(uuid));
        e.add_ava(Attribute::Name, Value::new_iname(name));
        e.add_ava(Attribute::DisplayName, Value::new_utf8s(name));
        e.add_ava(Attribute::OAuth2RsOriginLanding, Value::new_url_s(spec["landing"].as_str().unwrap()).expect("landing url"));
        for x in spec["extras"].as_array().unwrap() {
            e.add_ava(Attribute::OAuth2RsOrigin, Value::new_url_s(x.as_str().unwrap()).expect("extra url"));
        }
        for (attr, key) in [(Attribute::OAuth2RsScopeMap, "maps"), (Attribute::OAuth2RsSupScopeMap, "sups")] {
            for m in spec[key].as_array().unwrap() {
                let g = gkey_uuid(m[0].as_str().unwrap());
                let ss: BTreeSet<String> = m[1].as_array().unwrap().iter().map(|s| s.as_str().unwrap().to_string()).collect();
                e.add_ava(attr.clone(), Value::new_oauthscopemap(g, ss).expect("scope map"));
            }
        }
        if basic {
            if let Some(b) = spec["disable_pkce"].as_bool() {
                e.add_ava(Attribute::OAuth2AllowInsecureClientDisablePkce, Value::new_bool(b));
            }
        } else if let Some(b) = spec["localhost"].as_bool() {
            e.add_ava(Attribute::OAuth2AllowLocalhostRedirect, Value::new_bool(b));
        }
        if let Some(b) = spec["consent_prompt"].as_bool() {
            e.add_ava(Attribute::OAuth2ConsentPromptEnable, Value::new_bool(b));
        }
        e
    }

    /// The `client` line for the model.
    fn client_line(&mut self, uuid: Uuid, spec: &Json) -> String {
        let fl = |v: &Json| match v.as_bool() {
            None => "-",
            Some(true) => "1",
            Some(false) => "0",
        };
        let basic = spec["basic"].as_bool().unwrap();
        let ty = if basic { format!("b:{}:{}", fl(&spec["disable_pkce"]), fl(&spec["consent_prompt"])) } else { format!("p:{}", fl(&spec["localhost"])) };
        let mut conf_url = |s: &str| {
            let u = Url::parse(s).expect("conf url");
            let k = match u.scheme() {
                "https" => "s",
                "http" => "h",
                _ => "o",
            };
            format!("{}:{k}", self.atoms.url(&strip_fragment(&u)))
        };
        let landing = conf_url(spec["landing"].as_str().unwrap());
        // the stored attribute is a set of `Url`s
        let extras: BTreeSet<String> = spec["extras"].as_array().unwrap().iter().map(|x| Url::parse(x.as_str().unwrap()).unwrap().to_string()).collect();
        let extras: Vec<String> = extras.iter().map(|x| conf_url(x)).collect();
        let mut maps = |key: &str| {
            // one value per group uuid: a later value for the same group replaces the earlier one
            let mut per: BTreeMap<u64, BTreeSet<u64>> = BTreeMap::new();
            for m in spec[key].as_array().unwrap() {
                let g = self.atoms.uuid(gkey_uuid(m[0].as_str().unwrap()));
                let ss: BTreeSet<u64> = m[1].as_array().unwrap().iter().map(|s| self.atoms.scope(s.as_str().unwrap())).collect();
                per.insert(g, ss);
            }
            if per.is_empty() {
                "-".to_string()
            } else {
                per.iter().map(|(g, ss)| format!("{g}={}", ss.iter().map(|x| x.to_string()).collect::<Vec<_>>().join("."))).collect::<Vec<_>>().join(",")
            }
        };
        let m = maps("maps");
        let s = maps("sups");
        format!(
            "client {} {} {ty} {landing} {} {m} {s}",
            hexs(spec["name"].as_str().unwrap()),
            self.atoms.uuid(uuid),
            if extras.is_empty() { "-".to_string() } else { extras.join(",") }
        )
    }
}

/// The scope-map value the entry ends up with for a group listed twice: the harness keeps one
/// map per group in a spec (the generator never repeats a group), so no merging question arises.
fn spec_maps(spec: &Json, key: &str) -> Vec<(String, BTreeSet<String>)> {
    spec[key]
        .as_array()
        .unwrap()
        .iter()
        .map(|m| (m[0].as_str().unwrap().to_string(), m[1].as_array().unwrap().iter().map(|s| s.as_str().unwrap().to_string()).collect()))
        .collect()
}

struct Exec<'a> {
    w: World,
    drv: &'a mut Driver,
    rep: &'a mut Report,
    model_fail: usize,
    oracle_fail: Vec<Failure>,
    scenario: Json,
    op_index: usize,
}

fn classify(expected: &str) -> String {
    let tag = expected.split(' ').next().unwrap_or("");
    format!("C38:{}", tag.trim_end_matches(':'))
}

impl<'a> Exec<'a> {
    fn input(&self) -> Json {
        let mut sc = self.scenario.clone();
        let ops: Vec<Json> = sc["ops"].as_array().unwrap()[..=self.op_index].to_vec();
        sc["ops"] = Json::Array(ops);
        sc
    }
    fn oracle(&mut self, expected: String, observed: String) {
        let f = Failure { kind: "impl-vs-oracle".into(), class: classify(&expected), input: self.input(), expected, observed };
        self.oracle_fail.push(f);
    }
    fn model(&mut self, line: &str, model: &str, imp: &str) {
        self.rep.count("model-disagreement");
        if self.model_fail < 5 {
            self.model_fail += 1;
            let mut input = self.input();
            input["line"] = json!(line);
            self.rep.fail(Failure { kind: "impl-vs-model".into(), class: "unclassified".into(), input, expected: model.to_string(), observed: imp.to_string() });
        }
    }

    async fn op_client(&mut self, op: &Json) {
        let name = op["name"].as_str().unwrap().to_string();
        let ct = dur(self.w.clock_ns);
        let uuid = match self.w.clients.get(&name) {
            Some(c) => c.uuid,
            None => {
                self.w.next_client += 1;
                client_uuid(self.w.next_client)
            }
        };
        let existed = self.w.clients.contains_key(&name);
        let mut wr = self.w.idms.proxy_write(ct).await.unwrap();
        if existed {
            // reconfigure: the type class cannot change, everything else is replaced
            let mut ml = vec![
                Modify::Purged(Attribute::OAuth2RsOrigin),
                Modify::Purged(Attribute::OAuth2RsScopeMap),
                Modify::Purged(Attribute::OAuth2RsSupScopeMap),
                Modify::Purged(Attribute::OAuth2AllowInsecureClientDisablePkce),
                Modify::Purged(Attribute::OAuth2AllowLocalhostRedirect),
                Modify::Purged(Attribute::OAuth2ConsentPromptEnable),
                Modify::Purged(Attribute::OAuth2RsOriginLanding),
            ];
            let e = World::client_entry(uuid, op);
            for attr in [
                Attribute::OAuth2RsOriginLanding,
                Attribute::OAuth2RsOrigin,
                Attribute::OAuth2RsScopeMap,
                Attribute::OAuth2RsSupScopeMap,
                Attribute::OAuth2AllowInsecureClientDisablePkce,
                Attribute::OAuth2AllowLocalhostRedirect,
                Attribute::OAuth2ConsentPromptEnable,
            ] {
                if let Some(vs) = e.get_ava_set(attr.clone()) {
                    ml.push(Modify::Set(attr, vs.clone()));
                }
            }
            wr.qs_write.internal_modify_uuid(uuid, &ModifyList::new_list(ml)).expect("reconfigure client");
        } else {
            wr.qs_write.internal_create(vec![World::client_entry(uuid, op)]).expect("create client");
        }
        wr.commit().expect("commit client");
        self.w.clients.insert(name, ClientLive { uuid, spec: op.clone() });
        let line = self.w.client_line(uuid, op);
        let r = self.drv.ask(&line);
        if !r.starts_with("ok ") {
            self.model(&line, &r, "ok");
        }
        self.rep.count(if existed { "op:reconfigure" } else { "op:client" });
    }

    async fn op_delclient(&mut self, op: &Json) {
        let name = op["name"].as_str().unwrap().to_string();
        if let Some(c) = self.w.clients.remove(&name) {
            let ct = dur(self.w.clock_ns);
            let mut wr = self.w.idms.proxy_write(ct).await.unwrap();
            wr.qs_write.internal_delete_uuid(c.uuid).expect("delete client");
            wr.commit().expect("commit delete");
            let line = format!("delclient {}", hexs(&name));
            let r = self.drv.ask(&line);
            if r != "ok" {
                self.model(&line, &r, "ok");
            }
            self.rep.count("op:delclient");
        }
    }

    /// Build the identity an op asks for: (identity, model tokens, oracle facts).
    async fn ident(&mut self, spec: &Json, ct_ns: u128) -> (Option<Identity>, String, String, Option<u64>, Uuid, Option<Uuid>) {
        let kind = spec["kind"].as_str().unwrap_or("none").to_string();
        if kind == "none" {
            return (None, "none 0 0 - - -".into(), kind, None, Uuid::nil(), None);
        }
        let mut lva: Option<i128> = None;
        let ident: Identity = match kind.as_str() {
            "internal" => ident_internal(0).unwrap(),
            "impersonate" => {
                let u = spec["user"].as_u64().unwrap();
                let mut r = self.w.idms.proxy_read().await.unwrap();
                let e = r.qs_read.internal_search_uuid(user_uuid(u)).expect("user entry");
                Identity::from_impersonate_entry_readwrite(e)
            }
            "user" | "anon" => {
                let (uuid, name) = if kind == "anon" { (UUID_ANONYMOUS, "anonymous".to_string()) } else {
                    let u = spec["user"].as_u64().unwrap();
                    (user_uuid(u), format!("c38user{u}"))
                };
                let issued = ct_ns as i128 - spec["lva_delta_ns"].as_i64().unwrap_or(0) as i128;
                let issued = issued.max(0);
                lva = Some(issued);
                let uat = UserAuthToken {
                    session_id: session_uuid(spec["session"].as_u64().unwrap_or(0)),
                    issued_at: odt(issued),
                    expiry: None,
                    purpose: UatPurpose::ReadOnly,
                    uuid,
                    displayname: name.clone(),
                    spn: format!("{name}@example.com"),
                    mail_primary: None,
                    ui_hints: Default::default(),
                    limit_search_max_results: None,
                    limit_search_max_filter_test: None,
                };
                let mut r = self.w.idms.proxy_read().await.unwrap();
                // validated at its own issue instant: inside the grace window, no stored session needed
                r.process_uat_to_identity(&uat, dur(issued as u128), Source::Internal).expect("identity")
            }
            o => panic!("bad ident kind {o}"),
        };
        let mkind = if ident.is_internal() { "internal" } else { "user" };
        let uuid = ident.get_uuid();
        let sess = ident.get_session_id();
        let mo: BTreeSet<u64> = ident.get_memberof().map(|s| s.iter().map(|u| self.w.atoms.uuid(*u)).collect()).unwrap_or_default();
        let mut cons = vec![];
        let live: Vec<Uuid> = self.w.clients.values().map(|c| c.uuid).collect();
        for cu in live {
            if let Some(ss) = ident.get_oauth2_consent_scopes(cu) {
                let v: BTreeSet<u64> = ss.iter().map(|s| self.w.atoms.scope(s)).collect();
                cons.push(format!("{}={}", self.w.atoms.uuid(cu), v.iter().map(|x| x.to_string()).collect::<Vec<_>>().join(".")));
            }
        }
        let toks = format!(
            "{mkind} {} {} {} {} {}",
            self.w.atoms.uuid(uuid),
            self.w.atoms.uuid(sess),
            lva.map(|x| x.to_string()).unwrap_or("-".into()),
            show_set(&mo),
            if cons.is_empty() { "-".to_string() } else { cons.join(",") }
        );
        let user = if kind == "user" || kind == "impersonate" { spec["user"].as_u64() } else { None };
        (Some(ident), toks, kind, user, sess, Some(uuid))
    }

    /// Canonical form of a decrypted code (same shape as the model's `showCode`).
    fn show_code(&mut self, v: &Json) -> Result<String, String> {
        let acct = Uuid::parse_str(v["account_uuid"].as_str().ok_or("account_uuid")?).map_err(|e| e.to_string())?;
        let sess = Uuid::parse_str(v["session_id"].as_str().ok_or("session_id")?).map_err(|e| e.to_string())?;
        let chal = match &v["code_challenge"] {
            Json::Null => None,
            Json::String(s) => Some(self.w.atoms.chal(&b64url(s)?)),
            o => return Err(format!("code_challenge {o}")),
        };
        let uri = Url::parse(v["redirect_uri"].as_str().ok_or("redirect_uri")?).map_err(|e| e.to_string())?;
        let scopes: Vec<String> = v["scopes"].as_array().ok_or("scopes")?.iter().map(|s| s.as_str().unwrap_or("?").to_string()).collect();
        let nonce = v["nonce"].as_str().map(|s| self.w.atoms.st(s));
        let authtime = match &v["auth_time"] {
            Json::Null => "-".to_string(),
            Json::Array(a) => {
                let g = |i: usize| a.get(i).and_then(|x| x.as_i64()).unwrap_or(0);
                let date = time::Date::from_ordinal_date(g(0) as i32, g(1) as u16).map_err(|e| e.to_string())?;
                let t = time::Time::from_hms_nano(g(2) as u8, g(3) as u8, g(4) as u8, g(5) as u32).map_err(|e| e.to_string())?;
                let off = time::UtcOffset::from_hms(g(6) as i8, g(7) as i8, g(8) as i8).map_err(|e| e.to_string())?;
                time::PrimitiveDateTime::new(date, t).assume_offset(off).unix_timestamp_nanos().to_string()
            }
            o => return Err(format!("auth_time {o}")),
        };
        Ok(format!(
            "acct={} sess={} exp={} chal={} uri={} scopes={} nonce={} authtime={authtime}",
            self.w.atoms.uuid(acct),
            self.w.atoms.uuid(sess),
            v["expiry"].as_u64().ok_or("expiry")?,
            opt_s(chal),
            self.w.atoms.url(uri.as_str()),
            self.w.atoms.scope_set(scopes.iter()),
            opt_s(nonce)
        ))
    }

    /// The oracle on one grant (code or consent request) for the request context `cx`.
    fn oracle_grant(&mut self, cx: &Ctx, what: &str, granted: &BTreeSet<String>, code: Option<&Json>) {
        let obs = format!("{what} granted for client_id={:?} uri={} scopes={:?} ident={}", cx.input["client_id"], cx.uri, cx.scopes, cx.ident_kind);
        // client registered
        let Some(cl) = &cx.client else {
            self.oracle("unknown-client: a grant needs a client id that names a registered client".into(), obs);
            return;
        };
        let spec = &cl.spec;
        let basic = spec["basic"].as_bool().unwrap();
        // redirect URI
        let mut configured: Vec<String> = vec![strip_fragment(&Url::parse(spec["landing"].as_str().unwrap()).unwrap())];
        for x in spec["extras"].as_array().unwrap() {
            configured.push(strip_fragment(&Url::parse(x.as_str().unwrap()).unwrap()));
        }
        let req_uri = Url::parse(&cx.uri).unwrap();
        let exact = configured.iter().any(|c| *c == req_uri.as_str());
        let loopback_ok = !basic && spec["localhost"].as_bool() == Some(true) && oracle_is_loopback(&req_uri);
        if !exact && !loopback_ok {
            self.oracle(format!("redirect-not-registered: redirect URI must equal one of {configured:?} or be loopback on a public client with localhost redirects enabled"), obs.clone());
        }
        // user
        if cx.ident_kind == "none" || cx.ident_kind == "anon" || cx.ident_kind == "internal" || cx.account == Some(UUID_ANONYMOUS) {
            self.oracle("not-a-user: a grant needs an authenticated, non-anonymous user".into(), obs.clone());
        }
        // scopes held
        if cx.scopes.is_empty() {
            self.oracle("empty-scopes: a grant needs at least one requested scope".into(), obs.clone());
        }
        let held = |w: &World, key: &str, user: u64| -> BTreeSet<String> {
            spec_maps(spec, key).into_iter().filter(|(g, _)| w.user_in(user, g)).flat_map(|(_, s)| s.into_iter()).collect()
        };
        if let Some(u) = cx.user {
            let have = held(&self.w, "maps", u);
            let missing: Vec<&String> = cx.scopes.iter().filter(|s| !have.contains(*s)).collect();
            if !missing.is_empty() {
                self.oracle(format!("scope-not-held: requested scopes {missing:?} are not held through the client's scope maps (held {have:?})"), obs.clone());
            }
            let mut want: BTreeSet<String> = cx.scopes.clone();
            want.extend(held(&self.w, "sups", u));
            if &want != granted {
                self.oracle(format!("granted-scopes-differ: granted must be requested ∪ held supplementary = {want:?}"), format!("{obs} granted={granted:?}"));
            }
        }
        // PKCE
        let requires = !basic || spec["disable_pkce"].as_bool() != Some(true);
        if requires && cx.pkce.is_none() {
            self.oracle("pkce-missing: the client requires PKCE but the request carried no S256 challenge".into(), obs.clone());
        }
        if let Some(code) = code {
            let chal = code["code_challenge"].as_str().map(|s| b64url(s).unwrap_or_default());
            if chal != cx.pkce {
                self.oracle("pkce-not-carried: the code must carry the request's challenge".into(), format!("{obs} code challenge {chal:?} request {:?}", cx.pkce));
            }
            if code["redirect_uri"].as_str().map(|s| Url::parse(s).map(|u| u.to_string()).unwrap_or_default()) != Some(req_uri.to_string()) {
                self.oracle("code-uri-differs: the code must carry the request's redirect URI".into(), format!("{obs} code uri {}", code["redirect_uri"]));
            }
            if let Some(a) = cx.account {
                if code["account_uuid"].as_str() != Some(&a.to_string()) || code["session_id"].as_str() != Some(&cx.session.to_string()) {
                    self.oracle("code-binding: the code must be bound to the requester's account and session".into(), format!("{obs} code {} {}", code["account_uuid"], code["session_id"]));
                }
            }
        }
    }

    async fn op_auth(&mut self, op: &Json) {
        self.w.clock_ns += op["dt_ns"].as_u64().unwrap_or(1_000_000_000) as u128;
        let ct_ns = self.w.clock_ns;
        let (ident, ident_toks, ident_kind, user, session, account) = self.ident(&op["ident"], ct_ns).await;
        let client_id = op["client_id"].as_str().unwrap().to_string();
        let uri = Url::parse(op["uri"].as_str().unwrap()).expect("request uri");
        let scopes: BTreeSet<String> = op["scopes"].as_array().unwrap().iter().map(|s| s.as_str().unwrap().to_string()).collect();
        let pkce: Option<Vec<u8>> = op["pkce"].as_str().map(|s| s.as_bytes().to_vec());
        let prompts: Vec<String> = op["prompts"].as_array().unwrap().iter().map(|s| s.as_str().unwrap().to_string()).collect();
        let req = AuthorisationRequest {
            response_type: match op["rtype"].as_str().unwrap() {
                "code" => ResponseType::Code,
                "token" => ResponseType::Token,
                _ => ResponseType::IdToken,
            },
            response_mode: match op["rmode"].as_str() {
                None => None,
                Some("query") => Some(ResponseMode::Query),
                Some("fragment") => Some(ResponseMode::Fragment),
                Some("form_post") => Some(ResponseMode::FormPost),
                Some(_) => Some(ResponseMode::Invalid),
            },
            client_id: client_id.clone(),
            state: op["state"].as_str().map(|s| s.to_string()),
            pkce_request: pkce.clone().map(|c| PkceRequest { code_challenge: c, code_challenge_method: CodeChallengeMethod::S256 }),
            redirect_uri: uri.clone(),
            scope: scopes.clone(),
            nonce: op["nonce"].as_str().map(|s| s.to_string()),
            oidc_ext: AuthorisationRequestOidc::default(),
            max_age: op["max_age"].as_i64(),
            prompt: prompts
                .iter()
                .map(|p| match p.as_str() {
                    "none" => Prompt::None,
                    "login" => Prompt::Login,
                    "consent" => Prompt::Consent,
                    "select_account" => Prompt::SelectAccount,
                    o => Prompt::Invalid(o.to_string()),
                })
                .collect(),
            ui_locales: vec![],
            unknown_keys: Default::default(),
        };
        let resumed = op["resumed"].as_bool().unwrap_or(false);
        let rctx = if resumed { AuthorisationRequestContext::resumed_session() } else { AuthorisationRequestContext::default() };
        // ---- model line
        let host = match uri.host() {
            None => "-".to_string(),
            Some(url::Host::Ipv4(ip)) => {
                let o = ip.octets();
                format!("4.{}.{}.{}.{}", o[0], o[1], o[2], o[3])
            }
            Some(url::Host::Ipv6(ip)) => format!("6.{}", ip.segments().iter().map(|s| s.to_string()).collect::<Vec<_>>().join(".")),
            Some(url::Host::Domain(d)) => format!("d.{}", hexs(d)),
        };
        let bad: BTreeSet<u64> = scopes.iter().filter(|s| !scope_syntax_ok(s)).map(|s| self.w.atoms.scope(s)).collect();
        let line = format!(
            "auth {} {} {} {} {} {}:{}:{host} {} {} {} {} {} {} {ct_ns} {ident_toks}",
            hexs(&client_id),
            op["rtype"].as_str().unwrap(),
            op["rmode"].as_str().map(|m| if ["query", "fragment", "form_post"].contains(&m) { m } else { "invalid" }).unwrap_or("-"),
            if prompts.is_empty() { "-".to_string() } else { prompts.iter().map(|p| if ["none", "login", "consent", "select_account"].contains(&p.as_str()) { p.as_str() } else { "invalid" }).collect::<Vec<_>>().join(",") },
            pkce.as_ref().map(|c| format!("{}:1", self.w.atoms.chal(c))).unwrap_or("-".into()),
            self.w.atoms.url(uri.as_str()),
            (uri.scheme() == "https") as u8,
            self.w.atoms.scope_set(scopes.iter()),
            show_set(&bad),
            opt_s(op["state"].as_str().map(|s| self.w.atoms.st(s))),
            opt_s(op["nonce"].as_str().map(|s| self.w.atoms.st(s))),
            op["max_age"].as_i64().map(|x| x.to_string()).unwrap_or("-".into()),
            resumed as u8,
        );
        let model = self.drv.ask(&line);
        // ---- implementation
        let res = {
            let r = self.w.idms.proxy_read().await.unwrap();
            r.check_oauth2_authorisation(ident.as_ref(), &req, &rctx, dur(ct_ns))
        };
        // the client the request names, by the oracle's reading (case-insensitive name)
        let named = self.w.clients.get(&client_id.to_lowercase()).cloned();
        let cx = Ctx { client: named.clone(), uri: uri.to_string(), scopes: scopes.clone(), pkce: pkce.clone(), ident_kind: ident_kind.clone(), user, session, account, ct_ns, input: op.clone() };
        self.w.last_issued = matches!(res, Ok(AuthoriseResponse::ConsentRequested { .. }));
        let imp = match res {
            Err(e) => format!("err {e:?}"),
            Ok(AuthoriseResponse::AuthenticationRequired { .. }) => "authreq".to_string(),
            Ok(AuthoriseResponse::ReauthenticationRequired { .. }) => "reauth".to_string(),
            Ok(AuthoriseResponse::ConsentRequested { scopes: g, pii_scopes, consent_token, .. }) => {
                self.oracle_grant(&cx, "consent request", &g, None);
                let midx = if model.starts_with("consent tok=") {
                    model.split(' ').nth(1).and_then(|t| t.strip_prefix("tok=")).and_then(|n| n.parse().ok())
                } else {
                    None
                };
                self.w.toks.push(Tok { real: consent_token, model_idx: midx, ctx: cx.clone() });
                format!("consent scopes={} pii={}", self.w.atoms.scope_set(g.iter()), self.w.atoms.scope_set(pii_scopes.iter()))
            }
            Ok(AuthoriseResponse::Permitted(p)) => {
                let decoded = match &named {
                    Some(c) => {
                        let r = self.w.idms.proxy_read().await.unwrap();
                        decode_code(&r.qs_read, c.uuid, &p.code)
                    }
                    None => Err("no such client".into()),
                };
                match decoded {
                    Err(e) => {
                        self.oracle("code-undecodable: a code must decrypt under the named client's key".into(), format!("{e} for client_id {client_id:?}"));
                        format!("permitted undecodable {e}")
                    }
                    Ok(v) => {
                        let g: BTreeSet<String> = v["scopes"].as_array().map(|a| a.iter().filter_map(|s| s.as_str().map(|s| s.to_string())).collect()).unwrap_or_default();
                        self.oracle_grant(&cx, "code", &g, Some(&v));
                        if p.redirect_uri != uri {
                            self.oracle("code-uri-differs: the response must redirect to the request's URI".into(), format!("{} vs {}", p.redirect_uri, uri));
                        }
                        let built = p.build_redirect_uri();
                        let mode = if built.fragment().map(|f| f.contains("code=")).unwrap_or(false) { "fragment" } else { "query" };
                        match self.show_code(&v) {
                            Ok(s) => format!("permitted {s} state={} mode={mode}", opt_s(p.state.as_deref().map(|s| self.w.atoms.st(s)))),
                            Err(e) => format!("permitted unreadable {e}"),
                        }
                    }
                }
            }
        };
        if std::env::var_os("C38_TRACE").is_some() {
            eprintln!("{line}\n  model: {model}\n  impl:  {imp}");
        }
        // ---- compare
        let model_cmp = if model.starts_with("consent ") {
            // the token's content is compared when it is permitted; here: scopes and pii
            model.split(' ').filter(|t| t.starts_with("scopes=") || t.starts_with("pii=")).fold("consent".to_string(), |a, t| a + " " + t)
        } else {
            model.clone()
        };
        if model.starts_with("consent ") && !imp.starts_with("consent ") {
            self.w.model_toks += 1;
        }
        if model_cmp != imp {
            self.model(&line, &model, &imp);
        }
        let outcome = imp.split(' ').take(if imp.starts_with("err") { 2 } else { 1 }).collect::<Vec<_>>().join(":");
        self.rep.count(&format!("auth:{outcome}"));
        self.rep.count(&format!("uri:{}", op["uri_kind"].as_str().unwrap_or("?")));
        let nontrivial = named.is_some() && !matches!(imp.as_str(), "err UnsupportedResponseType" | "err InvalidClientId");
        self.rep.case(if nontrivial { Some(line.clone()) } else { None });
        if self.rep.samples.len() < 5 && (imp.starts_with("permitted") || imp.starts_with("consent")) {
            self.rep.sample(json!({"op": op, "model_line": line, "reply": imp}));
        }
    }

    async fn op_permit(&mut self, op: &Json) {
        if self.w.toks.is_empty() {
            return;
        }
        if op["fresh_only"].as_bool() == Some(true) && !self.w.last_issued {
            return;
        }
        let back = op["back"].as_u64().unwrap_or(0) as usize;
        let k = self.w.toks.len() - 1 - back.min(self.w.toks.len() - 1);
        let (real, midx, cx) = {
            let t = &self.w.toks[k];
            (t.real.clone(), t.model_idx, t.ctx.clone())
        };
        // instant: relative to the token's issue second
        let issue_s = cx.ct_ns / NS;
        let target = (issue_s as i128 * NS as i128 + op["at_ns"].as_i64().unwrap_or(NS as i64) as i128) as u128;
        let ct_ns = target.max(self.w.clock_ns);
        self.w.clock_ns = ct_ns;
        // identity: same as the requester unless the op says otherwise
        let ispec = if op["ident"]["kind"].as_str() == Some("same") {
            let mut s = cx.input["ident"].clone();
            // keep the session, the verification time is irrelevant to permit
            s["lva_delta_ns"] = json!(1_000_000_000u64);
            s
        } else {
            op["ident"].clone()
        };
        if ispec["kind"].as_str().unwrap_or("none") == "none" {
            return;
        }
        let (ident, ident_toks, ident_kind, _user, session, account) = self.ident(&ispec, ct_ns).await;
        let ident = ident.unwrap();
        let res = {
            let mut wr = self.w.idms.proxy_write(dur(ct_ns)).await.unwrap();
            match wr.check_oauth2_authorise_permit(&ident, &real, dur(ct_ns)) {
                Ok(p) => {
                    wr.commit().expect("commit permit");
                    Ok(p)
                }
                Err(e) => Err(e),
            }
        };
        let line = midx.map(|m| format!("permit {m} {ct_ns} {ident_toks}"));
        let model = line.as_ref().map(|l| self.drv.ask(l));
        let imp = match res {
            Err(e) => format!("err {e:?}"),
            Ok(p) => {
                // permit looks the client up again by the name in the token: after a delete + re-create
                // this is the new entry (new uuid, new key), while the terms were judged at request time
                let now_client = self.w.clients.get(&cx.input["client_id"].as_str().unwrap_or("").to_lowercase()).cloned();
                let decoded = match &now_client {
                    Some(c) => {
                        let r = self.w.idms.proxy_read().await.unwrap();
                        decode_code(&r.qs_read, c.uuid, &p.code)
                    }
                    None => Err("no client".into()),
                };
                match decoded {
                    Err(e) => {
                        self.oracle("code-undecodable: a permitted code must decrypt under the client's key".into(), e.clone());
                        format!("ok undecodable {e}")
                    }
                    Ok(v) => {
                        let g: BTreeSet<String> = v["scopes"].as_array().map(|a| a.iter().filter_map(|s| s.as_str().map(|s| s.to_string())).collect()).unwrap_or_default();
                        // the terms of the original request
                        self.oracle_grant(&Ctx { session, ..cx.clone() }, "code after consent", &g, Some(&v));
                        // presenter = requester, same session, before expiry
                        if account != cx.account || ident_kind == "anon" || session != cx.session {
                            self.oracle("permit-by-other: only the identity and session that requested may permit".into(), format!("requested by {:?}/{} permitted by {:?}/{}", cx.account, cx.session, account, session));
                        }
                        if ct_ns / NS >= issue_s + 300 {
                            self.oracle("permit-expired: a consent token is good for 300 s".into(), format!("issued {issue_s} permitted {}", ct_ns / NS));
                        }
                        // the consent now on the account
                        let stored = {
                            let mut r = self.w.idms.proxy_read().await.unwrap();
                            let e = r.qs_read.internal_search_uuid(account.unwrap()).expect("account");
                            now_client.as_ref().and_then(|c| e.get_ava_as_oauthscopemaps(Attribute::OAuth2ConsentScopeMap).and_then(|m| m.get(&c.uuid)).cloned())
                        };
                        if stored.as_ref() != Some(&g) {
                            self.oracle("consent-record-differs: the recorded consent must be the granted scopes".into(), format!("{stored:?} vs {g:?}"));
                        }
                        let built = p.build_redirect_uri();
                        let mode = if built.fragment().map(|f| f.contains("code=")).unwrap_or(false) { "fragment" } else { "query" };
                        let cu = now_client.as_ref().map(|c| self.w.atoms.uuid(c.uuid)).unwrap_or(0);
                        match self.show_code(&v) {
                            Ok(s) => format!(
                                "ok {s} ruri={} state={} mode={mode} consent={cu}:{}",
                                self.w.atoms.url(p.redirect_uri.as_str()),
                                opt_s(p.state.as_deref().map(|s| self.w.atoms.st(s))),
                                self.w.atoms.scope_set(stored.unwrap_or_default().iter())
                            ),
                            Err(e) => format!("ok unreadable {e}"),
                        }
                    }
                }
            }
        };
        if let (Some(l), Some(m)) = (&line, &model) {
            if *m != imp {
                self.model(l, m, &imp);
            }
        }
        let outcome = imp.split(' ').take(if imp.starts_with("err") { 2 } else { 1 }).collect::<Vec<_>>().join(":");
        self.rep.count(&format!("permit:{outcome}"));
        self.rep.case(line.clone());
    }

    async fn op_badpermit(&mut self, op: &Json) {
        let base = self.w.toks.last().map(|t| t.real.clone()).unwrap_or_else(|| "aaaa.bbbb.cccc.dddd.eeee".to_string());
        let tok = match op["how"].as_str().unwrap_or("garbage") {
            "truncated" => base[..base.len() / 2].to_string(),
            "flipped" => {
                let mut b = base.into_bytes();
                let i = b.len() * 2 / 3;
                b[i] = if b[i] == b'A' { b'B' } else { b'A' };
                String::from_utf8(b).unwrap()
            }
            "empty" => String::new(),
            _ => "bm90IGEgdG9rZW4.bm90.YQ.YQ.YQ".to_string(),
        };
        let ct_ns = self.w.clock_ns;
        let ispec = json!({"kind": "user", "user": 0, "session": 1, "lva_delta_ns": 1_000_000_000u64});
        let (ident, ..) = self.ident(&ispec, ct_ns).await;
        let mut wr = self.w.idms.proxy_write(dur(ct_ns)).await.unwrap();
        let r = wr.check_oauth2_authorise_permit(&ident.unwrap(), &tok, dur(ct_ns));
        drop(wr);
        if r.is_ok() {
            self.oracle("forged-token-permitted: a token the server did not issue must not yield a code".into(), format!("token {tok}"));
        }
        self.rep.count(&format!("badpermit:{}", if r.is_ok() { "ok" } else { "err" }));
        self.rep.case(None);
    }
}

fn b64url(s: &str) -> Result<Vec<u8>, String> {
    // unpadded base64url
    let mut out = vec![];
    let mut acc: u32 = 0;
    let mut bits = 0;
    for c in s.bytes() {
        let v = match c {
            b'A'..=b'Z' => c - b'A',
            b'a'..=b'z' => c - b'a' + 26,
            b'0'..=b'9' => c - b'0' + 52,
            b'-' => 62,
            b'_' => 63,
            b'=' => continue,
            _ => return Err(format!("bad base64url {s}")),
        } as u32;
        acc = (acc << 6) | v;
        bits += 6;
        if bits >= 8 {
            bits -= 8;
            out.push((acc >> bits) as u8);
            acc &= (1 << bits) - 1;
        }
    }
    Ok(out)
}

/// Run one scenario; returns the oracle failures found in it (unshrunk).
async fn run_scenario(sc: &Json, drv: &mut Driver, rep: &mut Report, count: bool) -> Vec<Failure> {
    let r = drv.ask("reset");
    assert_eq!(r, "ok", "driver reset");
    let w = World::new(sc).await;
    let mut scratch = Report::new("scratch", "");
    let mut ex = Exec { w, drv, rep: if count { rep } else { &mut scratch }, model_fail: 0, oracle_fail: vec![], scenario: sc.clone(), op_index: 0 };
    let ops = sc["ops"].as_array().unwrap().clone();
    for (i, op) in ops.iter().enumerate() {
        ex.op_index = i;
        match op["op"].as_str().unwrap() {
            "client" => ex.op_client(op).await,
            "delclient" => ex.op_delclient(op).await,
            "auth" => ex.op_auth(op).await,
            "permit" => ex.op_permit(op).await,
            "badpermit" => ex.op_badpermit(op).await,
            o => panic!("bad op {o}"),
        }
        if !ex.oracle_fail.is_empty() {
            break;
        }
    }
    ex.oracle_fail
}

// ------------------------------------------------------------------------------------------
// generators
// ------------------------------------------------------------------------------------------

const SCOPE_POOL: [&str; 10] = ["openid", "email", "ssh_publickeys", "profile", "groups", "read", "write", "admin", "https://api.example.com", "a.b-c:d"];
const BAD_SCOPES: [&str; 7] = ["bad scope", "-lead", "trail-", "a::b", "a..b", "sp ace", "é"];
const GKEYS: [&str; 6] = ["g0", "g1", "g2", "g3", "persons", "accounts"];

fn gen_client(r: &mut Rng, name: &str, k: u64, basic: bool) -> Json {
    let flag = |r: &mut Rng| match r.below(4) {
        0 => Json::Null,
        1 => json!(false),
        _ => json!(true),
    };
    let pool = [
        format!("https://app{k}.example.com/cb"),
        format!("https://app{k}.example.com/oauth2/result?custom=foo"),
        format!("https://app{k}.example.com:8443/cb"),
        format!("https://app{k}.example.com/cb#frag{k}"),
        format!("http://app{k}.example.com/cb"),
        format!("http://insecure{k}.example.com/"),
        format!("app://cheese{k}"),
        format!("com.example.app{k}:/oauth2redirect"),
        format!("http://localhost:80{k}0/cb"),
        format!("https://portal{k}.example.com/?custom=foo"),
        format!("app{k}://localhost/cb"),
    ];
    // secure clients (at least one https) 70 %, insecure-only 30 %
    let secure = r.chance(7, 10);
    let mut urls: Vec<String> = vec![];
    let n = r.range(1, 4);
    for _ in 0..n {
        let c = r.pick(&pool).clone();
        if !secure && c.starts_with("https") {
            continue;
        }
        if !urls.contains(&c) {
            urls.push(c);
        }
    }
    if urls.is_empty() {
        urls.push(if secure { pool[0].clone() } else { pool[4].clone() });
    }
    if secure && !urls.iter().any(|u| u.starts_with("https")) {
        urls.insert(0, pool[0].clone());
    }
    let landing = urls.remove(0);
    let gen_maps = |r: &mut Rng, dense: bool| {
        let mut keys: Vec<&str> = GKEYS.to_vec();
        r.shuffle(&mut keys);
        let n = if dense { r.range(1, 4) } else { r.below(3) } as usize;
        keys[..n]
            .iter()
            .map(|g| {
                let mut ss: Vec<&str> = SCOPE_POOL.to_vec();
                r.shuffle(&mut ss);
                let m = r.range(1, 4) as usize;
                json!([g, ss[..m].to_vec()])
            })
            .collect::<Vec<_>>()
    };
    let maps = gen_maps(r, true);
    let sups = gen_maps(r, false);
    json!({
        "op": "client", "name": name, "basic": basic,
        "disable_pkce": if basic { flag(r) } else { Json::Null },
        "consent_prompt": flag(r),
        "localhost": if basic { Json::Null } else { flag(r) },
        "landing": landing, "extras": urls, "maps": maps, "sups": sups,
    })
}

/// Near misses of a registered URL (all must parse).
fn mutate_url(r: &mut Rng, base: &str) -> (String, &'static str) {
    let u = Url::parse(base).unwrap();
    let special = matches!(u.scheme(), "http" | "https");
    let cands: Vec<(String, &'static str)> = vec![
        (format!("{}/", base.split('#').next().unwrap().split('?').next().unwrap()), "trailing-slash"),
        (base.trim_end_matches('/').to_string(), "trim-slash"),
        (if special { let mut v = u.clone(); let _ = v.set_port(Some(9443)); v.to_string() } else { format!("{base}x") }, "port"),
        (if special { let mut v = u.clone(); let _ = v.set_port(Some(if u.scheme() == "https" { 443 } else { 80 })); v.to_string() } else { base.to_string() }, "default-port"),
        (if u.scheme() == "https" { base.replacen("https", "http", 1) } else if u.scheme() == "http" { base.replacen("http", "https", 1) } else { base.replacen(u.scheme(), "https", 1) }, "scheme"),
        (if special { base.replacen("://", "://user@", 1) } else { base.to_string() }, "userinfo"),
        (if special { base.replacen("://", "://user:pw@", 1) } else { base.to_string() }, "userinfo-pw"),
        (base.replacen("app", "APP", 1).replacen("http", "HTTP", 1), "scheme-host-case"),
        (base.replace("/cb", "/CB").replace("cheese", "Cheese"), "path-case"),
        (format!("{}/extra", base.split('#').next().unwrap().split('?').next().unwrap()), "path-prefix"),
        (base.replace("/cb", "/c"), "path-truncated"),
        (if base.contains('?') { format!("{base}&x=1") } else { format!("{}?x=1", base.split('#').next().unwrap()) }, "query-added"),
        (base.split('?').next().unwrap().to_string(), "query-dropped"),
        (format!("{}#other", base.split('#').next().unwrap()), "fragment"),
        (base.replace("/cb", "/a/../cb"), "dot-segments"),
        (base.replace("/cb", "/c%62"), "percent-encoded"),
        (base.replace(".example.com", ".example.com."), "host-trailing-dot"),
        (base.replace(".example.com", ".example.com.evil.net"), "host-suffix"),
        (base.replace("app", "xapp"), "host-prefix"),
        (base.split('#').next().unwrap().to_string(), "fragment-dropped"),
    ];
    let ok: Vec<&(String, &'static str)> = cands.iter().filter(|(s, _)| Url::parse(s).is_ok()).collect();
    let (s, k) = *r.pick(&ok);
    (s.clone(), k)
}

const LOOPBACKS: [&str; 22] = [
    "http://localhost/", "http://localhost:8080/cb", "http://127.0.0.1:8000/", "http://127.1/x", "http://[::1]/", "http://[::1]:9000/cb",
    "https://localhost/cb", "http://LOCALHOST/", "http://127.255.255.254/", "http://2130706433/", "http://0x7f.1/",
    "app://localhost/x", "ftp://127.0.0.1/",
    // not loopback
    "http://localhost.evil.com/", "http://localhost@evil.com/", "http://evil.com/localhost", "http://127.0.0.1.nip.io/",
    "http://localhost./", "http://[::ffff:127.0.0.1]/", "http://0.0.0.0/", "http://128.0.0.1/", "app://127.0.0.1/x",
];

fn gen_ident(r: &mut Rng, max_age: Option<i64>) -> Json {
    let lva = |r: &mut Rng| -> i64 {
        let m = max_age.map(|m| m.clamp(0, 86400)).unwrap_or(300);
        let edge = m * 1_000_000_000;
        match r.below(8) {
            0 => edge,
            1 => edge - 1,
            2 => edge + 1,
            3 => edge - 1_000_000_000,
            4 => edge + 1_000_000_000,
            5 => edge - 999_999_999,
            6 => 0,
            _ => r.below(200_000) as i64 * 1_000_000_000 + r.below(1_000_000_000) as i64,
        }
    };
    match r.below(100) {
        0..=13 => json!({"kind": "none"}),
        14..=21 => json!({"kind": "anon", "session": r.below(3), "lva_delta_ns": lva(r)}),
        22..=24 => json!({"kind": "internal"}),
        25..=28 => json!({"kind": "impersonate", "user": r.below(3)}),
        _ => json!({"kind": "user", "user": r.below(3), "session": r.below(3), "lva_delta_ns": lva(r)}),
    }
}

fn gen_auth(r: &mut Rng, clients: &[Json], users: &[Vec<u64>], nested: bool, boundary_bias: bool) -> Json {
    let c = r.pick(clients).clone();
    let name = c["name"].as_str().unwrap().to_string();
    let client_id = match r.below(32) {
        0 => name.to_uppercase(),
        1 => {
            let mut s = name.clone();
            s[..1].make_ascii_uppercase();
            s
        }
        2 => format!("{name}x"),
        3 => name[..name.len() - 1].to_string(),
        4 => if r.chance(1, 2) { "nosuchclient".to_string() } else { String::new() },
        _ => name.clone(),
    };
    let mut regs: Vec<String> = vec![c["landing"].as_str().unwrap().to_string()];
    regs.extend(c["extras"].as_array().unwrap().iter().map(|x| x.as_str().unwrap().to_string()));
    let (uri, uri_kind): (String, &str) = match r.below(if boundary_bias { 60 } else { 100 }) {
        0..=24 => {
            let b = r.pick(&regs).clone();
            mutate_url(r, &b)
        }
        25..=44 => (r.pick(&LOOPBACKS).to_string(), "loopback-family"),
        45..=49 => ("https://stranger.example.net/cb".to_string(), "stranger"),
        _ => {
            let x = r.pick(&regs);
            (Url::parse(x).unwrap().as_str().split('#').next().unwrap().to_string(), "registered")
        }
    };
    // scopes: mostly a subset of what the maps offer
    let mut offered: Vec<String> = c["maps"].as_array().unwrap().iter().flat_map(|m| m[1].as_array().unwrap().iter().map(|s| s.as_str().unwrap().to_string())).collect();
    offered.sort();
    offered.dedup();
    let mut scopes: Vec<String> = vec![];
    let n = r.range(1, 3) as usize;
    for _ in 0..n {
        if !offered.is_empty() {
            scopes.push(r.pick(&offered).clone());
        }
    }
    match r.below(if boundary_bias { 10 } else { 20 }) {
        0 => scopes.push(r.pick(&SCOPE_POOL).to_string()),
        1 => {
            let sup: Vec<String> = c["sups"].as_array().unwrap().iter().flat_map(|m| m[1].as_array().unwrap().iter().map(|s| s.as_str().unwrap().to_string())).collect();
            if !sup.is_empty() {
                scopes.push(r.pick(&sup).clone());
            }
        }
        2 => scopes.push(r.pick(&BAD_SCOPES).to_string()),
        3 => scopes.clear(),
        _ => {}
    }
    // 55 %: a person and scopes that person holds through this client's maps (a grant is possible)
    let mut forced_ident: Option<Json> = None;
    if r.chance(11, 20) {
        let u = r.below(3);
        let direct = &users[u as usize];
        let member = |g: &str| match g {
            "g0" => direct.contains(&0),
            "g1" => direct.contains(&1),
            "g2" => direct.contains(&2) || (nested && direct.contains(&3)),
            "g3" => direct.contains(&3),
            _ => true,
        };
        let mut held: Vec<String> = c["maps"].as_array().unwrap().iter().filter(|m| member(m[0].as_str().unwrap()))
            .flat_map(|m| m[1].as_array().unwrap().iter().map(|s| s.as_str().unwrap().to_string())).collect();
        held.sort();
        held.dedup();
        if !held.is_empty() {
            scopes.clear();
            for _ in 0..r.range(1, 3) {
                scopes.push(r.pick(&held).clone());
            }
            if r.chance(1, 8) {
                scopes.push(r.pick(&offered).clone());
            }
            forced_ident = Some(json!({"kind": "user", "user": u, "session": r.below(2), "lva_delta_ns": r.below(100) * 1_000_000_000 + r.below(1_000_000_000)}));
        }
    }
    let requires_pkce = !c["basic"].as_bool().unwrap() || c["disable_pkce"].as_bool() != Some(true);
    let pkce = if r.chance(if requires_pkce { 17 } else { 10 }, 20) { json!(format!("challenge-{:08x}-0123456789abcdef0123", r.below(4))) } else { Json::Null };
    let prompts: Vec<&str> = match r.below(40) {
        0..=21 => vec![],
        22..=25 => vec!["none"],
        26..=28 => vec!["login"],
        29..=30 => vec!["consent"],
        31 => vec!["select_account"],
        32 => vec!["none", "login"],
        33 => vec!["login", "consent"],
        34 => vec!["login", "consent", "select_account", "login"],
        35 => vec!["login", "consent", "select_account", "login", "consent"],
        36 => vec!["bogus"],
        37 => vec!["login", "bogus"],
        38 => vec!["none", "none"],
        _ => vec!["consent", "select_account"],
    };
    let max_age: Option<i64> = match r.below(12) {
        0..=6 => None,
        7 => Some(0),
        8 => Some(-5),
        9 => Some(*r.pick(&[1i64, 60, 300])),
        10 => Some(86400),
        _ => Some(*r.pick(&[86401i64, 100000, 3600])),
    };
    json!({
        "op": "auth", "client_id": client_id,
        "rtype": match r.below(40) { 0 => "token", 1 => "id_token", _ => "code" },
        "rmode": match r.below(20) { 0..=11 => Json::Null, 12..=13 => json!("query"), 14..=16 => json!("fragment"), 17..=18 => json!("form_post"), _ => json!("bogus") },
        "prompts": prompts, "pkce": pkce, "uri": uri, "uri_kind": uri_kind, "scopes": scopes,
        "state": if r.chance(1, 2) { json!(format!("st{}", r.below(3))) } else { Json::Null },
        "nonce": if r.chance(1, 3) { json!(format!("n{}", r.below(3))) } else { Json::Null },
        "max_age": max_age, "resumed": r.chance(1, 6),
        "dt_ns": r.below(5) * 1_000_000_000 + *r.pick(&[0u64, 1, 500_000_000, 999_999_999]),
        "ident": match forced_ident { Some(i) if r.chance(9, 10) => i, _ => gen_ident(r, max_age) },
    })
}

fn gen_permit(r: &mut Rng) -> Json {
    let s = 1_000_000_000i64;
    let at = *r.pick(&[s, 2 * s, 30 * s, 299 * s, 300 * s - 1, 300 * s, 300 * s + 1, 301 * s, 299 * s + 999_999_999, 1000 * s, s, s, s]);
    let ident = match r.below(20) {
        0..=13 => json!({"kind": "same"}),
        14..=15 => json!({"kind": "user", "user": r.below(3), "session": r.below(3), "lva_delta_ns": 1_000_000_000u64}),
        16 => json!({"kind": "anon", "session": r.below(3), "lva_delta_ns": 1_000_000_000u64}),
        17 => json!({"kind": "internal"}),
        18 => json!({"kind": "impersonate", "user": r.below(3)}),
        _ => json!({"kind": "same"}),
    };
    json!({"op": "permit", "back": if r.chance(3, 4) { 0 } else { r.below(4) }, "at_ns": at, "ident": ident})
}

fn gen_scenario(seed: u64, i: u64, boundary_bias: bool) -> Json {
    let mut r = Rng::for_case(seed, i);
    let users: Vec<Vec<u64>> = (0..3).map(|_| (0..4u64).filter(|_| r.chance(2, 5)).collect()).collect();
    let nested = r.chance(1, 2);
    let nclients = r.range(2, 3);
    let mut clients: Vec<Json> = vec![];
    let mut ops: Vec<Json> = vec![];
    for k in 0..nclients {
        let basic = r.chance(1, 2);
        let c = gen_client(&mut r, &format!("c38rs{k}"), k, basic);
        clients.push(c.clone());
        ops.push(c);
    }
    let nops = r.range(40, 70);
    for _ in 0..nops {
        match r.below(100) {
            0..=5 => {
                let k = r.below(nclients) as usize;
                let basic = clients[k]["basic"].as_bool().unwrap();
                let c = gen_client(&mut r, &format!("c38rs{k}"), k as u64, basic);
                clients[k] = c.clone();
                ops.push(c);
            }
            6 => {
                // delete and (later) recreate
                let k = r.below(nclients) as usize;
                ops.push(json!({"op": "delclient", "name": format!("c38rs{k}")}));
                let basic = r.chance(1, 2);
                let c = gen_client(&mut r, &format!("c38rs{k}"), k as u64, basic);
                clients[k] = c.clone();
                if r.chance(1, 2) {
                    ops.push(gen_auth(&mut r, &clients, &users, nested, boundary_bias));
                    ops.push(gen_permit(&mut r));
                }
                ops.push(c);
            }
            7..=12 => ops.push(gen_permit(&mut r)),
            25..=26 => ops.push(json!({"op": "badpermit", "how": *r.pick(&["garbage", "truncated", "flipped", "empty"])})),
            _ => {
                ops.push(gen_auth(&mut r, &clients, &users, nested, boundary_bias));
                // usually answer a consent request at once (a no-op when none was issued yet)
                if r.chance(2, 5) {
                    let mut p = gen_permit(&mut r);
                    p["back"] = json!(0);
                    p["fresh_only"] = json!(true);
                    ops.push(p);
                }
            }
        }
    }
    json!({"nested": nested, "users": users, "ops": ops})
}

/// The scripted corpus: every near miss against fixed clients, by a user who holds the scopes.
fn corpus() -> Json {
    let public = json!({"op": "client", "name": "c38pub", "basic": false, "disable_pkce": null, "consent_prompt": false, "localhost": true,
        "landing": "https://app.example.com/cb", "extras": ["https://app.example.com/oauth2/result?custom=foo", "app://cheese", "https://app.example.com/frag#f"],
        "maps": [["g0", ["openid", "email"]], ["accounts", ["profile"]]], "sups": [["g0", ["groups"]], ["g1", ["admin"]]]});
    let public_nolocal = json!({"op": "client", "name": "c38pub2", "basic": false, "disable_pkce": null, "consent_prompt": null, "localhost": false,
        "landing": "https://two.example.com/cb", "extras": [], "maps": [["persons", ["openid"]]], "sups": []});
    let basic = json!({"op": "client", "name": "c38basic", "basic": true, "disable_pkce": true, "consent_prompt": false, "localhost": null,
        "landing": "http://legacy.example.com/cb", "extras": ["http://localhost:8080/cb"], "maps": [["g0", ["openid", "read"]]], "sups": []});
    let basic_pkce = json!({"op": "client", "name": "c38basic2", "basic": true, "disable_pkce": false, "consent_prompt": false, "localhost": null,
        "landing": "https://conf.example.com/cb", "extras": ["http://conf.example.com/cb"], "maps": [["g0", ["openid"]], ["accounts", ["profile"]]], "sups": []});
    let mut ops = vec![public.clone(), public_nolocal.clone(), basic.clone(), basic_pkce.clone()];
    let user = json!({"kind": "user", "user": 0, "session": 1, "lva_delta_ns": 5_000_000_000u64});
    let mk = |cid: &str, uri: &str, kind: &str, pkce: bool, scopes: Vec<&str>, ident: &Json| {
        json!({"op": "auth", "client_id": cid, "rtype": "code", "rmode": null, "prompts": [], "pkce": if pkce { json!("corpus-challenge-0123456789abcdef") } else { Json::Null },
            "uri": uri, "uri_kind": kind, "scopes": scopes, "state": "st", "nonce": null, "max_age": null, "resumed": false, "dt_ns": 1_000_000_000u64, "ident": ident})
    };
    // every mutation of every registered URL of the public client, and the loopback family, on each client
    for base in ["https://app.example.com/cb", "https://app.example.com/oauth2/result?custom=foo", "app://cheese", "https://app.example.com/frag"] {
        ops.push(mk("c38pub", base, "registered", true, vec!["openid"], &user));
        let mut r = Rng::for_case(0xC38, 1);
        let mut seen = BTreeSet::new();
        for _ in 0..200 {
            let (m, k) = mutate_url(&mut r, base);
            if seen.insert(m.clone()) {
                ops.push(mk("c38pub", &m, k, true, vec!["openid"], &user));
            }
        }
    }
    for l in LOOPBACKS {
        for cid in ["c38pub", "c38pub2", "c38basic", "c38basic2"] {
            ops.push(mk(cid, l, "loopback-family", cid != "c38basic", vec!["openid"], &user));
        }
    }
    // identities and scopes
    for ident in [json!({"kind": "none"}), json!({"kind": "anon", "session": 0, "lva_delta_ns": 1}), json!({"kind": "internal"}), json!({"kind": "impersonate", "user": 0}),
        json!({"kind": "user", "user": 1, "session": 0, "lva_delta_ns": 1}), json!({"kind": "user", "user": 2, "session": 0, "lva_delta_ns": 1})] {
        ops.push(mk("c38pub", "https://app.example.com/cb", "registered", true, vec!["openid"], &ident));
        ops.push(mk("c38pub", "https://app.example.com/cb", "registered", true, vec!["profile"], &ident));
        ops.push(mk("c38basic2", "https://conf.example.com/cb", "registered", true, vec!["profile"], &ident));
    }
    for scopes in [vec!["openid", "email"], vec!["openid", "groups"], vec!["admin"], vec!["openid", "bad scope"], vec![], vec!["profile"], vec!["read"]] {
        ops.push(mk("c38pub", "https://app.example.com/cb", "registered", true, scopes, &user));
    }
    // PKCE matrix
    for (cid, uri) in [("c38pub", "https://app.example.com/cb"), ("c38basic", "http://legacy.example.com/cb"), ("c38basic2", "https://conf.example.com/cb"), ("C38BASIC2", "http://conf.example.com/cb"), ("c38Basic", "http://localhost:8080/cb")] {
        for pk in [true, false] {
            ops.push(mk(cid, uri, "registered", pk, vec!["openid"], &user));
        }
    }
    // consent flow on the client that prompts, permit around the expiry second, then again
    ops.push(mk("c38pub2", "https://two.example.com/cb", "registered", true, vec!["openid"], &user));
    for at in [300_000_000_000i64, 299_999_999_999, 1_000_000_000] {
        ops.push(json!({"op": "permit", "back": 0, "at_ns": at, "ident": {"kind": "same"}}));
    }
    ops.push(mk("c38pub2", "https://two.example.com/cb", "registered", true, vec!["openid"], &user));
    ops.push(json!({"op": "permit", "back": 0, "at_ns": 1_000_000_000i64, "ident": {"kind": "user", "user": 1, "session": 1, "lva_delta_ns": 1}}));
    ops.push(json!({"op": "permit", "back": 0, "at_ns": 1_000_000_000i64, "ident": {"kind": "user", "user": 0, "session": 2, "lva_delta_ns": 1}}));
    for how in ["garbage", "truncated", "flipped", "empty"] {
        ops.push(json!({"op": "badpermit", "how": how}));
    }
    json!({"nested": true, "users": [[0, 3], [1], []], "ops": ops})
}

/// Shrink a failing scenario: drop ops while an oracle failure of the same class remains.
async fn shrink(sc: &Json, class: &str, drv: &mut Driver, rep: &mut Report) -> Json {
    let ops = sc["ops"].as_array().unwrap().clone();
    let mut cur = ops;
    let mut chunk = cur.len().max(1) / 2;
    let mut budget = 60;
    while chunk >= 1 && budget > 0 {
        let mut i = 0;
        let mut progressed = false;
        while i + chunk <= cur.len() && budget > 0 {
            let mut cand = cur.clone();
            cand.drain(i..i + chunk);
            let mut s = sc.clone();
            s["ops"] = Json::Array(cand.clone());
            budget -= 1;
            let f = run_scenario(&s, drv, rep, false).await;
            if f.iter().any(|x| x.class == class) {
                cur = cand;
                progressed = true;
            } else {
                i += chunk;
            }
        }
        if !progressed {
            if chunk == 1 {
                break;
            }
            chunk /= 2;
        }
    }
    let mut s = sc.clone();
    s["ops"] = Json::Array(cur);
    s
}

fn main() {
    if std::env::var_os("RUST_LOG").is_none() {
        std::env::set_var("RUST_LOG", "off");
    }
    let args = Args::parse();
    let rt = tokio::runtime::Builder::new_current_thread().enable_all().build().unwrap();
    let mut rep = Report::new(
        "oauth2-authz",
        "scripted corpus + random scenarios (client configurations, reconfigurations, requests, permits) on a real IdmServer; \
         a case = one auth or permit op; non-trivial = the request named a registered client and passed the response-type check \
         (a redirect decision was made) or a permit of an issued token; distinct = distinct model request line",
    );
    let mut drv = Driver::spawn(&args.driver);
    rt.block_on(async {
        if let Some(path) = &args.replay {
            let v: Json = serde_json::from_str(&std::fs::read_to_string(path).unwrap()).unwrap();
            let sc = v["input"].clone();
            if !sc["ops"].is_array() {
                return;
            }
            let fails = run_scenario(&sc, &mut drv, &mut rep, true).await;
            for f in fails {
                rep.fail(f);
            }
            return;
        }
        let mut scenarios: Vec<(String, Json)> = vec![("corpus".into(), corpus())];
        let n = args.cases(30, 900);
        for i in 0..n {
            scenarios.push((format!("random{i}"), gen_scenario(args.seed, i, args.budget > 1 && i % 2 == 1)));
        }
        for (name, sc) in scenarios {
            let fails = run_scenario(&sc, &mut drv, &mut rep, true).await;
            if let Some(first) = fails.first() {
                // shrink on the first oracle failure, report, and stop searching
                let small = shrink(&first.input, &first.class, &mut drv, &mut rep).await;
                let again = run_scenario(&small, &mut drv, &mut rep, false).await;
                let f = again.into_iter().find(|x| x.class == first.class).unwrap_or_else(|| first.clone());
                rep.note(format!("oracle failure in scenario {name}"));
                rep.fail(f);
                break;
            }
        }
    });
    rep.model_requests = drv.requests;
    rep.write(&args.out);
    println!("c38: {} cases, {} distinct non-trivial, {} failures", rep.evaluations, rep.nontrivial_keys.len(), rep.failures.len());
}
