//! C01 — search returns exactly the matching entries, whatever is indexed.
//!
//! Drives the real `Backend` (in-memory SQLite, hook `verif_hooks::c01`) with small databases over
//! four real attributes (class/Iutf8 multi-valued, name/Iname, description/Utf8, gidnumber/Uint32),
//! re-indexed under many index layouts, and searches them with filters that went through the real
//! `validate -> resolve` pipeline (FC route, SCIM route for starts/ends-with; resolved against the
//! backend's own index metadata, against a foreign `IdxMeta` with arbitrary slopes, with and without
//! the query server's resolve cache).
//!
//! Per case (db, layout, filter, limits):
//!   model  : the dumped index tables + entries + the *resolved* filter go to the Lean driver;
//!            `filter2idl` (kind + id set, thresholds 0/1/3/100), `search`, `exists` and
//!            `entry_match_no_index` (per entry) must agree exactly; the driver also checks that the
//!            dumped tables equal the reference index of the entries (`IdxSound`, the theorem's
//!            hypothesis) and says whether the filter is `safe` (then the theorem applies).
//!   oracle : written from the property text only — a plain boolean evaluator of the *unresolved*
//!            tree on the plain entries: a search must fail with ResourceLimit or return exactly the
//!            ids whose entry satisfies the tree; exists likewise; the answer must be the same under
//!            every layout, cold and warm.
//! Known finding D1 (`D1:isolated-not`): recognised on the minimised witness as "contains a NOT
//! that is not guarded by a positive AND sibling, and guarding every such NOT with an always-true
//! sibling (`pres class`) makes the implementation's answer correct". Anything else is unclassified.
#![allow(dead_code)]
use hlib::*;
use kanidm_proto::scim_v1::{AttrPath, ScimFilter};
use kanidmd_lib::be::{Backend, BackendTransaction, IdxMeta, Limits};
use kanidmd_lib::entry::{Entry, EntryInit, EntryNew};
use kanidmd_lib::filter::{FilterResolved, FilterValidResolved};
use kanidmd_lib::prelude::*;
use kanidmd_lib::testkit::{setup_test, TestConfiguration};
use kanidmd_lib::verif_hooks::{c01, c02};
use serde_json::{json, Value as Json};
use std::collections::{BTreeMap, BTreeSet};

include!("../bin_c01/common.rs");

// ---------------------------------------------------------------------------------------------

/// `AVG_RANGE_COMP_REQ` of idlset 0.2.5 on this architecture
#[cfg(target_arch = "x86_64")]
const IDLSET_AVG_RANGE_COMP_REQ: usize = 12;
#[cfg(target_arch = "aarch64")]
const IDLSET_AVG_RANGE_COMP_REQ: usize = 5;
#[cfg(not(any(target_arch = "aarch64", target_arch = "x86_64")))]
const IDLSET_AVG_RANGE_COMP_REQ: usize = 14;

struct Loaded {
    db: Db,
    be: Backend,
    ids: Vec<u64>,
    layout: Vec<(usize, char)>,
    /// index metadata when it differs from the tables
    meta: Option<Vec<(usize, char)>>,
    /// answers seen for a tree under earlier layouts of this database (layout independence)
    seen: BTreeMap<String, (String, String)>,
}

struct Ctx<'a, 'b> {
    ident: Identity,
    qs: &'b mut QueryServerReadTransaction<'a>,
    drv: Driver,
    rep: Report,
    known_recorded: BTreeMap<String, u32>,
    consts: (usize, usize, usize),
}

#[derive(Clone, Debug)]
struct Case {
    t: T,
    route: String,
    /// "be" = the backend's own idxmeta, otherwise a foreign layout text `a:t:slope,…` / `-`
    resolve: String,
    rcache: bool,
    lims: (bool, usize, usize),
}

fn ids_text(v: &[u64]) -> String {
    if v.is_empty() {
        "-".into()
    } else {
        v.iter().map(|x| x.to_string()).collect::<Vec<_>>().join(",")
    }
}

fn kind_first(s: &str) -> &str {
    s.split('(').next().unwrap_or("?")
}

impl<'a, 'b> Ctx<'a, 'b> {
    fn load(&mut self, db: &Db) -> Result<Loaded, String> {
        let be = c01::backend_new(&[]).map_err(|e| format!("{e:?}"))?;
        let ids = {
            let mut wr = be.write().map_err(|e| format!("{e:?}"))?;
            let ents: Vec<_> = db.plain.iter().enumerate().map(|(n, p)| real_entry(p, n)).collect();
            let ids = c01::create(&mut wr, self.qs.get_schema(), ents, 10)?;
            wr.commit().map_err(|e| format!("{e:?}"))?;
            ids
        };
        let line = format!(
            "db | {}",
            db_text(db).split(';').zip(ids.iter()).map(|(e, id)| format!("{id}:{e}")).collect::<Vec<_>>().join(";")
        );
        let r = self.drv.ask(&line);
        assert!(r.starts_with("ok "), "driver refused the database: {r} / {line}");
        Ok(Loaded { db: db.clone(), be, ids, layout: vec![], meta: None, seen: BTreeMap::new() })
    }

    /// re-index under `layout` (second `update_idxmeta` picks up the analysed slopes when `stats`),
    /// dump the tables to the model and check the theorem's index hypothesis
    fn set_layout(&mut self, ld: &mut Loaded, layout: &[(usize, char)], stats: bool) -> Result<(), String> {
        self.set_layout_meta(ld, layout, stats, None)
    }

    /// `meta`: after the reindex under `layout`, replace the index metadata alone by this layout
    /// (tables and metadata then disagree: configured-but-missing and present-but-unconfigured tables)
    fn set_layout_meta(&mut self, ld: &mut Loaded, layout: &[(usize, char)], stats: bool, meta: Option<&[(usize, char)]>) -> Result<(), String> {
        {
            let mut wr = ld.be.write().map_err(|e| format!("{e:?}"))?;
            c01::set_layout(&mut wr, &real_layout(layout), true).map_err(|e| format!("{e:?}"))?;
            if stats {
                c01::set_layout(&mut wr, &real_layout(layout), false).map_err(|e| format!("{e:?}"))?;
            }
            if let Some(m) = meta {
                c01::set_layout(&mut wr, &real_layout(m), false).map_err(|e| format!("{e:?}"))?;
            }
            wr.commit().map_err(|e| format!("{e:?}"))?;
        }
        ld.layout = layout.to_vec();
        ld.meta = meta.map(|m| m.to_vec());
        let mut rd = ld.be.read().map_err(|e| format!("{e:?}"))?;
        let dump = c01::dump_indexes(&mut rd).map_err(|e| format!("{e:?}"))?;
        let mut tbls = vec![];
        let mut rows = vec![];
        for (name, content) in dump {
            // idx_<itype>_<attr>
            let rest = name.strip_prefix("idx_").ok_or(format!("table {name}"))?;
            let (it, attr) = rest.split_once('_').ok_or(format!("table {name}"))?;
            let c = match it {
                "eq" => 'e',
                "sub" => 's',
                "pres" => 'p',
                "ord" => 'o',
                _ => return Err(format!("table {name}")),
            };
            let a = atom(&Attribute::from(attr));
            if a == 99 {
                return Err(format!("table {name} for an attribute outside the layout"));
            }
            tbls.push(format!("{a}:{c}"));
            for (k, ids) in content {
                // the representation `optimise_dirty_idls` -> `IDLBitRange::maybe_compress` leaves in the idl
                // cache after a reindex (idlset 0.2.5, x86_64: >= 12 ids and >= 12 ids per 64-id range)
                let nranges = ids.iter().map(|i| i / 64).collect::<BTreeSet<_>>().len();
                let comp = ids.len() >= IDLSET_AVG_RANGE_COMP_REQ && ids.len() / nranges.max(1) >= IDLSET_AVG_RANGE_COMP_REQ;
                let kv = if c == 'e' && KINDS[a] == AK::U32 {
                    V::N(k.parse().map_err(|_| format!("numeric key {k}"))?)
                } else {
                    V::S(k.as_bytes().to_vec())
                };
                let idt = if ids.is_empty() { "-".to_string() } else { ids.iter().map(|x| x.to_string()).collect::<Vec<_>>().join(".") };
                if comp {
                    self.rep.count("index-rows:compressed");
                } else {
                    self.rep.count("index-rows:sparse");
                }
                rows.push(format!("{a}:{c}:{}:{idt}:{}", show_v(&kv), comp as u8));
            }
        }
        let mut want: Vec<String> = layout.iter().map(|(a, c)| format!("{a}:{c}")).collect();
        want.sort();
        let mut got = tbls.clone();
        got.sort();
        if want != got {
            return Err(format!("tables after reindex {got:?} != layout {want:?}"));
        }
        let r1 = self.drv.ask(&format!("tbl | {}", if tbls.is_empty() { "-".into() } else { tbls.join(",") }));
        let r2 = self.drv.ask(&format!("rows | {}", if rows.is_empty() { "-".into() } else { rows.join(";") }));
        assert!(r1.starts_with("ok ") && r2.starts_with("ok "), "driver refused tables: {r1} {r2}");
        let s = self.drv.ask("sound");
        if s != "sound" {
            return Err(format!("index tables do not mirror the entries: {s}"));
        }
        Ok(())
    }

    fn build(&mut self, c: &Case, meta: &IdxMeta) -> Result<Filter<FilterValidResolved>, String> {
        let fi = if c.route == "scim" {
            let sf = to_scim(&c.t).ok_or("not-scim-expressible")?;
            Filter::from_scim_ro(&self.ident, &sf, self.qs).map_err(|e| format!("{e:?}"))?
        } else {
            Filter::new(to_fc(&c.t).ok_or("not-fc-expressible")?)
        };
        let fv = fi.validate(self.qs.get_schema()).map_err(|e| format!("{e:?}"))?;
        let foreign;
        let m: &IdxMeta = if c.resolve == "be" {
            meta
        } else {
            let keys: Vec<(Attribute, IndexType, u8)> = if c.resolve == "-" {
                vec![]
            } else {
                c.resolve
                    .split(',')
                    .map(|it| {
                        let p: Vec<&str> = it.split(':').collect();
                        (attrs()[p[0].parse::<usize>().unwrap()].clone(), it_of(p[1].chars().next().unwrap()), p[2].parse().unwrap())
                    })
                    .collect()
            };
            foreign = c02::idxmeta(&keys);
            &foreign
        };
        let cache = if c.rcache { self.qs.get_resolve_filter_cache() } else { None };
        fv.resolve(&self.ident, Some(m), cache).map_err(|e| format!("{e:?}"))
    }

    /// One case on the loaded database; returns failures (not recorded) .
    fn eval(&mut self, ld: &mut Loaded, c: &Case, stats: bool) -> Vec<Failure> {
        let mut fails = vec![];
        let input = json!({
            "db": db_text(&ld.db), "layout": layout_text(&ld.layout), "meta": ld.meta.as_ref().map(|m| layout_text(m)), "t": show_t(&c.t), "route": c.route,
            "resolve": c.resolve, "rcache": c.rcache,
            "lims": [c.lims.0 as u64, c.lims.1 as u64, c.lims.2 as u64],
        });
        let mut rd = ld.be.read().expect("read txn");
        let meta = rd.get_idxmeta_ref().clone();
        let f = match self.build(c, &meta) {
            Ok(f) => f,
            Err(e) => {
                if stats {
                    self.rep.count(&format!("rejected:{}", kind_first(&e)));
                    self.rep.case(None);
                }
                return fails;
            }
        };
        let mut fail = |kind: &str, expected: String, observed: String| {
            fails.push(Failure { kind: kind.into(), class: "unclassified".into(), input: input.clone(), expected, observed });
        };
        let ftext = show_fr(f.to_inner());
        let lims = Limits { unindexed_allow: c.lims.0, search_max_results: c.lims.1, search_max_filter_test: c.lims.2, filter_max_elements: usize::MAX };

        // ---- implementation
        let mut impl_f2i = vec![];
        for thres in [0usize, 1, 3, 100] {
            match c01::filter2idl(&mut rd, &f, thres) {
                Ok((k, mut ids)) => {
                    ids.sort();
                    impl_f2i.push(format!("{k} {}", ids_text(&ids)));
                }
                Err(e) => impl_f2i.push(format!("err {e:?}")),
            }
        }
        let run_search = |rd: &mut kanidmd_lib::be::BackendReadTransaction<'_>| -> String {
            match rd.search(&lims, &f) {
                Ok(es) => {
                    let mut ids: Vec<u64> = es.iter().map(|e| e.get_id()).collect();
                    ids.sort();
                    format!("ok {}", ids_text(&ids))
                }
                Err(OperationError::ResourceLimit) => "err limit".into(),
                Err(e) => format!("err {e:?}"),
            }
        };
        let run_exists = |rd: &mut kanidmd_lib::be::BackendReadTransaction<'_>| -> String {
            match rd.exists(&lims, &f) {
                Ok(b) => format!("ok {}", b as u8),
                Err(OperationError::ResourceLimit) => "err limit".into(),
                Err(e) => format!("err {e:?}"),
            }
        };
        let impl_search = run_search(&mut rd);
        let impl_exists = run_exists(&mut rd);
        // warm: idl cache and entry cache now hold what the first pass loaded
        let warm_search = run_search(&mut rd);
        let warm_exists = run_exists(&mut rd);
        // entry_match_no_index of the resolved filter on the harness's own copies of the entries
        let impl_mm: String =
            ld.db.plain.iter().enumerate().map(|(n, p)| if real_entry(p, n).entry_match_no_index(&f) { '1' } else { '0' }).collect();
        drop(rd);

        // ---- oracle (property text): exact answer by the plain evaluator on the unresolved tree
        let oracle_applies = !has_inc(&c.t);
        let want_ids: Vec<u64> = ld.db.plain.iter().zip(ld.ids.iter()).filter(|(p, _)| plain(&c.t, p)).map(|(_, id)| *id).collect();
        let want_search = format!("ok {}", ids_text(&want_ids));
        let want_exists = format!("ok {}", (!want_ids.is_empty()) as u8);
        if oracle_applies {
            if impl_search != "err limit" && impl_search != want_search {
                fail("impl-vs-oracle", format!("search: ResourceLimit or exactly {want_search}"), impl_search.clone());
            }
            if impl_exists != "err limit" && impl_exists != want_exists {
                fail("impl-vs-oracle", format!("exists: ResourceLimit or {want_exists}"), impl_exists.clone());
            }
            if warm_search != impl_search || warm_exists != impl_exists {
                fail("impl-vs-oracle", format!("warm caches answer as cold: {impl_search} / {impl_exists}"), format!("{warm_search} / {warm_exists}"));
            }
            // the same tree under another layout of the same database, same limits
            if !impl_search.starts_with("err") && !impl_exists.starts_with("err") {
                let key = format!("{}|{}", show_t(&c.t), c.route);
                match ld.seen.get(&key) {
                    Some((s, e)) => {
                        if *s != impl_search || *e != impl_exists {
                            fail("impl-vs-oracle", format!("same answer as under an earlier layout: {s} / {e}"), format!("{impl_search} / {impl_exists}"));
                        }
                    }
                    None => {
                        if ld.seen.len() < 20_000 {
                            ld.seen.insert(key, (impl_search.clone(), impl_exists.clone()));
                        }
                    }
                }
            }
        }

        // ---- model
        let lim_txt = format!("{} {} {}", c.lims.0 as u8, c.lims.1, c.lims.2);
        let mut lines = vec![];
        for thres in [0usize, 1, 3, 100] {
            lines.push(format!("f2i {thres} | {ftext}"));
        }
        lines.push(format!("search {lim_txt} - | {ftext}"));
        lines.push(format!("exists {lim_txt} - | {ftext}"));
        lines.push(format!("mm | {ftext}"));
        lines.push(format!("cls | {ftext}"));
        let mut replies = self.drv.ask_batch(&lines);
        // The representation of the stored id sets (sparse / compressed) is not observable; the
        // harness derives it from idlset's compression rule. Should a row sit in the idl cache in
        // the other representation (it only changes which sound early return an *empty* candidate
        // takes), accept the model's answer under "all sparse" or "all compressed" — the theorems
        // hold for every representation — and count it.
        let agrees = |rp: &Vec<String>| (0..4).all(|i| rp[i] == impl_f2i[i]) && rp[4] == impl_search && rp[5] == impl_exists;
        if !agrees(&replies) {
            for mode in [1, 2] {
                self.drv.ask(&format!("repmode {mode}"));
                let alt = self.drv.ask_batch(&lines);
                self.drv.ask("repmode 0");
                if agrees(&alt) {
                    if stats {
                        self.rep.count("model:agrees-under-other-set-representation");
                    }
                    replies = alt;
                    break;
                }
            }
        }
        for (i, thres) in [0usize, 1, 3, 100].iter().enumerate() {
            if replies[i] != impl_f2i[i] {
                fail("impl-vs-model", format!("filter2idl(thres={thres}) of {ftext}: model {}", replies[i]), impl_f2i[i].clone());
            }
        }
        if replies[4] != impl_search {
            fail("impl-vs-model", format!("search of {ftext}: model {}", replies[4]), impl_search.clone());
        }
        if replies[5] != impl_exists {
            fail("impl-vs-model", format!("exists of {ftext}: model {}", replies[5]), impl_exists.clone());
        }
        if replies[6] != impl_mm {
            fail("impl-vs-model", format!("matches(model) of {ftext} = {}", replies[6]), format!("entry_match_no_index = {impl_mm}"));
        }
        let safe = replies[7].starts_with("1 ");
        // a safe filter over a sound index is covered by the theorem: the model's own answer must
        // then be the oracle's (anything else means the hypotheses were mis-checked)
        if safe && oracle_applies && replies[4] != "err limit" && replies[4] != want_search {
            fail("impl-vs-model", format!("theorem instance: model search of safe {ftext} = {want_search}"), replies[4].clone());
        }

        if stats {
            let mut kinds = BTreeSet::new();
            conn_kinds(&c.t, &mut kinds);
            let (mut ni, mut nu) = (0, 0);
            fr_terms(f.to_inner(), &mut ni, &mut nu);
            let strict = !want_ids.is_empty() && want_ids.len() < ld.ids.len();
            self.rep.count(&format!("route:{}", c.route));
            self.rep.count(&format!("resolve:{}", if c.resolve == "be" { "be-idxmeta" } else { "foreign-idxmeta" }));
            self.rep.count(if c.rcache { "resolve-cache:on" } else { "resolve-cache:off" });
            self.rep.count(&format!("idl0:{}", impl_f2i[0].split(' ').next().unwrap_or("?")));
            self.rep.count(&format!("idl3:{}", impl_f2i[2].split(' ').next().unwrap_or("?")));
            self.rep.count(&format!("search:{}", impl_search.split(' ').take(if impl_search.starts_with("err") { 2 } else { 1 }).collect::<Vec<_>>().join("-")));
            self.rep.count(&format!("depth:{}", depth(&c.t)));
            self.rep.count(if safe { "safe:yes" } else { "safe:no" });
            self.rep.count(if has_isolated_not(&c.t, false) { "isolated-not:yes" } else { "isolated-not:no" });
            for k in &kinds {
                self.rep.count(&format!("has:{k}"));
            }
            self.rep.count_n("searches", 4);
            let nontrivial = kinds.len() >= 2 && strict && ni > 0 && nu > 0 && !impl_search.starts_with("err");
            let key = if nontrivial { Some(format!("{}|{}|{}", db_text(&ld.db).len(), layout_text(&ld.layout), ftext)) } else { None };
            self.rep.case(key);
            if self.rep.evaluations % 4001 == 1 {
                self.rep.sample(json!({"db": db_text(&ld.db), "layout": layout_text(&ld.layout), "t": show_t(&c.t), "resolved": ftext,
                    "filter2idl": impl_f2i, "search": impl_search, "exists": impl_exists}));
            }
        }
        fails
    }

    /// Recognisers: a deviation is a known finding only if the witness has the known-defective
    /// shape AND removing that shape by a meaning-preserving rewrite makes the implementation correct.
    fn classify(&mut self, ld: &mut Loaded, c: &Case, fails: &[Failure]) -> String {
        if fails.iter().any(|f| f.kind != "impl-vs-oracle") {
            return "unclassified".into();
        }
        let d1 = has_isolated_not(&c.t, false);
        let f2 = has_empty_needle(&c.t);
        let mut cured = |ctx: &mut Self, t: T| -> bool {
            let mut g = c.clone();
            g.t = t;
            ctx.eval(ld, &g, false).is_empty()
        };
        if d1 && cured(self, guard_nots(&c.t, false)) {
            "D1:isolated-not".into()
        } else if f2 && cured(self, fill_needles(&c.t)) {
            "C01-F2:empty-substring-needle".into()
        } else if d1 && f2 && cured(self, guard_nots(&fill_needles(&c.t), false)) {
            self.rep.count("known:mixed-D1-and-F2");
            "C01-F2:empty-substring-needle".into()
        } else {
            "unclassified".into()
        }
    }

    /// evaluate; on failure classify; shrink + record unless enough witnesses of that known class exist
    fn run(&mut self, ld: &mut Loaded, c: &Case) {
        let fails = self.eval(ld, c, true);
        if fails.is_empty() {
            return;
        }
        let class0 = self.classify(ld, c, &fails);
        if class0 != "unclassified" && self.known_recorded.get(&class0).copied().unwrap_or(0) >= 2 {
            self.rep.count(&format!("known:{class0}"));
            return;
        }
        let kind0 = fails[0].kind.clone();
        let mut cur = c.clone();
        let mut cur_fails = fails;
        let mut budget = 200;
        'outer: loop {
            for cand in shrinks(&cur.t) {
                if budget == 0 {
                    break 'outer;
                }
                budget -= 1;
                let mut cc = cur.clone();
                cc.t = cand;
                let f = self.eval(ld, &cc, false);
                if f.iter().any(|x| x.kind == kind0) {
                    cur = cc;
                    cur_fails = f;
                    continue 'outer;
                }
            }
            break;
        }
        let class = self.classify(ld, &cur, &cur_fails);
        if class != "unclassified" {
            self.rep.count(&format!("known:{class}"));
            *self.known_recorded.entry(class.clone()).or_insert(0) += 1;
        }
        for mut f in cur_fails {
            f.class = class.clone();
            self.rep.fail(f);
        }
    }
}

fn main() {
    let args = Args::parse();
    let rt = tokio::runtime::Builder::new_current_thread().enable_all().build().unwrap();
    rt.block_on(async {
        let qs = setup_test(TestConfiguration::default()).await;
        let mut qs_read = qs.read().await.expect("read txn");
        let entry = qs_read.internal_search_uuid(UUID_IDM_ADMIN).expect("idm_admin");
        let ident = Identity::from_impersonate_entry_readwrite(entry);
        let mut ctx = Ctx {
            ident,
            qs: &mut qs_read,
            drv: Driver::spawn(&args.driver),
            rep: Report::new(
                "filter-search",
                "Backend::search / exists / filter2idl on in-memory databases of 1..10 entries over class (multi-valued), name, description, \
                 gidnumber, re-indexed under subsets of 12 (attribute, index type) tables, with filters from the real validate->resolve pipeline \
                 (FC and SCIM routes; backend idxmeta with default and analysed slopes, foreign idxmeta with arbitrary slopes, resolve cache on/off), \
                 limits unlimited and tiny, cold and warm. Strata: corpus (D13 repaired, D1 known) x every layout of the tables the tree touches; \
                 exhaustive depth<=2 trees x sampled layouts; random depth<=5 trees x random layouts x random databases. non-trivial = >= 2 \
                 connective kinds AND the answer is a non-empty strict subset of the database AND the resolved filter has an indexed and an \
                 unindexed term AND the search succeeded; distinct = distinct (db, layout, resolved filter)",
            ),
            known_recorded: BTreeMap::new(),
            consts: (0, 0, 0),
        };
        let cs = ctx.drv.ask("consts");
        let p: Vec<usize> = cs.split(' ').map(|x| x.parse().unwrap()).collect();
        ctx.consts = (p[0], p[1], p[2]);
        ctx.rep.note(format!("generated thresholds: search={} exists={} substr={}", p[0], p[1], p[2]));
        run_all(&args, &mut ctx);
        ctx.rep.model_requests = ctx.drv.requests;
        ctx.rep.write(&args.out);
        println!("c01: {} cases, {} distinct non-trivial, {} failures", ctx.rep.evaluations, ctx.rep.nontrivial_keys.len(), ctx.rep.failures.len());
    });
}

fn infra_failure(ctx: &mut Ctx, what: &str, input: Json, e: String) {
    ctx.rep.fail(Failure { kind: "impl-vs-model".into(), class: "unclassified".into(), input, expected: what.into(), observed: e });
}

fn unlimited() -> (bool, usize, usize) {
    (true, 1 << 40, 1 << 40)
}

fn run_all(args: &Args, ctx: &mut Ctx) {
    if let Some(path) = &args.replay {
        let v: Json = serde_json::from_str(&std::fs::read_to_string(path).unwrap()).unwrap();
        let inp = &v["input"];
        let db = parse_db(inp["db"].as_str().unwrap());
        let layout = parse_layout(inp["layout"].as_str().unwrap());
        let lims = &inp["lims"];
        let c = Case {
            t: parse_t(inp["t"].as_str().unwrap()),
            route: inp["route"].as_str().unwrap().to_string(),
            resolve: inp["resolve"].as_str().unwrap().to_string(),
            rcache: inp["rcache"].as_bool().unwrap_or(false),
            lims: (lims[0].as_u64().unwrap() != 0, lims[1].as_u64().unwrap() as usize, lims[2].as_u64().unwrap() as usize),
        };
        let mut ld = ctx.load(&db).expect("load");
        let meta = inp["meta"].as_str().map(parse_layout);
        ctx.set_layout_meta(&mut ld, &layout, false, meta.as_deref()).expect("layout");
        ctx.run(&mut ld, &c);
        return;
    }
    let thorough = args.thorough();
    let fixed = fixed_db();

    // ---- stratum 1: corpus x every layout over the tables each tree touches (+ presence of gid)
    {
        let mut ld = match ctx.load(&fixed) {
            Ok(l) => l,
            Err(e) => return infra_failure(ctx, "load the fixed database", json!({"db": db_text(&fixed)}), e),
        };
        for t in corpus() {
            let mut pairs = BTreeSet::new();
            term_pairs(&t, &mut pairs);
            if pairs.iter().any(|(_, c)| *c == 'o') {
                pairs.insert((GID, 'p'));
            }
            let pairs: Vec<(usize, char)> = pairs.into_iter().collect();
            for mask in 0..(1u32 << pairs.len()) {
                let layout: Vec<(usize, char)> = pairs.iter().enumerate().filter(|(i, _)| mask & (1 << i) != 0).map(|(_, p)| *p).collect();
                if let Err(e) = ctx.set_layout(&mut ld, &layout, mask % 2 == 1) {
                    infra_failure(ctx, "reindex + sound tables", json!({"db": db_text(&fixed), "layout": layout_text(&layout)}), e);
                    continue;
                }
                ctx.rep.count("stratum:corpus");
                ctx.run(&mut ld, &Case { t: t.clone(), route: "fc".into(), resolve: "be".into(), rcache: false, lims: unlimited() });
            }
        }
    }

    // ---- stratum 2: exhaustive small scope x sampled layouts on the fixed database
    {
        let core: Vec<T> = vec![
            T::Eq(CLASS, sv("memberof")),
            T::Eq(NAME, sv("vp_ga")),
            T::Pres(GID),
            T::Cnt(NAME, sv("abc")),
            T::Lt(GID, V::N(2500)),
            T::Eq(DESC, sv("vp")),
        ];
        let (leaves, maxw) = if thorough { (&core[..], 3) } else { (&core[..5], 2) };
        let trees = small_scope(leaves, maxw);
        // all layouts over the five tables these leaves consult (+ gid presence for the ordering term)
        let pairs: Vec<(usize, char)> = vec![(CLASS, 'e'), (NAME, 'e'), (GID, 'p'), (NAME, 's'), (GID, 'o'), (DESC, 'e')];
        let npairs = if thorough { 6 } else { 5 };
        let mut ld = match ctx.load(&fixed) {
            Ok(l) => l,
            Err(e) => return infra_failure(ctx, "load the fixed database", json!({"db": db_text(&fixed)}), e),
        };
        let masks: Vec<u32> = (0..(1u32 << npairs)).collect();
        let per_layout = if thorough { trees.len() } else { (trees.len() / 4).max(1) };
        for (li, mask) in masks.iter().enumerate() {
            let layout: Vec<(usize, char)> = pairs.iter().take(npairs).enumerate().filter(|(i, _)| mask & (1 << i) != 0).map(|(_, p)| *p).collect();
            if let Err(e) = ctx.set_layout(&mut ld, &layout, li % 2 == 0) {
                infra_failure(ctx, "reindex + sound tables", json!({"db": db_text(&fixed), "layout": layout_text(&layout)}), e);
                continue;
            }
            // quick: each layout sees a quarter of the trees (rotating), every tree sees 8 layouts
            for k in 0..per_layout {
                let ti = if thorough { k } else { (k * 4 + li % 4) % trees.len() };
                ctx.rep.count("stratum:small-scope");
                ctx.run(&mut ld, &Case { t: trees[ti].clone(), route: "fc".into(), resolve: "be".into(), rcache: false, lims: unlimited() });
            }
        }
        ctx.rep.note(format!(
            "small scope: {} trees (depth<=2, width<={maxw}, {} leaves and their negations) x {} layouts over {:?}{}",
            trees.len(),
            leaves.len(),
            masks.len(),
            &pairs[..npairs],
            if thorough { " (every tree under every layout)" } else { " (every tree under 8 of them)" }
        ));
        ctx.rep.exhaustive = true;
    }

    // ---- stratum 3: random databases x random layouts x random trees
    let ndb = args.cases(12, 100);
    let layouts_per_db = if thorough { 24 } else { 10 };
    let trees_per_layout = if thorough { 60 } else { 30 };
    let leaves_fc = leaf_alphabet(false);
    let leaves_scim = leaf_alphabet(true);
    for d in 0..ndb {
        let mut r = Rng::for_case(args.seed, d);
        let db = if d % 4 == 0 { fixed.clone() } else { random_db(&mut r) };
        let mut ld = match ctx.load(&db) {
            Ok(l) => l,
            Err(e) => {
                infra_failure(ctx, "load a random database", json!({"db": db_text(&db)}), e);
                continue;
            }
        };
        for li in 0..layouts_per_db {
            let mask = match li {
                0 => 0,
                1 => (1u32 << PAIRS.len()) - 1,
                _ => r.next() as u32 & ((1u32 << PAIRS.len()) - 1),
            };
            let layout = layout_of_mask(mask);
            let meta = if li >= 2 && r.chance(1, 4) { Some(layout_of_mask(r.next() as u32 & ((1u32 << PAIRS.len()) - 1))) } else { None };
            if meta.is_some() {
                ctx.rep.count("layouts:metadata-differs-from-tables");
            }
            ctx.rep.count("layouts:random");
            if let Err(e) = ctx.set_layout_meta(&mut ld, &layout, r.chance(1, 2), meta.as_deref()) {
                infra_failure(ctx, "reindex + sound tables", json!({"db": db_text(&db), "layout": layout_text(&layout)}), e);
                continue;
            }
            for _ in 0..trees_per_layout {
                let scim = r.chance(1, 5);
                let inc = !scim && r.chance(1, 12);
                let (dmax, wmax) = (*r.pick(&[2usize, 3, 3, 4, 5]), *r.pick(&[2usize, 3, 3, 4]));
                let mut lv = if scim { leaves_scim.clone() } else { leaves_fc.clone() };
                r.shuffle(&mut lv);
                lv.truncate(r.range(3, 10) as usize);
                let t = random_tree(&mut r, &lv, dmax, wmax, inc);
                let route = if scim || needs_scim(&t) { "scim" } else { "fc" };
                let resolve = if r.chance(1, 5) { random_foreign(&mut r) } else { "be".to_string() };
                let c = Case { t, route: route.into(), resolve, rcache: r.chance(1, 3), lims: random_lims(&mut r) };
                ctx.rep.count("stratum:random");
                ctx.run(&mut ld, &c);
            }
        }
    }
}
