//! C11 — replicated session / oauth2-session / key / audit-log merges.
//!
//! Every "universe" is up to three replicas `(attribute cid, value map)`.  The harness merges
//! them in every order and grouping (12 expressions) through the REAL `repl_merge_valueset`
//! (public `ValueSetT` API; the newer/older role chosen by the real `Cid` order exactly as
//! `Entry::merge_state` does: `take_left = cid_left > cid_right`), through the Lean driver
//! (`vm` requests, the model's own intermediate results fed back), and evaluates the
//! property's oracle on the implementation's outputs only:
//!   * order/grouping independence and idempotence (when no revocation is past the trim cid),
//!   * revocation dominance with the earliest cid / `Revoked` absorbing,
//!   * trim drops only revocations older than the trim cid.
//! Streams: exhaustive small scopes, random 2–3 key universes, the forced session limit
//! (model correspondence only), H1's excluded points (observation only). An older value set of a
//! different type is not driven: the default `as_*_map` accessors `debug_assert!(false)` in this profile.
use hlib::*;
use kanidmd_lib::prelude::{Cid, IdentityId};
use kanidmd_lib::value::{
    AuthType, KeyStatus, KeyUsage, Oauth2Session, Session, SessionExtMetadata, SessionScope, SessionState,
};
use kanidmd_lib::valueset::{
    KeyInternalData, ValueSet, ValueSetAuditLogString, ValueSetKeyInternal, ValueSetOauth2Session,
    ValueSetSession,
};
use serde_json::json;
use std::collections::{BTreeMap, BTreeSet};
use std::time::Duration;

// ---------- abstract values (exactly the line protocol) ----------

#[derive(Clone, Copy, Debug, PartialEq, Eq, PartialOrd, Ord, Hash)]
enum St {
    R(u64),
    E(u64),
    N,
}
#[derive(Clone, Copy, Debug, PartialEq, Eq, PartialOrd, Ord, Hash)]
enum Ks {
    V,
    T,
    X,
}
/// One value: sessions (state, issued, payload), keys (status, status cid, payload), audit (text).
#[derive(Clone, Copy, Debug, PartialEq, Eq, PartialOrd, Ord, Hash)]
enum Val {
    S(St, u64, u64),
    K(Ks, u64, u64),
    A(u64),
}
type Map = BTreeMap<u64, Val>;
type Rep = (u64, Map); // (attribute cid, value map)

#[derive(Clone, Copy, Debug, PartialEq, Eq)]
enum Kind {
    Sm,
    O2,
    Km,
    Au,
}
impl Kind {
    fn tag(self) -> &'static str {
        match self {
            Kind::Sm => "sm",
            Kind::O2 => "o2",
            Kind::Km => "km",
            Kind::Au => "au",
        }
    }
    fn from_tag(s: &str) -> Kind {
        match s {
            "sm" => Kind::Sm,
            "o2" => Kind::O2,
            "km" => Kind::Km,
            _ => Kind::Au,
        }
    }
}

fn show_val(v: &Val) -> String {
    match v {
        Val::S(st, i, p) => {
            let s = match st {
                St::R(c) => format!("r{c}"),
                St::E(t) => format!("e{t}"),
                St::N => "n".into(),
            };
            format!("{s}:{i}:{p}")
        }
        Val::K(ks, c, p) => {
            let s = match ks {
                Ks::V => "v",
                Ks::T => "t",
                Ks::X => "x",
            };
            format!("{s}:{c}:{p}")
        }
        Val::A(t) => format!("{t}"),
    }
}
fn show_map(m: &Map) -> String {
    if m.is_empty() {
        "-".into()
    } else {
        m.iter().map(|(k, v)| format!("{k}:{}", show_val(v))).collect::<Vec<_>>().join(",")
    }
}
fn parse_map(kind: Kind, s: &str) -> Map {
    let mut m = Map::new();
    if s == "-" || s.is_empty() {
        return m;
    }
    for it in s.split(',') {
        let p: Vec<&str> = it.split(':').collect();
        let k: u64 = p[0].parse().unwrap();
        let v = match kind {
            Kind::Sm | Kind::O2 => {
                let st = match &p[1][..1] {
                    "r" => St::R(p[1][1..].parse().unwrap()),
                    "e" => St::E(p[1][1..].parse().unwrap()),
                    _ => St::N,
                };
                Val::S(st, p[2].parse().unwrap(), p[3].parse().unwrap())
            }
            Kind::Km => {
                let ks = match p[1] {
                    "v" => Ks::V,
                    "t" => Ks::T,
                    _ => Ks::X,
                };
                Val::K(ks, p[2].parse().unwrap(), p[3].parse().unwrap())
            }
            Kind::Au => Val::A(p[1].parse().unwrap()),
        };
        m.insert(k, v);
    }
    m
}
fn show_rep(r: &Rep) -> String {
    format!("{} {}", r.0, show_map(&r.1))
}

// ---------- mapping to the real types (order preserving) ----------

/// Natural → Cid, order preserving over both components of the real `Ord` (ts, then s_uuid).
fn cid(n: u64) -> Cid {
    Cid { ts: Duration::from_secs(n / 2), s_uuid: nat_uuid(n % 2) }
}
fn uncid(c: &Cid) -> u64 {
    c.ts.as_secs() * 2 + (c.s_uuid.as_u128() - nat_uuid(0).as_u128()) as u64
}
fn state(st: St) -> SessionState {
    match st {
        St::R(c) => SessionState::RevokedAt(cid(c)),
        // `From<&Cid> for OffsetDateTime` = UNIX_EPOCH + ts
        St::E(t) => SessionState::ExpiresAt((&Cid { ts: Duration::from_secs(t), s_uuid: nat_uuid(0) }).into()),
        St::N => SessionState::NeverExpires,
    }
}
fn unstate(s: &SessionState) -> St {
    match s {
        SessionState::RevokedAt(c) => St::R(uncid(c)),
        SessionState::ExpiresAt(t) => St::E(t.unix_timestamp() as u64),
        SessionState::NeverExpires => St::N,
    }
}
fn un_uuid(u: &uuid::Uuid) -> u64 {
    (u.as_u128() - nat_uuid(0).as_u128()) as u64
}

fn vs_session(m: &Map) -> ValueSet {
    ValueSetSession::from_iter(m.iter().map(|(k, v)| {
        let Val::S(st, i, p) = *v else { panic!("kind") };
        (
            nat_uuid(*k),
            Session {
                label: format!("p{p}"),
                state: state(st),
                issued_at: (&Cid { ts: Duration::from_secs(i), s_uuid: nat_uuid(0) }).into(),
                issued_by: IdentityId::User(nat_uuid(p)),
                cred_id: nat_uuid(p),
                scope: if p % 2 == 0 { SessionScope::ReadOnly } else { SessionScope::ReadWrite },
                type_: AuthType::Passkey,
                ext_metadata: SessionExtMetadata::None,
            },
        )
    }))
    .expect("from_iter")
}
fn un_session(vs: &ValueSet) -> Map {
    vs.as_session_map()
        .expect("session map")
        .iter()
        .map(|(k, s)| {
            let p = un_uuid(&s.cred_id);
            // a value must come whole from one input: all payload-carrying fields agree
            let whole = s.label == format!("p{p}")
                && matches!(s.issued_by, IdentityId::User(u) if u == nat_uuid(p))
                && s.scope == (if p % 2 == 0 { SessionScope::ReadOnly } else { SessionScope::ReadWrite });
            let p = if whole { p } else { 999_999 };
            (un_uuid(k), Val::S(unstate(&s.state), s.issued_at.unix_timestamp() as u64, p))
        })
        .collect()
}
fn vs_oauth2(m: &Map) -> ValueSet {
    ValueSetOauth2Session::from_iter(m.iter().map(|(k, v)| {
        let Val::S(st, i, p) = *v else { panic!("kind") };
        (
            nat_uuid(*k),
            Oauth2Session {
                parent: Some(nat_uuid(p)),
                state: state(st),
                issued_at: (&Cid { ts: Duration::from_secs(i), s_uuid: nat_uuid(0) }).into(),
                rs_uuid: nat_uuid(1000 + p),
            },
        )
    }))
    .expect("from_iter")
}
fn un_oauth2(vs: &ValueSet) -> Map {
    vs.as_oauth2session_map()
        .expect("oauth2 map")
        .iter()
        .map(|(k, s)| {
            let p = s.parent.map(|u| un_uuid(&u)).unwrap_or(999_998);
            let p = if s.rs_uuid == nat_uuid(1000 + p) { p } else { 999_999 };
            (un_uuid(k), Val::S(unstate(&s.state), s.issued_at.unix_timestamp() as u64, p))
        })
        .collect()
}
fn vs_key(m: &Map) -> ValueSet {
    ValueSetKeyInternal::from_key_iter(m.iter().map(|(k, v)| {
        let Val::K(ks, c, p) = *v else { panic!("kind") };
        (
            format!("k{k:05}").into(),
            KeyInternalData {
                usage: KeyUsage::JwsEs256,
                valid_from: p,
                status: match ks {
                    Ks::V => KeyStatus::Valid,
                    Ks::T => KeyStatus::Retained,
                    Ks::X => KeyStatus::Revoked,
                },
                status_cid: cid(c),
                der: vec![p as u8, (p >> 8) as u8].into(),
            },
        )
    }))
    .expect("from_key_iter")
}
fn un_key(vs: &ValueSet) -> Map {
    vs.as_key_internal_map()
        .expect("key map")
        .iter()
        .map(|(k, d)| {
            let kn: u64 = k.as_str()[1..].parse().unwrap();
            let p = d.valid_from;
            let whole = d.der.as_slice() == [p as u8, (p >> 8) as u8] && d.usage == KeyUsage::JwsEs256;
            let p = if whole { p } else { 999_999 };
            let ks = match d.status {
                KeyStatus::Valid => Ks::V,
                KeyStatus::Retained => Ks::T,
                KeyStatus::Revoked => Ks::X,
            };
            (kn, Val::K(ks, uncid(&d.status_cid), p))
        })
        .collect()
}
fn vs_audit(m: &Map) -> ValueSet {
    ValueSetAuditLogString::from_dbvs2(
        m.iter()
            .map(|(k, v)| {
                let Val::A(t) = *v else { panic!("kind") };
                (cid(*k), format!("t{t}"))
            })
            .collect(),
    )
    .expect("from_dbvs2")
}
fn un_audit(vs: &ValueSet) -> Map {
    vs.as_audit_log_string()
        .expect("audit map")
        .iter()
        .map(|(c, s)| (uncid(c), Val::A(s[1..].parse().unwrap())))
        .collect()
}

fn build(kind: Kind, m: &Map) -> ValueSet {
    match kind {
        Kind::Sm => vs_session(m),
        Kind::O2 => vs_oauth2(m),
        Kind::Km => vs_key(m),
        Kind::Au => vs_audit(m),
    }
}
fn unbuild(kind: Kind, vs: &ValueSet) -> Map {
    match kind {
        Kind::Sm => un_session(vs),
        Kind::O2 => un_oauth2(vs),
        Kind::Km => un_key(vs),
        Kind::Au => un_audit(vs),
    }
}

/// The real `repl_merge_valueset(&newer, &older, &trim_cid)`.
fn impl_repl_merge(kind: Kind, newer: &Map, older: &Map, trim: u64) -> Map {
    let n = build(kind, newer);
    let o = build(kind, older);
    match n.repl_merge_valueset(&o, &cid(trim)) {
        Some(vs) => unbuild(kind, &vs),
        None => newer.clone(), // merge_state: `eattrs.insert(attr_name, vs_left.clone())`
    }
}

/// `Entry::merge_state`, both sides present: `take_left = cid_left > cid_right` on real `Cid`s.
fn impl_attr_merge(kind: Kind, trim: u64, l: &Rep, r: &Rep) -> Rep {
    let take_left = cid(l.0) > cid(r.0);
    if take_left {
        (l.0, impl_repl_merge(kind, &l.1, &r.1, trim))
    } else {
        (r.0, impl_repl_merge(kind, &r.1, &l.1, trim))
    }
}

// ---------- universes ----------

#[derive(Clone, Debug)]
struct Universe {
    kind: Kind,
    trim: u64,
    reps: Vec<Rep>,
    /// "main" (oracle applies) or an observation-only stream name
    stream: &'static str,
}

impl Universe {
    fn to_json(&self) -> serde_json::Value {
        json!({
            "kind": self.kind.tag(), "trim": self.trim, "stream": self.stream,
            "replicas": self.reps.iter().map(show_rep).collect::<Vec<_>>(),
        })
    }
    fn key(&self) -> String {
        format!(
            "{} {} {}",
            self.kind.tag(),
            self.trim,
            self.reps.iter().map(show_rep).collect::<Vec<_>>().join(" | ")
        )
    }
}

fn is_revoked(v: &Val) -> Option<u64> {
    match v {
        Val::S(St::R(c), _, _) => Some(*c),
        Val::K(Ks::X, c, _) => Some(*c),
        _ => None,
    }
}

const PERMS: [[usize; 3]; 6] = [[0, 1, 2], [0, 2, 1], [1, 0, 2], [1, 2, 0], [2, 0, 1], [2, 1, 0]];

struct Ctx {
    drv: Driver,
    rep: Report,
    pending: Vec<Universe>,
    obs: BTreeMap<String, u64>,
    obs_samples: BTreeMap<String, serde_json::Value>,
}

impl Ctx {
    fn push(&mut self, u: Universe) {
        self.pending.push(u);
        if self.pending.len() >= 400 {
            self.flush();
        }
    }
    fn observe(&mut self, what: &str, u: &Universe, detail: String) {
        *self.obs.entry(what.to_string()).or_insert(0) += 1;
        self.obs_samples
            .entry(what.to_string())
            .or_insert_with(|| json!({"universe": u.to_json(), "detail": detail}));
    }
    fn fail(&mut self, kind: &str, u: &Universe, expected: String, observed: String) {
        self.rep.fail(Failure {
            kind: kind.into(),
            class: "unclassified".into(),
            input: u.to_json(),
            expected,
            observed,
        });
    }

    fn flush(&mut self) {
        let us = std::mem::take(&mut self.pending);
        // ---- model, level 1: every ordered pair; level 2: the 12 expressions
        let mut l1 = vec![];
        for u in &us {
            let n = u.reps.len();
            for i in 0..n {
                for j in 0..n {
                    // i == j is the idempotence case
                    l1.push(format!(
                        "vm {} {} {} {}",
                        u.kind.tag(),
                        u.trim,
                        show_rep(&u.reps[i]),
                        show_rep(&u.reps[j])
                    ));
                }
            }
        }
        let r1 = self.drv.ask_batch(&l1);
        let mut l2 = vec![];
        let mut off = 0;
        let mut offs = vec![];
        for u in &us {
            offs.push(off);
            let n = u.reps.len();
            if n == 3 {
                for p in PERMS {
                    let (a, b, c) = (p[0], p[1], p[2]);
                    // (a.b).c
                    l2.push(format!("vm {} {} {} {}", u.kind.tag(), u.trim, r1[off + a * n + b], show_rep(&u.reps[c])));
                    // a.(b.c)
                    l2.push(format!("vm {} {} {} {}", u.kind.tag(), u.trim, show_rep(&u.reps[a]), r1[off + b * n + c]));
                }
            }
            off += n * n;
        }
        let r2 = self.drv.ask_batch(&l2);
        // ---- implementation + oracle
        let mut off2 = 0;
        for (ui, u) in us.iter().enumerate() {
            let off = offs[ui];
            let n = u.reps.len();
            let kind = u.kind;
            let main = u.stream == "main";
            self.rep.count(&format!("stream:{}", u.stream));
            self.rep.count(&format!("kind:{}", kind.tag()));
            self.rep.count(&format!("replicas:{n}"));
            let nkeys: BTreeSet<u64> = u.reps.iter().flat_map(|r| r.1.keys().cloned()).collect();
            self.rep.count(&format!("keys:{}", nkeys.len().min(10)));
            // per key facts from the inputs only
            let mut stale_any = false;
            let mut conflict = false;
            for k in &nkeys {
                let vals: Vec<&Val> = u.reps.iter().filter_map(|r| r.1.get(k)).collect();
                if vals.iter().any(|v| is_revoked(v).map(|c| c < u.trim).unwrap_or(false)) {
                    stale_any = true;
                }
                if vals.len() >= 2 && vals.iter().any(|v| *v != vals[0]) {
                    conflict = true;
                }
                if vals.iter().any(|v| is_revoked(v).is_some()) {
                    self.rep.count("key-with-revocation");
                }
            }
            if stale_any {
                self.rep.count("has-stale-revocation");
            }
            let nontrivial = n >= 2 && (conflict || kind == Kind::Au && nkeys.len() > 9);
            self.rep.case(if nontrivial && main { Some(u.key()) } else { None });
            if self.rep.evaluations % 4999 == 1 {
                self.rep.sample(json!({"universe": u.to_json(), "model_pairs": r1[off..off + n * n].to_vec()}));
            }

            // level 1 on the implementation
            let mut i1: Vec<Rep> = vec![];
            for i in 0..n {
                for j in 0..n {
                    let got = impl_attr_merge(kind, u.trim, &u.reps[i], &u.reps[j]);
                    if show_rep(&got) != r1[off + i * n + j] {
                        self.fail(
                            "impl-vs-model",
                            &Universe { reps: vec![u.reps[i].clone(), u.reps[j].clone()], ..u.clone() },
                            r1[off + i * n + j].clone(),
                            show_rep(&got),
                        );
                    }
                    i1.push(got);
                }
            }
            if u.stream == "session-limit" {
                let union = nkeys.len();
                self.rep.count(if union > 48 && i1[1].1.len() <= 48 { "session-limit:forced-trim-hit" } else { "session-limit:under-limit" });
            }
            // level 2
            let mut finals: Vec<(String, Rep)> = vec![];
            if n == 3 {
                for p in PERMS {
                    let (a, b, c) = (p[0], p[1], p[2]);
                    let x = impl_attr_merge(kind, u.trim, &i1[a * n + b], &u.reps[c]);
                    let y = impl_attr_merge(kind, u.trim, &u.reps[a], &i1[b * n + c]);
                    for (name, got) in [(format!("({a}.{b}).{c}"), x), (format!("{a}.({b}.{c})"), y)] {
                        if show_rep(&got) != r2[off2] {
                            self.fail("impl-vs-model", u, format!("{name} = {}", r2[off2]), format!("{name} = {}", show_rep(&got)));
                        }
                        off2 += 1;
                        finals.push((name, got));
                    }
                }
            } else if n == 2 {
                finals.push(("0.1".into(), i1[1].clone()));
                finals.push(("1.0".into(), i1[2].clone()));
            }

            // ---- oracle on the implementation's outputs (property text only)
            // (a) order / grouping independence, (b) idempotence — within the changelog window
            let differ = finals.windows(2).find(|w| w[0].1 != w[1].1).map(|w| {
                format!("{} = {} but {} = {}", w[0].0, show_rep(&w[0].1), w[1].0, show_rep(&w[1].1))
            });
            if let Some(d) = differ {
                if !main {
                    self.observe(&format!("{}:order-dependent", u.stream), u, d);
                } else if stale_any {
                    self.observe("stale-revocation:order-dependent", u, d);
                } else {
                    self.fail("impl-vs-oracle", u, "all orders and groupings give the same (cid, map)".into(), d);
                }
            } else if !main {
                self.observe(&format!("{}:order-independent", u.stream), u, String::new());
            }
            if main && !stale_any {
                for i in 0..n {
                    let within_cap = kind != Kind::Au || u.reps[i].1.len() <= 9;
                    if within_cap && i1[i * n + i] != u.reps[i] {
                        self.fail(
                            "impl-vs-oracle",
                            &Universe { reps: vec![u.reps[i].clone()], ..u.clone() },
                            format!("x.x = x = {}", show_rep(&u.reps[i])),
                            show_rep(&i1[i * n + i]),
                        );
                    }
                }
            }
            if !main || kind == Kind::Au {
                continue;
            }
            // (c) dominance, (d) trim only drops expired revocations — for every result incl. pairs
            let mut results: Vec<(String, Vec<usize>, &Rep)> = vec![];
            for i in 0..n {
                for j in 0..n {
                    results.push((format!("{i}.{j}"), vec![i, j], &i1[i * n + j]));
                }
            }
            for (name, r) in &finals {
                results.push((name.clone(), (0..n).collect(), r));
            }
            for (name, parts, res) in &results {
                for k in &nkeys {
                    let vals: Vec<&Val> = parts.iter().filter_map(|i| u.reps[*i].1.get(k)).collect();
                    if vals.is_empty() {
                        continue;
                    }
                    let revs: Vec<u64> = vals.iter().filter_map(|v| is_revoked(v)).collect();
                    let got = res.1.get(k);
                    if !revs.is_empty() && revs.iter().all(|c| *c >= u.trim) {
                        // revoked by someone, window not expired: must be revoked, sessions with the earliest cid
                        let min = *revs.iter().min().unwrap();
                        let ok = match (kind, got) {
                            (Kind::Km, Some(Val::K(Ks::X, _, _))) => true,
                            (_, Some(Val::S(St::R(c), _, _))) => *c == min,
                            _ => false,
                        };
                        if !ok {
                            self.fail(
                                "impl-vs-oracle",
                                u,
                                format!("{name}: key {k} revoked (earliest cid {min})"),
                                format!("{name}: key {k} = {:?}", got.map(show_val)),
                            );
                        }
                    } else if !revs.is_empty() {
                        // some revocation is past the window: must not come back *valid* if every
                        // holder had it revoked; otherwise only recorded
                        if let Some(g) = got {
                            if is_revoked(g).is_none() {
                                self.rep.count("stale-revocation:resurrected-unrevoked");
                                if revs.iter().any(|c| *c >= u.trim) {
                                    let d = format!("{name}: key {k} = {} although revoked at {:?}", show_val(g), revs);
                                    self.observe("stale-mixed:fresh-revocation-lost", u, d);
                                }
                            }
                        }
                    }
                    if got.is_none() && !revs.iter().any(|c| *c < u.trim) {
                        self.fail(
                            "impl-vs-oracle",
                            u,
                            format!("{name}: key {k} kept (no revocation older than trim {})", u.trim),
                            format!("{name}: key {k} absent"),
                        );
                    }
                }
            }
        }
    }
}

// ---------- generators ----------

const SESS_STATES: [St; 6] = [St::N, St::E(5), St::E(9), St::R(2), St::R(4), St::R(6)];

/// Value of session key `k` in state `st` under H1 (payload and issue time are functions of the key).
fn sess_val(k: u64, st: St) -> Val {
    Val::S(st, 10 + k, 100 + k)
}
/// Key record under H_keydata: payload by key, status cid by (key, status).
fn key_val(k: u64, ks: Ks, revcid: u64) -> Val {
    match ks {
        Ks::V => Val::K(Ks::V, 1, 200 + k),
        Ks::T => Val::K(Ks::T, 3, 200 + k),
        Ks::X => Val::K(Ks::X, revcid, 200 + k),
    }
}

/// Exhaustive: `nkeys` keys × 3 replicas, every state (or absent) per (replica, key).
fn exhaustive(ctx: &mut Ctx, kind: Kind, nkeys: usize, cid_sets: &[[u64; 3]], trims: &[u64]) -> u64 {
    let nopt: usize = match kind {
        Kind::Km => 4,
        _ => SESS_STATES.len() + 1,
    };
    let slots = 3 * nkeys;
    let mut idx = vec![0usize; slots];
    let mut total = 0;
    let revcids: &[u64] = if kind == Kind::Km { &[2, 6] } else { &[0] };
    loop {
        for &rc in revcids {
            for cids in cid_sets {
                for &trim in trims {
                    let mut reps = vec![];
                    for r in 0..3 {
                        let mut m = Map::new();
                        for k in 0..nkeys {
                            let o = idx[r * nkeys + k];
                            if o == 0 {
                                continue;
                            }
                            let key = k as u64 + 1;
                            let v = match kind {
                                Kind::Km => key_val(key, [Ks::V, Ks::T, Ks::X][o - 1], rc),
                                _ => sess_val(key, SESS_STATES[o - 1]),
                            };
                            m.insert(key, v);
                        }
                        reps.push((cids[r], m));
                    }
                    ctx.push(Universe { kind, trim, reps, stream: "main" });
                    total += 1;
                }
            }
        }
        let mut i = 0;
        loop {
            idx[i] += 1;
            if idx[i] < nopt {
                break;
            }
            idx[i] = 0;
            i += 1;
            if i == slots {
                return total;
            }
        }
    }
}

fn all_cid_triples() -> Vec<[u64; 3]> {
    let mut v = vec![];
    for a in 3..=5 {
        for b in 3..=5 {
            for c in 3..=5 {
                v.push([a, b, c]);
            }
        }
    }
    v
}
fn distinct_cid_triples() -> Vec<[u64; 3]> {
    all_cid_triples().into_iter().filter(|t| t[0] != t[1] && t[1] != t[2] && t[0] != t[2]).collect()
}

fn random_universe(r: &mut Rng) -> Universe {
    let kind = *r.pick(&[Kind::Sm, Kind::Sm, Kind::O2, Kind::Km, Kind::Au, Kind::Au]);
    let nrep = if r.chance(1, 5) { 2 } else { 3 };
    let mut cids: Vec<u64> = (0..nrep).map(|_| r.range(10, 40)).collect();
    if r.chance(4, 5) {
        // distinct, as replication guarantees; ±1 neighbours are frequent
        let base = r.range(10, 40);
        cids = (0..nrep as u64).map(|i| base + i).collect();
        r.shuffle(&mut cids);
    }
    match kind {
        Kind::Au => {
            let pool = r.range(6, 16);
            let reps = cids
                .iter()
                .map(|c| {
                    let mut m = Map::new();
                    let want = r.range(0, 9);
                    for _ in 0..want {
                        let k = r.range(1, pool);
                        m.insert(k, Val::A(k * 7));
                    }
                    (*c, m)
                })
                .collect();
            Universe { kind, trim: 0, reps, stream: "main" }
        }
        Kind::Km => {
            let nkeys = r.range(1, 3);
            let trim = *r.pick(&[0u64, 0, 5, 6, 7, 20]);
            let revc: Vec<u64> = (0..nkeys).map(|_| r.range(4, 9)).collect();
            let reps = cids
                .iter()
                .map(|c| {
                    let mut m = Map::new();
                    for k in 1..=nkeys {
                        if r.chance(3, 4) {
                            let ks = *r.pick(&[Ks::V, Ks::T, Ks::X]);
                            m.insert(k, key_val(k, ks, revc[(k - 1) as usize]));
                        }
                    }
                    (*c, m)
                })
                .collect();
            Universe { kind, trim, reps, stream: "main" }
        }
        _ => {
            let nkeys = r.range(1, 3);
            // trim around the revocation cids (±1 around every comparison)
            let trim = *r.pick(&[0u64, 0, 0, 3, 4, 5, 6, 7, 12]);
            let reps = cids
                .iter()
                .map(|c| {
                    let mut m = Map::new();
                    for k in 1..=nkeys {
                        if r.chance(3, 4) {
                            let st = match r.below(6) {
                                0 => St::N,
                                1 | 2 => St::E(r.range(3, 8)),
                                _ => St::R(r.range(3, 8)),
                            };
                            m.insert(k, sess_val(k, st));
                        }
                    }
                    (*c, m)
                })
                .collect();
            Universe { kind, trim, reps, stream: "main" }
        }
    }
}

/// H1's excluded point: same id, same state, different payload (sessions); same key, both
/// revoked at different cids (keys); same cid, different text (audit). Observation only.
fn excluded_universe(r: &mut Rng) -> Universe {
    let mut cids = vec![3u64, 4, 5];
    r.shuffle(&mut cids);
    match r.below(4) {
        0 => {
            let rc = [r.range(2, 4), r.range(5, 7), r.range(8, 9)];
            let reps = (0..3)
                .map(|i| {
                    let mut m = Map::new();
                    if r.chance(2, 3) {
                        m.insert(1, Val::K(Ks::X, rc[i], 201));
                    }
                    (cids[i], m)
                })
                .collect();
            Universe { kind: Kind::Km, trim: 0, reps, stream: "excluded-keydata" }
        }
        1 => {
            let reps = (0..3u64)
                .map(|i| {
                    let mut m = Map::new();
                    if r.chance(2, 3) {
                        m.insert(1, Val::A(50 + i));
                    }
                    m.insert(2 + i, Val::A(7));
                    (cids[i as usize], m)
                })
                .collect();
            Universe { kind: Kind::Au, trim: 0, reps, stream: "excluded-cid-unique" }
        }
        x => {
            let st = *r.pick(&[St::E(5), St::N, St::R(4)]);
            let reps = (0..3u64)
                .map(|i| {
                    let mut m = Map::new();
                    if r.chance(2, 3) {
                        m.insert(1, Val::S(st, 11, 300 + i));
                    }
                    (cids[i as usize], m)
                })
                .collect();
            Universe { kind: if x == 2 { Kind::Sm } else { Kind::O2 }, trim: 0, reps, stream: "excluded-payload" }
        }
    }
}

/// More than SESSION_MAXIMUM sessions: forced trim by issue time (model correspondence only).
fn limit_universe(r: &mut Rng) -> Universe {
    let total = r.range(44, 56);
    let mut a = Map::new();
    let mut b = Map::new();
    for k in 1..=total {
        let issued = if r.chance(1, 6) { 100 + r.below(5) } else { 200 + k * 3 % 97 };
        let st = match r.below(4) {
            0 => St::R(r.range(2, 8)),
            1 => St::N,
            _ => St::E(r.range(3, 9)),
        };
        let v = Val::S(st, issued, 100 + k);
        match r.below(3) {
            0 => {
                a.insert(k, v);
            }
            1 => {
                b.insert(k, v);
            }
            _ => {
                a.insert(k, v);
                let st2 = if r.chance(1, 2) { st } else { St::R(r.range(2, 8)) };
                b.insert(k, Val::S(st2, issued, 100 + k));
            }
        }
    }
    Universe { kind: Kind::Sm, trim: *r.pick(&[0u64, 5]), reps: vec![(3, a), (4, b)], stream: "session-limit" }
}

fn main() {
    let args = Args::parse();
    let mut ctx = Ctx {
        drv: Driver::spawn(&args.driver),
        rep: Report::new(
            "vs-merge",
            "universes of up to 3 replicas (attribute cid, value map) merged in all 12 orders/groupings; \
             exhaustive over {absent, 6 session states | 3 key statuses} per (replica, key) with all cid assignments \
             over {3,4,5} and trim cids {0,4,5,7}; random 1-3 key universes; non-trivial = at least two replicas \
             hold the same key with different values (or, audit log, more than 9 distinct cids); distinct = distinct universe",
        ),
        pending: vec![],
        obs: BTreeMap::new(),
        obs_samples: BTreeMap::new(),
    };
    if let Some(path) = &args.replay {
        let v: serde_json::Value = serde_json::from_str(&std::fs::read_to_string(path).unwrap()).unwrap();
        let inp = &v["input"];
        let kind = Kind::from_tag(inp["kind"].as_str().unwrap_or("sm"));
        let reps = inp["replicas"]
            .as_array()
            .map(|a| {
                a.iter()
                    .map(|s| {
                        let s = s.as_str().unwrap();
                        let (c, m) = s.split_once(' ').unwrap();
                        (c.parse().unwrap(), parse_map(kind, m))
                    })
                    .collect()
            })
            .unwrap_or_default();
        let stream = match inp["stream"].as_str().unwrap_or("main") {
            "main" => "main",
            _ => "replay-observation",
        };
        ctx.push(Universe { kind, trim: inp["trim"].as_u64().unwrap_or(0), reps, stream });
        ctx.flush();
        ctx.rep.write(&args.out);
        return;
    }
    // exhaustive small scopes
    let all = all_cid_triples();
    let distinct = distinct_cid_triples();
    let trims = [0u64, 4, 5, 7]; // none / equal to a revocation cid / between / past all
    let mut n = 0;
    for kind in [Kind::Sm, Kind::O2, Kind::Km] {
        n += exhaustive(&mut ctx, kind, 1, &all, &trims);
    }
    ctx.rep.note(format!("exhaustive 1 key x 3 replicas x 27 cid assignments x 4 trim cids (sessions, oauth2, keys): {n} universes"));
    if args.thorough() {
        let mut n2 = 0;
        n2 += exhaustive(&mut ctx, Kind::Sm, 2, &distinct[..2], &[0, 5]);
        n2 += exhaustive(&mut ctx, Kind::O2, 2, &distinct[..1], &[5]);
        n2 += exhaustive(&mut ctx, Kind::Km, 2, &distinct, &trims);
        ctx.rep.note(format!("exhaustive 2 keys x 3 replicas (thorough): {n2} universes"));
    }
    ctx.flush();
    ctx.rep.exhaustive = true;
    // random
    let nrand = args.cases(6_000, 150_000);
    for i in 0..nrand {
        let mut r = Rng::for_case(args.seed, i);
        let u = match i % 20 {
            0 | 1 => excluded_universe(&mut r),
            2 => limit_universe(&mut r),
            _ => random_universe(&mut r),
        };
        ctx.push(u);
    }
    ctx.flush();
    let obs = std::mem::take(&mut ctx.obs);
    for (k, v) in &obs {
        ctx.rep.count_n(&format!("observation:{k}"), *v);
    }
    let samples = std::mem::take(&mut ctx.obs_samples);
    for (k, v) in samples {
        ctx.rep.note(format!("observation {k} (first): {v}"));
    }
    ctx.rep.model_requests = ctx.drv.requests;
    ctx.rep.write(&args.out);
    println!("c11: {} universes, {} failures, observations {:?}", ctx.rep.evaluations, ctx.rep.failures.len(), obs);
}
