//! C34 — revoked keys never verify.
//!
//! Drives real in-memory servers (one, or two replicas in one domain) that hold one key object
//! entry (classes `KeyObject` + a subset of `KeyObjectJwtEs256 / JwtRs256 / JwtHs256 /
//! JweA128GCM / HkdfS256`) through the public `QueryServer` API — `internal_create`,
//! `internal_modify_uuid` with `KeyActionRotate` / `KeyActionRevoke` (several modifies per write
//! transaction included), commit, restart (a new `QueryServer` + `initialise_helper` over the same
//! backend), incremental replication in both directions (`supplier_provide_changes` /
//! `consumer_apply_changes`) — and the Lean model (`km_c34`) with the same history.
//!
//! After **every** event, on **every** server:
//! * correspondence: the stored `KeyInternalData` map (kid, usage, valid_from, status, status
//!   cid), the key used by `jws_*_sign` / `jwe_a128gcm_encrypt` / `hkdf_s256_expand` at boundary
//!   times (each key's valid_from −1/0/+1, now, 0), the accept/refuse result of `jws_verify` /
//!   `jwe_decrypt` on every token ever made (by any server), and the ok/err result of each
//!   transaction equal the model's prediction (hook `verif_hooks::c34` exposes the loaded key
//!   object of the transaction — `server::keys` is crate-private);
//! * oracle (implementation only, written from the property text, with its own ledger of the
//!   operations issued): a token of a key revoked on (or replicated as revoked to) this server is
//!   refused, for ever; a token of a key this server has known and that was never revoked here is
//!   accepted; a signature uses a key that is not revoked / retained, whose validity has started
//!   and no eligible key has a later valid_from; signing fails only if no key is eligible; a new
//!   key's valid_from is max(requested, now) or 0.
//!
//! `Retained` records cannot be produced by any operation of the server; the harness obtains them
//! with a `Modify::Set` of the stored map in which one `Valid` record is turned `Retained` (public
//! DER for ES256/RS256).
use hlib::*;
use kanidmd_lib::be::{Backend, BackendConfig};
use kanidmd_lib::entry::{Entry, EntryInit, EntryNew};
use kanidmd_lib::prelude::*;
use kanidmd_lib::repl::proto::{ConsumerState, ReplIncrementalContext};
use kanidmd_lib::schema::Schema;
use kanidmd_lib::value::{KeyStatus, KeyUsage};
use kanidmd_lib::valueset::KeyInternalData;
use kanidmd_lib::verif_hooks::c34 as hook;
use serde_json::{json, Value as J};
use std::collections::{BTreeMap, BTreeSet};
use std::time::Duration as StdDuration;

const T0: u64 = 2_000_000_000; // epoch seconds of the first transaction
const WEEK: u64 = 7 * 86400;
const USAGES: [&str; 5] = ["e", "h", "r", "j", "k"];

fn usage_code(u: &KeyUsage) -> &'static str {
    match u {
        KeyUsage::JwsEs256 => "e",
        KeyUsage::JwsHs256 => "h",
        KeyUsage::JwsRs256 => "r",
        KeyUsage::JweA128GCM => "j",
        KeyUsage::HkdfS256 => "k",
    }
}
fn usage_class(u: &str) -> EntryClass {
    match u {
        "e" => EntryClass::KeyObjectJwtEs256,
        "h" => EntryClass::KeyObjectJwtHs256,
        "r" => EntryClass::KeyObjectJwtRs256,
        "j" => EntryClass::KeyObjectJweA128GCM,
        _ => EntryClass::KeyObjectHkdfS256,
    }
}
fn hook_usage(u: &str) -> &'static str {
    match u {
        "e" => "es256",
        "h" => "hs256",
        "r" => "rs256",
        "j" => "jwe",
        _ => "hkdf",
    }
}
fn status_code(s: &KeyStatus) -> &'static str {
    match s {
        KeyStatus::Valid => "V",
        KeyStatus::Retained => "T",
        KeyStatus::Revoked => "X",
    }
}

/// One record of the stored map, flattened.
#[derive(Clone, Debug, PartialEq)]
struct Rec {
    kid: String,
    usage: &'static str,
    vf: u64,
    status: &'static str,
    cid: (StdDuration, Uuid),
    der: Vec<u8>,
}

// ---------------------------------------------------------------- histories

#[derive(Clone, Debug, PartialEq)]
enum KeyRef {
    /// i-th key (creation order) known to the harness, modulo how many there are
    Nth(u64),
    /// a well-formed key id nobody has
    Ghost,
}

#[derive(Clone, Debug, PartialEq)]
struct Act {
    revoke: Vec<KeyRef>,
    /// requested rotation time as an offset from the transaction's time (seconds)
    rotate: Option<i64>,
    /// requested rotation time = valid_from of the n-th key (same-second collisions)
    rotate_at_key: Option<u64>,
}

#[derive(Clone, Debug, PartialEq)]
enum Op {
    /// advance the clock by `dt` seconds, then one write transaction on `srv`
    Txn { srv: usize, dt: u64, acts: Vec<Act> },
    Restart { srv: usize },
    /// incremental replication; `retain`: the n-th key, if `Valid` in the message, is turned
    /// `Retained` in flight (a partner that retires keys)
    Repl { from: usize, to: usize, retain: Option<u64> },
}

#[derive(Clone, Debug)]
struct Case {
    pair: bool,
    classes: Vec<&'static str>,
    ops: Vec<Op>,
}

fn kr_json(k: &KeyRef) -> J {
    match k {
        KeyRef::Nth(n) => json!(n),
        KeyRef::Ghost => json!("ghost"),
    }
}
fn case_json(c: &Case) -> J {
    let ops: Vec<J> = c
        .ops
        .iter()
        .map(|o| match o {
            Op::Txn { srv, dt, acts } => json!({"op":"txn","srv":srv,"dt":dt,"acts":acts.iter().map(|a| json!({
                "revoke": a.revoke.iter().map(kr_json).collect::<Vec<_>>(),
                "rotate": a.rotate, "rotate_at_key": a.rotate_at_key})).collect::<Vec<_>>()}),
            Op::Restart { srv } => json!({"op":"restart","srv":srv}),
            Op::Repl { from, to, retain } => json!({"op":"repl","from":from,"to":to,"retain":retain}),
        })
        .collect();
    json!({"pair": c.pair, "classes": c.classes, "ops": ops})
}
fn case_from_json(j: &J) -> Case {
    let classes = j["classes"]
        .as_array()
        .unwrap()
        .iter()
        .map(|c| *USAGES.iter().find(|u| **u == c.as_str().unwrap()).unwrap())
        .collect();
    let kr = |v: &J| if v.is_string() { KeyRef::Ghost } else { KeyRef::Nth(v.as_u64().unwrap()) };
    let ops = j["ops"]
        .as_array()
        .unwrap()
        .iter()
        .map(|o| match o["op"].as_str().unwrap() {
            "txn" => Op::Txn {
                srv: o["srv"].as_u64().unwrap() as usize,
                dt: o["dt"].as_u64().unwrap(),
                acts: o["acts"]
                    .as_array()
                    .unwrap()
                    .iter()
                    .map(|a| Act {
                        revoke: a["revoke"].as_array().unwrap().iter().map(kr).collect(),
                        rotate: a["rotate"].as_i64(),
                        rotate_at_key: a["rotate_at_key"].as_u64(),
                    })
                    .collect(),
            },
            "restart" => Op::Restart { srv: o["srv"].as_u64().unwrap() as usize },
            _ => Op::Repl { from: o["from"].as_u64().unwrap() as usize, to: o["to"].as_u64().unwrap() as usize, retain: o["retain"].as_u64() },
        })
        .collect();
    Case { pair: j["pair"].as_bool().unwrap(), classes, ops }
}

fn act_revoke(ks: Vec<KeyRef>) -> Act {
    Act { revoke: ks, rotate: None, rotate_at_key: None }
}
fn act_rotate(off: i64) -> Act {
    Act { revoke: vec![], rotate: Some(off), rotate_at_key: None }
}
fn txn(srv: usize, dt: u64, acts: Vec<Act>) -> Op {
    Op::Txn { srv, dt, acts }
}
fn repl(from: usize, to: usize) -> Op {
    Op::Repl { from, to, retain: None }
}

/// Scripted histories: the excluded point of hypothesis H2 (several keys with one valid_from,
/// revoke of the one that is active), the vf = 0 re-assert, independent revocations on two
/// replicas, RS256 load paths (D20 regression), future rotations, retain.
fn scripted() -> Vec<(&'static str, Case)> {
    use KeyRef::*;
    let n = |i| Nth(i);
    let mut v = vec![];
    // keys in creation order: 0 = e@0, 1 = j@0, then per rotation e, j
    v.push(("h2-two-txns-same-second", Case { pair: true, classes: vec!["e", "j"], ops: vec![
        txn(0, 5, vec![act_rotate(0)]), txn(0, 0, vec![act_rotate(0)]),
        txn(0, 1, vec![act_revoke(vec![n(4)])]), Op::Restart { srv: 0 }, repl(0, 1),
        txn(0, 1, vec![act_revoke(vec![n(2)])]), repl(0, 1), Op::Restart { srv: 1 },
    ]}));
    v.push(("h2-two-acts-one-txn", Case { pair: true, classes: vec!["e", "h"], ops: vec![
        txn(0, 5, vec![act_rotate(0), act_rotate(0)]),
        txn(0, 0, vec![act_revoke(vec![n(2)])]), txn(0, 0, vec![act_revoke(vec![n(4)])]),
        repl(0, 1), Op::Restart { srv: 0 },
    ]}));
    v.push(("h2-revoke-and-rotate-same-second", Case { pair: false, classes: vec!["e", "j", "k"], ops: vec![
        txn(0, 3, vec![act_rotate(10)]),
        txn(0, 0, vec![Act { revoke: vec![n(3)], rotate: Some(10), rotate_at_key: None }]),
        txn(0, 20, vec![Act { revoke: vec![n(6)], rotate: None, rotate_at_key: Some(6) }]),
        Op::Restart { srv: 0 },
    ]}));
    v.push(("revoke-vf0-reasserts", Case { pair: true, classes: vec!["e", "h", "j", "k"], ops: vec![
        txn(0, 1, vec![act_revoke(vec![n(0), n(1), n(2), n(3)])]), repl(0, 1),
        txn(1, 1, vec![act_revoke(vec![n(4)])]), repl(1, 0), Op::Restart { srv: 0 },
    ]}));
    v.push(("independent-revocations", Case { pair: true, classes: vec!["e"], ops: vec![
        txn(0, 1, vec![act_revoke(vec![n(0)])]), txn(1, 1, vec![act_revoke(vec![n(0)])]),
        repl(0, 1), repl(1, 0),
        txn(0, 1, vec![act_revoke(vec![n(1)])]), txn(1, 0, vec![act_revoke(vec![n(2)])]),
        repl(1, 0), repl(0, 1), Op::Restart { srv: 1 },
    ]}));
    // D42 (known finding): B's own later change is merged on A before A's state goes back to B
    v.push(("lost-revocation-witness", Case { pair: true, classes: vec!["e"], ops: vec![
        txn(0, 1, vec![act_revoke(vec![n(0)])]), txn(1, 1, vec![act_rotate(0)]), repl(1, 0), repl(0, 1),
    ]}));
    // …and the other order delivers it
    v.push(("revocation-delivered-before-merge", Case { pair: true, classes: vec!["e"], ops: vec![
        txn(0, 1, vec![act_revoke(vec![n(0)])]), txn(1, 1, vec![act_rotate(0)]), repl(0, 1), repl(1, 0), repl(0, 1),
    ]}));
    v.push(("rs256-retained", Case { pair: true, classes: vec!["r"], ops: vec![
        txn(0, 2, vec![act_rotate(0)]), Op::Repl { from: 0, to: 1, retain: Some(0) }, Op::Restart { srv: 1 },
        txn(1, 1, vec![act_revoke(vec![n(0)])]), Op::Restart { srv: 1 }, repl(1, 0),
    ]}));
    v.push(("rs256-d20-load-paths", Case { pair: false, classes: vec!["r", "e"], ops: vec![
        txn(0, 2, vec![act_rotate(0)]), Op::Restart { srv: 0 },
        txn(0, 2, vec![act_revoke(vec![n(0)])]), Op::Restart { srv: 0 },
        txn(0, 2, vec![act_rotate(5)]), Op::Restart { srv: 0 },
    ]}));
    v.push(("future-rotation-then-revoke", Case { pair: true, classes: vec!["e", "j"], ops: vec![
        txn(0, 1, vec![act_rotate(300)]), repl(0, 1),
        txn(1, 1, vec![act_revoke(vec![n(2)])]), txn(0, 400, vec![act_rotate(-50)]),
        repl(1, 0), repl(0, 1),
    ]}));
    v.push(("retain-then-revoke", Case { pair: true, classes: vec!["e", "h", "j"], ops: vec![
        txn(0, 1, vec![act_rotate(0)]),
        Op::Repl { from: 0, to: 1, retain: Some(0) }, Op::Restart { srv: 1 },
        txn(0, 1, vec![act_rotate(0)]), Op::Repl { from: 0, to: 1, retain: Some(1) }, Op::Repl { from: 0, to: 1, retain: Some(2) },
        repl(1, 0), Op::Restart { srv: 0 },
        txn(1, 1, vec![act_revoke(vec![n(0), Ghost])]), txn(1, 1, vec![act_revoke(vec![n(0)])]),
        repl(1, 0),
    ]}));
    v.push(("trim-after-a-week", Case { pair: false, classes: vec!["e", "j"], ops: vec![
        txn(0, 1, vec![act_revoke(vec![n(0)])]), txn(0, WEEK + 10, vec![act_rotate(0)]),
        Op::Restart { srv: 0 }, txn(0, WEEK + 10, vec![act_revoke(vec![n(1)])]), Op::Restart { srv: 0 },
    ]}));
    v
}

fn gen_case(r: &mut Rng, boundary_bias: bool) -> Case {
    let pair = r.chance(2, 3);
    let mut classes: Vec<&'static str> = vec!["e"];
    for u in ["h", "j", "k"] {
        if r.chance(1, 2) {
            classes.push(u);
        }
    }
    if r.chance(1, 25) {
        classes.push("r");
    }
    let nsrv = if pair { 2 } else { 1 };
    let len = r.range(4, 12);
    let mut ops = vec![];
    // half of the pair histories never write concurrently: a server pulls before it writes
    let disciplined = pair && r.chance(1, 2);
    let mut dirty = [false, false];
    let mut approx_keys = classes.len() as u64;
    let mut elapsed = 0u64;
    for _ in 0..len {
        let x = r.below(100);
        if x < 12 {
            ops.push(Op::Restart { srv: r.below(nsrv) as usize });
        } else if x < 32 && pair {
            let from = r.below(2) as usize;
            let retain = if r.chance(1, 6) { Some(r.below(approx_keys.max(1) * 2)) } else { None };
            ops.push(Op::Repl { from, to: 1 - from, retain });
            dirty[from] = false;
        } else {
            let srv = r.below(nsrv) as usize;
            if disciplined && dirty[1 - srv] {
                ops.push(Op::Repl { from: 1 - srv, to: srv, retain: None });
                dirty[1 - srv] = false;
            }
            dirty[srv] = true;
            let mut dt = *r.pick(&[0u64, 0, 0, 1, 1, 2, 5, 60, 3600, 86400]);
            if !pair && r.chance(1, 8) {
                dt = WEEK + r.below(100);
            }
            if pair && elapsed + dt > 5 * 86400 {
                dt = 1;
            }
            elapsed += dt;
            let nacts = if r.chance(1, 5) { 2 } else { 1 };
            let mut acts = vec![];
            for _ in 0..nacts {
                let mut a = Act { revoke: vec![], rotate: None, rotate_at_key: None };
                let y = r.below(100);
                let want_rev = y < 45 || boundary_bias && y < 60;
                let want_rot = y >= 35 && y < 90;
                if want_rev {
                    let n = if r.chance(1, 4) { 2 } else { 1 };
                    for _ in 0..n {
                        a.revoke.push(if r.chance(1, 12) { KeyRef::Ghost } else { KeyRef::Nth(r.below(approx_keys.max(1) * 2)) });
                    }
                }
                if want_rot {
                    if r.chance(1, 4) {
                        a.rotate_at_key = Some(r.below(approx_keys.max(1) * 2));
                    } else {
                        a.rotate = Some(*r.pick(&[0i64, 0, 0, -1, 1, -100, 2, 60, 300, 3600]));
                    }
                    approx_keys += classes.len() as u64;
                }
                if !want_rev && !want_rot {
                    a.rotate = Some(0);
                    approx_keys += classes.len() as u64;
                }
                acts.push(a);
            }
            ops.push(Op::Txn { srv, dt, acts });
        }
    }
    Case { pair, classes, ops }
}

// ---------------------------------------------------------------- the system under test

fn mk_backend() -> (Backend, Schema) {
    let schema = Schema::new().expect("schema");
    let idxmeta = {
        let s = schema.write();
        s.reload_idxmeta()
    };
    let be = Backend::new(
        BackendConfig::new(None, 1, kanidm_proto::internal::FsType::Generic, Some(2048)),
        idxmeta,
        false,
    )
    .expect("backend");
    (be, schema)
}

struct Token {
    usage: &'static str,
    kid: String,
    text: String,
    payload: Vec<u8>,
}

/// What the oracle knows, from the operations issued and the implementation's replies only.
#[derive(Default, Clone)]
struct Ledger {
    /// kids revoked on this server by a committed transaction or learnt as revoked by replication
    revoked: BTreeSet<String>,
    /// kids this server has listed at some time
    known: BTreeSet<String>,
}

struct Fail {
    kind: &'static str,
    class: String,
    expected: String,
    observed: String,
}

struct World {
    rt: tokio::runtime::Runtime,
    qs: Vec<QueryServer>,
    be: Vec<Backend>,
    s_uuid: Vec<Uuid>,
    now: u64,
    /// kids in creation order (first observation), with usage
    keys: Vec<(String, &'static str)>,
    tokens: Vec<Token>,
    ledger: Vec<Ledger>,
    classes: Vec<&'static str>,
    ghost: u64,
    /// committed events, for the recogniser of the known replication defect
    history: Vec<Ev>,
    /// the key object entry of the current history (a fresh one per history)
    ko: Uuid,
    serial: u64,
    /// per server: how many tokens of `tokens` it has been asked to verify at its last round
    verified_upto: Vec<usize>,
}

#[derive(Clone, Debug)]
enum Ev {
    Txn { srv: usize, revoked: Vec<String> },
    Repl { from: usize, to: usize, offered: bool },
}

const LOST: &str = "lost-revocation:merged-attr-keeps-later-cid";

fn dur(s: u64) -> StdDuration {
    StdDuration::from_secs(s)
}

impl World {
    fn nsrv(&self) -> usize {
        self.qs.len()
    }

    fn cid_nat(&self, c: &(StdDuration, Uuid)) -> u128 {
        let rank = if c.1 == Uuid::nil() {
            0
        } else {
            let mut us = self.s_uuid.clone();
            us.sort();
            1 + us.iter().position(|u| *u == c.1).map(|p| p as u128).unwrap_or(2)
        };
        c.0.as_nanos() * 4 + rank
    }

    /// The origin code of a server inside a cid nat (1 + rank of its uuid).
    fn origin_code(&self, srv: usize) -> u128 {
        let mut us = self.s_uuid.clone();
        us.sort();
        1 + us.iter().position(|u| *u == self.s_uuid[srv]).unwrap() as u128
    }

    fn kid_nat(kid: &str) -> u64 {
        assert!(kid.len() == 12 && kid.bytes().all(|b| b.is_ascii_digit() || (b'a'..=b'f').contains(&b)), "kid {kid} is not 12 lower-case hex digits");
        u64::from_str_radix(kid, 16).unwrap()
    }

    /// Boot one server or a pair in one domain (refresh of the second from the first).
    fn boot(pair: bool) -> Result<World, String> {
        let rt = tokio::runtime::Builder::new_current_thread().enable_all().build().unwrap();
        let n = if pair { 2 } else { 1 };
        let mut qs = vec![];
        let mut be = vec![];
        for _ in 0..n {
            let (b, schema) = mk_backend();
            let q = QueryServer::new(b.clone(), schema, "example.com".to_string(), dur(T0)).map_err(|e| format!("new:{e:?}"))?;
            rt.block_on(q.initialise_helper(dur(T0), DOMAIN_TGT_LEVEL)).map_err(|e| format!("init:{e:?}"))?;
            qs.push(q);
            be.push(b);
        }
        let mut w = World { rt, qs, be, s_uuid: vec![], now: T0 + 10, keys: vec![], tokens: vec![], ledger: vec![Ledger::default(); n], classes: vec![], ghost: 0, history: vec![], ko: Uuid::nil(), serial: 0, verified_upto: vec![0; n] };
        if pair {
            w.now += 1;
            let mut a_r = w.rt.block_on(w.qs[0].read()).map_err(|e| format!("{e:?}"))?;
            let mut b_w = w.rt.block_on(w.qs[1].write(dur(w.now))).map_err(|e| format!("{e:?}"))?;
            let ctx = a_r.supplier_provide_refresh().map_err(|e| format!("refresh:{e:?}"))?;
            b_w.consumer_apply_refresh(ctx).map_err(|e| format!("apply refresh:{e:?}"))?;
            b_w.commit().map_err(|e| format!("{e:?}"))?;
        }
        // server uuids (for the cid order)
        for i in 0..n {
            w.now += 1;
            let wr = w.rt.block_on(w.qs[i].write(dur(w.now))).map_err(|e| format!("{e:?}"))?;
            w.s_uuid.push(hook::txn_cid(&wr).1);
        }
        Ok(w)
    }

    /// A new history on these servers: a fresh key object entry created on server 0 and
    /// replicated to server 1; the replicas are brought level in both directions first.
    fn begin(&mut self, case: &Case, drv: &mut Driver) -> Result<(), String> {
        // every commit reloads all live key objects: retire the previous history's entry
        if !self.ko.is_nil() {
            self.now += 1;
            let mut wr = self.rt.block_on(self.qs[0].write(dur(self.now))).map_err(|e| format!("{e:?}"))?;
            wr.internal_delete_uuid(self.ko).map_err(|e| format!("delete previous key object:{e:?}"))?;
            wr.commit().map_err(|e| format!("{e:?}"))?;
            if self.nsrv() == 2 {
                self.repl_real(0, 1, None)?;
            }
        }
        self.serial += 1;
        self.ko = nat_uuid(340_000 + self.serial);
        self.keys.clear();
        self.tokens.clear();
        for v in self.verified_upto.iter_mut() {
            *v = 0;
        }
        self.history.clear();
        self.ghost = 0;
        self.classes = case.classes.clone();
        for l in self.ledger.iter_mut() {
            *l = Ledger::default();
        }
        drv.ask("reset");
        if self.nsrv() == 2 {
            self.repl_real(1, 0, None)?;
            self.repl_real(0, 1, None)?;
        }
        self.now += 1;
        let cid = {
            let mut wr = self.rt.block_on(self.qs[0].write(dur(self.now))).map_err(|e| format!("{e:?}"))?;
            let mut e: Entry<EntryInit, EntryNew> = Entry::new();
            e.add_ava(Attribute::Class, EntryClass::Object.to_value());
            e.add_ava(Attribute::Class, EntryClass::KeyObject.to_value());
            for u in &case.classes {
                e.add_ava(Attribute::Class, usage_class(u).to_value());
            }
            e.add_ava(Attribute::Uuid, Value::Uuid(self.ko));
            wr.internal_create(vec![e]).map_err(|e| format!("create:{e:?}"))?;
            let c = hook::txn_cid(&wr);
            wr.commit().map_err(|e| format!("{e:?}"))?;
            c
        };
        let st = self.read_state(0)?.ok_or("no key object after create")?;
        let fresh: Vec<String> = st.iter().map(|r| format!("{}/{}/{}", r.usage, r.vf, Self::kid_nat(&r.kid))).collect();
        self.note_keys(&st);
        let reply = drv.ask(&format!("create 0 {} {} {} {}", case.classes.join(","), self.now, self.cid_nat(&cid), if fresh.is_empty() { "-".into() } else { fresh.join(",") }));
        if reply != "ok" {
            return Err(format!("model create: {reply}"));
        }
        if self.nsrv() == 2 {
            self.repl_real(0, 1, None)?;
            drv.ask(&format!("copy 1 0 {}", self.origin_code(1)));
        }
        Ok(())
    }

    fn note_keys(&mut self, st: &[Rec]) {
        // creation order within one observation: by usage order of USAGES, then valid_from, then kid
        let mut new: Vec<&Rec> = st.iter().filter(|r| !self.keys.iter().any(|(k, _)| *k == r.kid)).collect();
        new.sort_by_key(|r| (USAGES.iter().position(|u| *u == r.usage), r.vf, r.kid.clone()));
        for r in new {
            self.keys.push((r.kid.clone(), r.usage));
        }
    }

    fn recs_of(map: &BTreeMap<impl ToString, KeyInternalData>) -> Vec<Rec> {
        map.iter()
            .map(|(k, d)| Rec { kid: k.to_string(), usage: usage_code(&d.usage), vf: d.valid_from, status: status_code(&d.status), cid: (d.status_cid.ts, d.status_cid.s_uuid), der: d.der.to_vec() })
            .collect()
    }

    fn read_state(&self, srv: usize) -> Result<Option<Vec<Rec>>, String> {
        let mut r = self.rt.block_on(self.qs[srv].read()).map_err(|e| format!("{e:?}"))?;
        match r.internal_search_uuid(self.ko) {
            Ok(e) => Ok(e.get_ava_set(Attribute::KeyInternalData).and_then(|vs| vs.as_key_internal_map()).map(|m| Self::recs_of(m))),
            Err(OperationError::NoMatchingEntries) => Ok(None),
            Err(e) => Err(format!("search:{e:?}")),
        }
    }

    fn show_state(&self, st: &[Rec]) -> String {
        let mut v: Vec<(u64, String)> = st.iter().map(|r| (Self::kid_nat(&r.kid), format!("{}:{}:{}:{}:{}", Self::kid_nat(&r.kid), r.usage, r.vf, r.status, self.cid_nat(&r.cid)))).collect();
        v.sort();
        if v.is_empty() { "-".into() } else { v.into_iter().map(|x| x.1).collect::<Vec<_>>().join(",") }
    }

    fn resolve(&mut self, k: &KeyRef) -> String {
        match k {
            KeyRef::Nth(i) if !self.keys.is_empty() => self.keys[(*i as usize) % self.keys.len()].0.clone(),
            _ => {
                self.ghost += 1;
                format!("{:012x}", 0xabc0_0000_0000u64 + self.ghost)
            }
        }
    }

    /// Recogniser of the known replication defect, for "server `srv` still trusts key `kid` although
    /// a replication from a server that had revoked it has been applied": `srv` never revoked the
    /// key itself, still lists it unrevoked, and after the revocation on the other server `srv`
    /// committed a transaction of its own on the key object that was replicated *to* the revoking
    /// server before the revoking server's state was replicated back (the merged attribute then
    /// carries `srv`'s later cid and is never offered to `srv`).
    fn class_of_trusted_revoked(&self, srv: usize, kid: &str, listed_unrevoked: bool, default: &str) -> String {
        if !listed_unrevoked {
            return default.into();
        }
        if self.history.iter().any(|e| matches!(e, Ev::Txn { srv: s, revoked } if *s == srv && revoked.iter().any(|k| k == kid))) {
            return default.into();
        }
        let Some(r) = self.history.iter().position(|e| matches!(e, Ev::Txn { srv: s, revoked } if *s != srv && revoked.iter().any(|k| k == kid))) else {
            return default.into();
        };
        let f = match &self.history[r] { Ev::Txn { srv: s, .. } => *s, _ => unreachable!() };
        let Some(i) = self.history.iter().enumerate().position(|(x, e)| x > r && matches!(e, Ev::Txn { srv: s, .. } if *s == srv)) else {
            return default.into();
        };
        let Some(j) = self.history.iter().enumerate().position(|(x, e)| x > i && matches!(e, Ev::Repl { from, to, offered: true } if *from == srv && *to == f)) else {
            return default.into();
        };
        if self.history.iter().enumerate().any(|(x, e)| x > j && matches!(e, Ev::Repl { from, to, .. } if *from == f && *to == srv)) {
            LOST.into()
        } else {
            default.into()
        }
    }

    /// Incremental replication; `.0` = the consumer transaction's trim cid, `.1` = the key object's
    /// `KeyInternalData` was part of the supply, `.2` = the record of `retain` was `Valid` in the
    /// message and was turned `Retained` (public DER for ES256 / RS256) before the consumer applied it.
    fn repl_real(&mut self, from: usize, to: usize, retain: Option<&str>) -> Result<((StdDuration, Uuid), bool, bool), String> {
        self.now += 1;
        let mut from_r = self.rt.block_on(self.qs[from].read()).map_err(|e| format!("read:{e:?}"))?;
        let mut to_w = self.rt.block_on(self.qs[to].write(dur(self.now))).map_err(|e| format!("write:{e:?}"))?;
        let state = to_w.consumer_get_state().map_err(|e| format!("consumer_get_state:{e:?}"))?;
        let mut changes = from_r.supplier_provide_changes(state).map_err(|e| format!("supplier_provide_changes:{e:?}"))?;
        let needle = self.ko.to_string();
        let supplied = match &changes {
            ReplIncrementalContext::V1 { entries, .. } => {
                entries.iter().any(|e| serde_json::to_string(e).map(|s| s.contains(&needle) && s.contains(Attribute::KeyInternalData.as_str())).unwrap_or(false))
            }
            _ => false,
        };
        let mut retained = false;
        if let (true, Some(kid)) = (supplied, retain) {
            fn walk(v: &mut J, kid: &str, done: &mut bool) {
                match v {
                    J::Object(m) => {
                        if m.get("id").and_then(|i| i.as_str()) == Some(kid) && m.contains_key("der") && m.get("status").and_then(|s| s.as_str()) == Some("Valid") {
                            let usage = m.get("usage").and_then(|u| u.as_str()).unwrap_or("").to_string();
                            let der: Vec<u8> = m["der"].as_array().map(|a| a.iter().map(|b| b.as_u64().unwrap_or(0) as u8).collect()).unwrap_or_default();
                            let pubder = match usage.as_str() {
                                "JwsEs256" => hook::public_der("es256", &der).ok(),
                                "JwsRs256" => hook::public_der("rs256", &der).ok(),
                                _ => Some(der),
                            };
                            if let Some(p) = pubder {
                                m.insert("status".into(), json!("Retained"));
                                m.insert("der".into(), json!(p));
                                *done = true;
                            }
                        } else {
                            for (_, c) in m.iter_mut() {
                                walk(c, kid, done);
                            }
                        }
                    }
                    J::Array(a) => {
                        for c in a.iter_mut() {
                            walk(c, kid, done);
                        }
                    }
                    _ => {}
                }
            }
            let mut j = serde_json::to_value(&changes).map_err(|e| format!("ser:{e}"))?;
            // key ids are unique to this key object: walk the whole message
            walk(&mut j, kid, &mut retained);
            if retained {
                changes = serde_json::from_value(j).map_err(|e| format!("de:{e}"))?;
            }
        }
        let trim = hook::txn_trim_cid(&to_w);
        match to_w.consumer_apply_changes(changes).map_err(|e| format!("consumer_apply_changes:{e:?}"))? {
            ConsumerState::Ok => to_w.commit().map_err(|e| format!("commit:{e:?}"))?,
            ConsumerState::RefreshRequired => return Err("refresh-required".into()),
        }
        Ok((trim, supplied, retained))
    }
}

#[derive(Default)]
struct Stats {
    revokes_ok: u64,
    rotates_ok: u64,
    revoked_token_rechecks: u64,
    txn_err: u64,
    same_second: u64,
    trimmed: u64,
    retained: u64,
    verifies: u64,
    signs: u64,
    shape: String,
    t_sign: f64,
    t_verify: f64,
    t_boot: f64,
    t_ops: f64,
}

/// Runs one case; the first failure (oracle failures take precedence over model disagreements
/// of the same observation round) ends it.
fn run_case(case: &Case, drv: &mut Driver, st: &mut Stats, check_model: bool, worlds: &mut [Option<World>; 2]) -> Result<(), Fail> {
    let slot = if case.pair { 1 } else { 0 };
    // every commit reloads *all* key objects of the server: start over with fresh servers regularly
    let res = match worlds[slot].take() {
        Some(w) if w.serial < 40 => Ok(w),
        _ => World::boot(case.pair),
    };
    let mut w = res.map_err(|e| Fail { kind: "harness", class: "harness-error".into(), expected: "the harness can drive the servers".into(), observed: e })?;
    let r = run_case_in(case, drv, st, check_model, &mut w);
    // a failed history leaves its servers in an unknown state: boot fresh ones next time
    if r.is_ok() {
        worlds[slot] = Some(w);
    }
    r
}

fn run_case_in(case: &Case, drv: &mut Driver, st: &mut Stats, check_model: bool, w: &mut World) -> Result<(), Fail> {
    let harness = |e: String| Fail { kind: "harness", class: "harness-error".into(), expected: "the harness can drive the servers".into(), observed: e };
    let t_b = std::time::Instant::now();
    w.begin(case, drv).map_err(harness)?;
    st.t_boot += t_b.elapsed().as_secs_f64();
    observe(w, drv, st, check_model, "boot", None)?;
    for (opi, op) in case.ops.iter().enumerate() {
        let tag = format!("op{opi}");
        let mut pending_model: Option<Fail> = None;
        let t_op = std::time::Instant::now();
        match op {
            Op::Restart { srv } => {
                let srv = *srv % w.nsrv();
                w.now += 1;
                let q = QueryServer::new(w.be[srv].clone(), Schema::new().expect("schema"), "example.com".to_string(), dur(w.now)).map_err(|e| harness(format!("restart new:{e:?}")))?;
                w.rt.block_on(q.initialise_helper(dur(w.now), DOMAIN_TGT_LEVEL)).map_err(|e| harness(format!("restart init:{e:?}")))?;
                w.qs[srv] = q;
                st.shape.push('R');
            }
            Op::Repl { from, to, retain } => {
                if w.nsrv() < 2 {
                    continue;
                }
                let (from, to) = (*from % 2, *to % 2);
                if from == to {
                    continue;
                }
                let rkid = match retain {
                    Some(i) if !w.keys.is_empty() => Some(w.keys[(*i as usize) % w.keys.len()].0.clone()),
                    _ => None,
                };
                let (trim, supplied, retained) = w.repl_real(from, to, rkid.as_deref()).map_err(harness)?;
                let rn = if retained { rkid.as_ref().map(|k| World::kid_nat(k).to_string()).unwrap() } else { "-".to_string() };
                let reply = drv.ask(&format!("repl {to} {from} {} {rn}", w.cid_nat(&trim)));
                if retained {
                    st.retained += 1;
                }
                let offered_mismatch = check_model && reply != if supplied { "1" } else { "0" };
                // the oracle's ledger: what `from` had revoked, `to` has revoked now
                let rv: Vec<String> = w.ledger[from].revoked.iter().cloned().collect();
                w.ledger[to].revoked.extend(rv);
                w.history.push(Ev::Repl { from, to, offered: supplied });
                st.shape.push(if retained { 'Q' } else if supplied { 'P' } else { 'p' });
                if offered_mismatch {
                    // (the oracle still runs on this round below; this disagreement is reported unless an oracle failure shows up)
                    pending_model = Some(Fail { kind: "impl-vs-model", class: "model-offered".into(), expected: format!("model: offered={reply}"), observed: format!("{tag}: the supply {} KeyInternalData of the key object", if supplied { "contains" } else { "does not contain" }) });
                }
            }
            Op::Txn { srv, dt, acts } => {
                let srv = *srv % w.nsrv();
                w.now += dt;
                let pre = w.read_state(srv).map_err(harness)?.unwrap_or_default();
                let resolved: Vec<Vec<String>> = acts.iter().map(|a| a.revoke.iter().map(|k| w.resolve(k)).collect()).collect();
                let mut wr = w.rt.block_on(w.qs[srv].write(dur(w.now))).map_err(|e| harness(format!("{e:?}")))?;
                let cid = hook::txn_cid(&wr);
                let trim = hook::txn_trim_cid(&wr);
                let mut cur = pre.clone();
                let mut model_acts = vec![];
                let mut failed: Option<String> = None;
                let mut revoked_now: Vec<String> = vec![];
                let mut expected_vf: Vec<u64> = vec![0];
                for (ai, a) in acts.iter().enumerate() {
                    let mut mods = vec![];
                    let mut rv = vec![];
                    for kid in resolved[ai].iter().cloned() {
                        if !rv.contains(&kid) {
                            rv.push(kid.clone());
                        }
                        mods.push(Modify::Present(Attribute::KeyActionRevoke, Value::HexString(kid)));
                    }
                    let mut rt = None;
                    let req = match (a.rotate, a.rotate_at_key) {
                        (Some(off), _) => Some((w.now as i64 + off).max(1) as u64),
                        (None, Some(i)) if !w.keys.is_empty() => {
                            let kid = &w.keys[(i as usize) % w.keys.len()].0;
                            cur.iter().find(|r| r.kid == *kid).map(|r| r.vf.max(1))
                        }
                        _ => None,
                    };
                    if let Some(secs) = req {
                        mods.push(Modify::Present(Attribute::KeyActionRotate, Value::new_datetime_epoch(dur(secs))));
                        rt = Some(secs);
                        expected_vf.push(secs.max(w.now));
                        if cur.iter().any(|r| r.vf == secs.max(w.now)) {
                            st.same_second += 1;
                        }
                    }
                    if mods.is_empty() {
                        continue;
                    }
                    let res = wr.internal_modify_uuid(w.ko, &ModifyList::new_list(mods));
                    let (fresh, after) = match res {
                        Ok(()) => {
                            let e_now = wr.internal_search_uuid(w.ko).map_err(|e| harness(format!("{e:?}")))?;
                            let after = e_now.get_ava_set(Attribute::KeyInternalData).and_then(|vs| vs.as_key_internal_map()).map(|m| World::recs_of(m)).unwrap_or_default();
                            let fresh: Vec<String> = after.iter().filter(|r| !cur.iter().any(|c| c.kid == r.kid)).map(|r| format!("{}/{}/{}", r.usage, r.vf, World::kid_nat(&r.kid))).collect();
                            (fresh, Some(after))
                        }
                        Err(e) => {
                            failed = Some(format!("{e:?}"));
                            (vec![], None)
                        }
                    };
                    model_acts.push(format!(
                        "rv={} rt={} f={}",
                        if rv.is_empty() { "-".into() } else { rv.iter().map(|k| World::kid_nat(k).to_string()).collect::<Vec<_>>().join(",") },
                        rt.map(|s| s.to_string()).unwrap_or("-".into()),
                        if fresh.is_empty() { "-".into() } else { fresh.join(",") }
                    ));
                    match after {
                        Some(a2) => {
                            cur = a2;
                            revoked_now.extend(rv);
                            if rt.is_some() { st.rotates_ok += 1; }
                        }
                        None => break,
                    }
                }
                if model_acts.is_empty() {
                    drop(wr);
                    continue;
                }
                let real_ok = if failed.is_some() {
                    drop(wr);
                    st.txn_err += 1;
                    false
                } else {
                    wr.commit().map_err(|e| harness(format!("commit:{e:?}")))?;
                    true
                };
                st.shape.push(if real_ok { 'T' } else { 'E' });
                if real_ok {
                    st.revokes_ok += revoked_now.len() as u64;
                    w.ledger[srv].revoked.extend(revoked_now.iter().cloned());
                    w.history.push(Ev::Txn { srv, revoked: revoked_now.clone() });
                    w.note_keys(&cur);
                    // oracle: a new key's valid_from is max(requested, now) or 0
                    for r in cur.iter().filter(|r| !pre.iter().any(|p| p.kid == r.kid)) {
                        if !expected_vf.contains(&r.vf) {
                            return Err(Fail { kind: "impl-vs-oracle", class: "new-key-valid-from".into(), expected: format!("valid_from of a new key in {expected_vf:?} (0 or max(requested, now))"), observed: format!("{tag}: key {} valid_from {}", r.kid, r.vf) });
                        }
                    }
                    if pre.iter().any(|p| p.status == "X" && !cur.iter().any(|c| c.kid == p.kid)) {
                        st.trimmed += 1;
                    }
                }
                let reply = drv.ask(&format!("txn {srv} {} {} {} {}", w.now, w.cid_nat(&cid), w.cid_nat(&trim), model_acts.join(" | ")));
                let want = if real_ok { "ok" } else { "err" };
                if check_model && reply != want {
                    return Err(Fail { kind: "impl-vs-model", class: "model-txn-result".into(), expected: format!("model: {reply}"), observed: format!("{tag}: implementation {want} ({failed:?})") });
                }
            }
        }
        let touched = match op {
            Op::Txn { srv, .. } | Op::Restart { srv } => *srv % w.nsrv(),
            Op::Repl { to, .. } => *to % w.nsrv(),
        };
        let t_mid = t_op.elapsed().as_secs_f64();
        observe(w, drv, st, check_model, &tag, Some(touched))?;
        if std::env::var("C34_TIMING").map(|v| v == "2").unwrap_or(false) {
            eprintln!("  {tag} {op:?}: op {:.2}s observe {:.2}s", t_mid, t_op.elapsed().as_secs_f64() - t_mid);
        }
        if let Some(f) = pending_model {
            return Err(f);
        }
    }
    Ok(())
}

/// Observation round on every server: state, signer probes, verification of every token.
fn observe(w: &mut World, drv: &mut Driver, st: &mut Stats, check_model: bool, tag: &str, touched: Option<usize>) -> Result<(), Fail> {
    // an event changes one server only: that server is observed in full (state, signer probes,
    // every token); the other one only verifies the tokens made since its last round
    let full = |srv: usize| touched.map(|t| t == srv).unwrap_or(true);
    let harness = |e: String| Fail { kind: "harness", class: "harness-error".into(), expected: "the harness can drive the servers".into(), observed: e };
    let mut model_fail: Option<Fail> = None;
    let mut note_model = |f: Fail| {
        if model_fail.is_none() {
            model_fail = Some(f);
        }
    };
    // 1. states
    let mut states = vec![];
    for srv in 0..w.nsrv() {
        let s = w.read_state(srv).map_err(harness)?.unwrap_or_default();
        for r in &s {
            w.ledger[srv].known.insert(r.kid.clone());
        }
        w.note_keys(&s);
        if std::env::var("C34_TRACE").is_ok() {
            eprintln!("{tag} srv{srv} now={} state={} ledger.revoked={:?}", w.now, s.iter().map(|r| format!("{}:{}:{}:{}", r.kid, r.usage, r.vf, r.status)).collect::<Vec<_>>().join(","), w.ledger[srv].revoked);
        }
        if check_model {
            let reply = drv.ask(&format!("state {srv}"));
            let model = reply.split('@').next().unwrap_or("").to_string();
            let real = w.show_state(&s);
            if model != real {
                note_model(Fail { kind: "impl-vs-model", class: "model-state".into(), expected: format!("model: {model}"), observed: format!("{tag} srv{srv}: {real}") });
            }
        }
        states.push(s);
    }
    // 2. signer probes (and new tokens)
    for srv in 0..w.nsrv() {
        if !full(srv) {
            continue;
        }
        let rd = w.rt.block_on(w.qs[srv].read()).map_err(|e| harness(format!("{e:?}")))?;
        let Some(h) = hook::handle(&rd, w.ko) else {
            return Err(harness(format!("{tag} srv{srv}: no loaded key object")));
        };
        for u in w.classes.clone() {
            let mut times: Vec<u64> = vec![w.now, 0];
            let mut vfs: Vec<u64> = states[srv].iter().filter(|r| r.usage == u).map(|r| r.vf).collect();
            vfs.sort();
            vfs.dedup();
            for vf in vfs.iter().rev().take(4) {
                times.extend([vf.saturating_sub(1), *vf, vf + 1]);
            }
            times.sort();
            times.dedup();
            for t in times {
                st.signs += 1;
                let payload = format!("c34 {u} {t}").into_bytes();
                let t_s = std::time::Instant::now();
                let real: Result<String, String> = if u == "k" {
                    match h.hkdf(b"c34 info", 32, dur(t)) {
                        Ok(out) => {
                            let cands: Vec<&Rec> = states[srv].iter().filter(|r| r.usage == "k" && !r.der.is_empty() && hook::hkdf_expand_with(&r.der, b"c34 info", 32).as_deref() == Some(&out[..])).collect();
                            match cands.len() {
                                1 => Ok(cands[0].kid.clone()),
                                n => Err(format!("hkdf output matches {n} stored keys")),
                            }
                        }
                        Err(e) => Err(e),
                    }
                } else {
                    match h.sign(hook_usage(u), &payload, dur(t)) {
                        Ok((Some(kid), text)) => {
                            if !w.tokens.iter().any(|tk| tk.usage == u && tk.kid == kid) {
                                w.tokens.push(Token { usage: u, kid: kid.clone(), text, payload: payload.clone() });
                            }
                            Ok(kid)
                        }
                        Ok((None, _)) => Err("token without kid".into()),
                        Err(e) => Err(e),
                    }
                };
                st.t_sign += t_s.elapsed().as_secs_f64();
                // oracle: newest non-revoked (and not retained) key whose validity has started
                let eligible: Vec<&Rec> = states[srv].iter().filter(|r| r.usage == u && r.vf <= t && r.status != "T" && r.status != "X" && !w.ledger[srv].revoked.contains(&r.kid)).collect();
                let best = eligible.iter().map(|r| r.vf).max();
                match (&real, best) {
                    (Ok(kid), _) => {
                        let rec = states[srv].iter().find(|r| r.kid == *kid && r.usage == u);
                        let bad = match rec {
                            None => Some("signed with a key the entry does not list".to_string()),
                            Some(r) if w.ledger[srv].revoked.contains(kid) || r.status == "X" => Some("signed with a revoked key".into()),
                            Some(r) if r.status == "T" => Some("signed with a retained key".into()),
                            Some(r) if r.vf > t => Some(format!("signed with a key valid from {} > {t}", r.vf)),
                            Some(r) if Some(r.vf) != best => Some(format!("signed with the key valid from {} although one valid from {best:?} has started", r.vf)),
                            _ => None,
                        };
                        if let Some(b) = bad {
                            let class = if b.contains("revoked") {
                                w.class_of_trusted_revoked(srv, kid, rec.map(|r| r.status != "X").unwrap_or(false), "signer-revoked-or-retained")
                            } else if b.contains("retained") { "signer-revoked-or-retained".into() } else { "signer-not-newest-started".into() };
                            return Err(Fail { kind: "impl-vs-oracle", class, expected: "the newest non-revoked key whose validity has started".into(), observed: format!("{tag} srv{srv} usage {u} t={t}: {b} (kid {kid})") });
                        }
                    }
                    (Err(e), Some(vf)) => {
                        return Err(Fail { kind: "impl-vs-oracle", class: "no-signer-but-eligible-key".into(), expected: format!("a signature with the key valid from {vf}"), observed: format!("{tag} srv{srv} usage {u} t={t}: {e}") });
                    }
                    (Err(_), None) => {}
                }
                if check_model {
                    let reply = drv.ask(&format!("sign {srv} {u} {t}"));
                    let realm = match &real { Ok(k) => World::kid_nat(k).to_string(), Err(_) => "none".into() };
                    if reply != realm {
                        note_model(Fail { kind: "impl-vs-model", class: "model-signer".into(), expected: format!("model: {reply}"), observed: format!("{tag} srv{srv} usage {u} t={t}: {real:?}") });
                    }
                }
            }
        }
    }
    // 3. every token on every server
    for srv in 0..w.nsrv() {
        let rd = w.rt.block_on(w.qs[srv].read()).map_err(|e| harness(format!("{e:?}")))?;
        let h = hook::handle(&rd, w.ko).ok_or_else(|| harness("no loaded key object".into()))?;
        for u in w.classes.clone() {
            if u == "k" {
                continue;
            }
            let from = if full(srv) { 0 } else { w.verified_upto[srv] };
            let toks: Vec<&Token> = w.tokens.iter().skip(from).filter(|t| t.usage == u).collect();
            if toks.is_empty() {
                continue;
            }
            let mut reals = vec![];
            for tk in &toks {
                st.verifies += 1;
                let t_v = std::time::Instant::now();
                let res = h.verify(hook_usage(u), &tk.text);
                st.t_verify += t_v.elapsed().as_secs_f64();
                let accepted = match &res {
                    Ok(p) => {
                        if *p != tk.payload {
                            return Err(Fail { kind: "impl-vs-oracle", class: "payload-changed".into(), expected: "the signed payload".into(), observed: format!("{tag} srv{srv} kid {}: other bytes", tk.kid) });
                        }
                        true
                    }
                    Err(_) => false,
                };
                let revoked = w.ledger[srv].revoked.contains(&tk.kid);
                if revoked {
                    st.revoked_token_rechecks += 1;
                }
                if revoked && accepted {
                    let listed = states[srv].iter().any(|r| r.kid == tk.kid && r.status != "X");
                    return Err(Fail { kind: "impl-vs-oracle", class: w.class_of_trusted_revoked(srv, &tk.kid, listed, "revoked-key-accepted"), expected: "a token of a revoked key is refused".into(), observed: format!("{tag} srv{srv} usage {u} kid {}: accepted", tk.kid) });
                }
                if !revoked && !accepted && w.ledger[srv].known.contains(&tk.kid) {
                    return Err(Fail { kind: "impl-vs-oracle", class: "unrevoked-key-refused".into(), expected: "a token of a known key that was never revoked here is accepted".into(), observed: format!("{tag} srv{srv} usage {u} kid {}: {res:?}", tk.kid) });
                }
                reals.push(if accepted { "1" } else { "0" });
            }
            if check_model {
                let reply = drv.ask(&format!("probe {srv} {u} {}", toks.iter().map(|t| World::kid_nat(&t.kid).to_string()).collect::<Vec<_>>().join(",")));
                if reply != reals.join(",") {
                    note_model(Fail { kind: "impl-vs-model", class: "model-verify".into(), expected: format!("model: {reply}"), observed: format!("{tag} srv{srv} usage {u}: {} for kids {:?}", reals.join(","), toks.iter().map(|t| &t.kid).collect::<Vec<_>>()) });
                }
            }
        }
    }
    for srv in 0..w.nsrv() {
        w.verified_upto[srv] = w.tokens.len();
    }
    match model_fail {
        Some(f) => Err(f),
        None => Ok(()),
    }
}

fn main() {
    let args = Args::parse();
    let mut drv = Driver::spawn(&args.driver);
    let mut rep = Report::new(
        "keys",
        "a history counts when it committed at least one revocation and one rotation and re-verified a revoked key's token after a later event",
    );
    let mut model_failures = 0u32;
    let mut oracle_failed = false;
    let mut worlds: [Option<World>; 2] = [None, None];

    let mut run_one = |name: &str, case: &Case, rep: &mut Report, drv: &mut Driver, model_failures: &mut u32, oracle_failed: &mut bool| {
        let mut st = Stats::default();
        let t_case = std::time::Instant::now();
        let res = run_case(case, drv, &mut st, *model_failures < 3, &mut worlds);
        st.t_ops = t_case.elapsed().as_secs_f64();
        let nontrivial = st.revokes_ok > 0 && st.rotates_ok > 0 && st.revoked_token_rechecks > 0;
        rep.case(if nontrivial { Some(format!("{}:{}:{}", case.classes.join(""), st.shape, st.revokes_ok)) } else { None });
        rep.count(if case.pair { "pair" } else { "solo" });
        rep.count_n("revocations-committed", st.revokes_ok);
        rep.count_n("rotations-committed", st.rotates_ok);
        rep.count_n("txn-refused", st.txn_err);
        rep.count_n("same-second-rotations", st.same_second);
        rep.count_n("revoked-token-rechecks", st.revoked_token_rechecks);
        rep.count_n("verifications", st.verifies);
        rep.count_n("signer-probes", st.signs);
        rep.count_n("retain", st.retained);
        if std::env::var("C34_TIMING").is_ok() {
            eprintln!("{name}: classes={:?} shape={} total={:.2}s begin={:.2}s sign={:.2}s ({}) verify={:.2}s ({})", case.classes, st.shape, st.t_ops, st.t_boot, st.t_sign, st.signs, st.t_verify, st.verifies);
        }
        rep.count_n("trimmed-from-entry", st.trimmed);
        rep.count_n("restarts", st.shape.matches('R').count() as u64);
        rep.count_n("replications-with-entry", st.shape.matches('P').count() as u64);
        if case.classes.contains(&"r") {
            rep.count("with-rs256");
        }
        if rep.samples.len() < 4 && nontrivial {
            rep.sample(json!({"name": name, "case": case_json(case), "shape": st.shape}));
        }
        if let Err(f) = res {
            let is_oracle = f.kind == "impl-vs-oracle";
            if f.class == LOST {
                // the known replication defect: keep running the other histories, record two witnesses
                rep.count("lost-revocation-histories");
                if rep.failures.iter().filter(|g| g.class == LOST).count() >= 2 {
                    return;
                }
            }
            // shrink (bounded): drop operations while the same class still fails
            let mut small = case.clone();
            if f.kind != "harness" && f.class != LOST {
                let mut budget = 25;
                let ops = shrink_list(case.ops.clone(), |ops| {
                    if budget == 0 {
                        return false;
                    }
                    budget -= 1;
                    let c = Case { pair: case.pair, classes: case.classes.clone(), ops: ops.to_vec() };
                    let mut s2 = Stats::default();
                    matches!(run_case(&c, drv, &mut s2, !is_oracle, &mut worlds), Err(g) if g.class == f.class)
                });
                small.ops = ops;
            }
            if is_oracle {
                if f.class != LOST {
                    *oracle_failed = true;
                }
            } else {
                *model_failures += 1;
            }
            rep.fail(Failure { kind: f.kind.into(), class: f.class, input: json!({"name": name, "case": case_json(&small)}), expected: f.expected, observed: f.observed });
        }
    };

    if let Some(path) = &args.replay {
        let txt = std::fs::read_to_string(path).expect("replay file");
        let j: J = serde_json::from_str(&txt).expect("replay json");
        let input = if j.get("input").is_some() { j["input"].clone() } else { j };
        let case = case_from_json(&input["case"]);
        run_one("replay", &case, &mut rep, &mut drv, &mut model_failures, &mut oracle_failed);
    } else {
        for (name, case) in scripted() {
            if oracle_failed {
                break;
            }
            rep.count("scripted");
            run_one(name, &case, &mut rep, &mut drv, &mut model_failures, &mut oracle_failed);
        }
        let n = args.cases(22, 420);
        for i in 0..n {
            if oracle_failed {
                break;
            }
            let mut r = Rng::for_case(args.seed, i);
            let case = gen_case(&mut r, args.budget > 1);
            run_one(&format!("rand{i}"), &case, &mut rep, &mut drv, &mut model_failures, &mut oracle_failed);
        }
    }
    rep.model_requests = drv.requests;
    rep.write(&args.out);
    println!(
        "c34 keys: {} histories, {} non-trivial, {} failures, {} model requests",
        rep.evaluations,
        rep.nontrivial_keys.len(),
        rep.failures.len(),
        drv.requests
    );
}
