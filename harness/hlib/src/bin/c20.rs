//! C20 — UUIDs are immutable and the system range is protected. Stream `base-protect`.
//!
//! A real, migrated in-memory server per *world*: the builtin access control profiles are replaced
//! by a blanket search profile and (world variant 0) grant-everything modify / create / delete
//! profiles for one group, (variant 1) the same without the `uuid` attribute, (variant 2) no write
//! profiles. Targets: a person, a group, a recycled entry, a tombstone, every builtin entry.
//! A case is a short sequence of operations of one identity inside one write transaction that is
//! dropped afterwards:
//!   * `QueryServerWriteTransaction::{modify, batch_modify, create, delete}` (public API), compared
//!     with the Lean model's `modifyStage / batchStage / createStage / deleteStage` (`km_c20`);
//!   * the plugin runners alone, through the hook `verif_hooks::c20` (no access check in front),
//!     compared with `runPreCreateTransform / runPreModify / runPreBatchModify`.
//! A deterministic scope runs first (every modification kind x position on `uuid`, modify and batch;
//! creates on every boundary of the reserved range +-1; delete of every builtin entry).
//!
//! Independent oracle (property text only; never asks the model): after every operation the set of
//! stored entries (live, recycled, tombstone) is read back and (O1) every entry id that existed
//! still exists with the same uuid, (O2) for a non-internal identity no new entry has a uuid below
//! 00000000-0000-0000-0001-000000000000, (O3) for a non-internal identity every builtin entry that
//! was live is still live; (O4-O6) an accepted request of a non-internal identity contained no
//! mutating modification of `uuid`, no reserved uuid, no builtin delete candidate; (O7/O8) the Base
//! plugin alone refuses reserved uuids for non-internal identities and every mutating modification
//! of `uuid` for everyone.
use hlib::*;
use kanidm_proto::internal::Filter as ProtoFilter;
use kanidmd_lib::entry::{Entry, EntryCommitted, EntryInit, EntryNew, EntrySealed};
use kanidmd_lib::filter::{f_eq, f_or, f_pres, Filter, FilterInvalid};
use kanidmd_lib::modify::{Modify, ModifyInvalid, ModifyList};
use kanidmd_lib::prelude::*;
use kanidmd_lib::server::identity::{AccessScope, IdentType, InternalRole};
use kanidm_proto::scim_v1::{
    ScimAttr, ScimEntry, ScimSyncRequest, ScimSyncRetentionMode, ScimSyncState, ScimValue, SCIM_SCHEMA_SYNC_ACCOUNT, SCIM_SCHEMA_SYNC_PERSON,
};
use kanidmd_lib::idm::scim::{GenerateScimSyncTokenEvent, ScimSyncUpdateEvent};
use kanidmd_lib::idm::server::IdmServerTransaction;
use kanidmd_lib::testkit::{setup_idm_test, setup_test, TestConfiguration};
use kanidmd_lib::valueset;
use kanidmd_lib::verif_hooks::c20 as hook;
use serde_json::{json, Value as J};
use std::collections::{BTreeMap, BTreeSet};
use std::sync::Arc;

type Sealed = Entry<EntrySealed, EntryCommitted>;
type NewE = Entry<EntryInit, EntryNew>;

const DAY: u64 = 86_400;
/// The property's range, written from its text: uuids 00000000-0000-0000-0000-xxxxxxxxxxxx.
const RESERVED_BOUND: u128 = 1u128 << 48;
const ANON: u128 = RESERVED_BOUND - 1;
const DNE: u128 = RESERVED_BOUND - 2;

fn reserved(u: u128) -> bool {
    u < RESERVED_BOUND
}

// ---------------------------------------------------------------------------------------------
// atoms
// ---------------------------------------------------------------------------------------------

struct Names {
    cls: BTreeMap<String, u64>,
    attr: BTreeMap<String, u64>,
}

impl Names {
    fn from_driver(d: &mut Driver) -> Names {
        let r = d.ask("tables");
        let mut cls = BTreeMap::new();
        let mut attr = BTreeMap::new();
        for part in r.split(';') {
            let (k, v) = part.split_once('=').expect("tables reply");
            let m = if k == "classes" { &mut cls } else { &mut attr };
            for (i, n) in v.split(',').enumerate() {
                m.insert(n.to_string(), i as u64);
            }
        }
        assert!(cls.len() > 40 && attr.len() > 100, "tables reply too small: {r}");
        Names { cls, attr }
    }
    fn c(&mut self, n: &str) -> u64 {
        let next = 1000 + self.cls.len() as u64;
        *self.cls.entry(n.to_string()).or_insert(next)
    }
    fn a(&mut self, n: &str) -> u64 {
        let next = 1000 + self.attr.len() as u64;
        *self.attr.entry(n.to_string()).or_insert(next)
    }
}

fn list<T: ToString>(xs: impl IntoIterator<Item = T>) -> String {
    let v: Vec<String> = xs.into_iter().map(|x| x.to_string()).collect();
    if v.is_empty() {
        "-".into()
    } else {
        v.join(",")
    }
}

fn plus<T: ToString>(xs: impl IntoIterator<Item = T>) -> String {
    let v: Vec<String> = xs.into_iter().map(|x| x.to_string()).collect();
    if v.is_empty() {
        "-".into()
    } else {
        v.join("+")
    }
}

// ---------------------------------------------------------------------------------------------
// requests
// ---------------------------------------------------------------------------------------------

#[derive(Clone, Debug, PartialEq)]
enum Att {
    Uuid,
    Description,
    Class,
}

impl Att {
    fn real(&self) -> Attribute {
        match self {
            Att::Uuid => Attribute::Uuid,
            Att::Description => Attribute::Description,
            Att::Class => Attribute::Class,
        }
    }
}

/// value: a uuid number for `uuid`, text otherwise
#[derive(Clone, Debug)]
enum Val {
    U(u128),
    S(String),
}

#[derive(Clone, Debug)]
enum M {
    Present(Att, Val),
    Removed(Att, Val),
    Purged(Att),
    Set(Att, Vec<Val>),
    Assert(Att, Val),
}

fn value(a: &Att, v: &Val) -> Value {
    match (a, v) {
        (Att::Uuid, Val::U(u)) => Value::Uuid(Uuid::from_u128(*u)),
        (Att::Class, Val::S(s)) => Value::new_iutf8(s),
        (_, Val::S(s)) => Value::new_utf8s(s),
        (_, Val::U(u)) => Value::new_utf8s(&u.to_string()),
    }
}

fn pvalue(a: &Att, v: &Val) -> PartialValue {
    match (a, v) {
        (Att::Uuid, Val::U(u)) => PartialValue::Uuid(Uuid::from_u128(*u)),
        (Att::Class, Val::S(s)) => PartialValue::new_iutf8(s),
        (_, Val::S(s)) => PartialValue::new_utf8s(s),
        (_, Val::U(u)) => PartialValue::new_utf8s(&u.to_string()),
    }
}

impl M {
    fn att(&self) -> &Att {
        match self {
            M::Present(a, _) | M::Removed(a, _) | M::Purged(a) | M::Set(a, _) | M::Assert(a, _) => a,
        }
    }
    /// from the property text: present / remove / purge / set targeting the uuid attribute
    fn touches_uuid(&self) -> bool {
        *self.att() == Att::Uuid && !matches!(self, M::Assert(..))
    }
    fn real(&self) -> Modify {
        match self {
            M::Present(a, v) => Modify::Present(a.real(), value(a, v)),
            M::Removed(a, v) => Modify::Removed(a.real(), pvalue(a, v)),
            M::Purged(a) => Modify::Purged(a.real()),
            M::Assert(a, v) => Modify::Assert(a.real(), pvalue(a, v)),
            M::Set(a, vs) => Modify::Set(
                a.real(),
                valueset::from_value_iter(vs.iter().map(|v| value(a, v))).expect("valueset"),
            ),
        }
    }
    fn model(&self, n: &mut Names) -> String {
        let a = n.a(self.att().real().as_str());
        let mv = |n: &mut Names, att: &Att, v: &Val| -> String {
            match (att, v) {
                (Att::Uuid, Val::U(u)) => u.to_string(),
                (Att::Class, Val::S(s)) => n.c(s).to_string(),
                _ => "0".into(),
            }
        };
        match self {
            M::Present(att, v) => format!("p:{a}:{}", mv(n, att, v)),
            M::Removed(att, v) => format!("r:{a}:{}", mv(n, att, v)),
            M::Purged(_) => format!("u:{a}"),
            M::Assert(att, v) => format!("a:{a}:{}", mv(n, att, v)),
            M::Set(att, vs) => {
                // a value set: duplicates collapse, uuid sets iterate in order
                let l: BTreeSet<u128> = vs.iter().map(|v| mv(n, att, v).parse::<u128>().unwrap_or(0)).collect();
                format!("s:{a}:{}", plus(l))
            }
        }
    }
}

fn modlist_model(n: &mut Names, ml: &[M]) -> String {
    if ml.is_empty() {
        "-".into()
    } else {
        ml.iter().map(|m| m.model(n)).collect::<Vec<_>>().join(",")
    }
}

/// An entry of a create request.
#[derive(Clone, Debug)]
struct CE {
    group: bool,
    name: String,
    uuids: Vec<u128>,
}

impl CE {
    fn entry(&self) -> NewE {
        let mut e: NewE = Entry::new();
        e.add_ava(Attribute::Class, EntryClass::Object.to_value());
        if self.group {
            e.add_ava(Attribute::Class, EntryClass::Group.to_value());
        } else {
            e.add_ava(Attribute::Class, EntryClass::Account.to_value());
            e.add_ava(Attribute::Class, EntryClass::Person.to_value());
            e.add_ava(Attribute::DisplayName, Value::new_utf8s(&self.name));
        }
        e.add_ava(Attribute::Name, Value::new_iname(&self.name));
        e.add_ava(Attribute::Description, Value::new_utf8s(&self.name));
        for u in &self.uuids {
            e.add_ava(Attribute::Uuid, Value::Uuid(Uuid::from_u128(*u)));
        }
        e
    }
    fn classes(&self) -> Vec<&'static str> {
        if self.group {
            vec!["object", "group"]
        } else {
            vec!["object", "account", "person"]
        }
    }
    fn uuid_set(&self) -> BTreeSet<u128> {
        self.uuids.iter().copied().collect()
    }
    fn uuids_txt(&self) -> String {
        if self.uuids.is_empty() {
            "!".into()
        } else {
            plus(self.uuid_set())
        }
    }
    /// `uuids|!~classes~attrs~fe`
    fn req_model(&self, n: &mut Names, e: &NewE) -> String {
        let cls: Vec<u64> = self.classes().iter().map(|c| n.c(c)).collect();
        let attrs: BTreeSet<u64> = e.get_ava_names().map(|a| n.a(a)).collect();
        let ca = n.a("class");
        format!(
            "{}~{}~{}~{ca}={}",
            self.uuids_txt(),
            plus(cls.iter()),
            list(attrs),
            cls.iter().map(|c| format!("s{c}")).collect::<Vec<_>>().join("+")
        )
    }
    fn cand_model(&self, n: &mut Names) -> String {
        let cls: Vec<u64> = self.classes().iter().map(|c| n.c(c)).collect();
        format!("{}~{}", self.uuids_txt(), plus(cls.iter()))
    }
}

#[derive(Clone, Debug)]
enum IdentSpec {
    /// the member of the granted group, with a scope (0 ro, 1 rw, 2 sync)
    UserA(u8),
    /// a user outside the granted group
    UserB,
    Synch,
    Internal(u8),
}

impl IdentSpec {
    fn non_internal(&self) -> bool {
        !matches!(self, IdentSpec::Internal(_))
    }
    fn label(&self) -> &'static str {
        match self {
            IdentSpec::UserA(1) => "user-granted-rw",
            IdentSpec::UserA(0) => "user-granted-ro",
            IdentSpec::UserA(_) => "user-granted-syncscope",
            IdentSpec::UserB => "user-ungranted",
            IdentSpec::Synch => "synch",
            IdentSpec::Internal(0) => "internal-system",
            IdentSpec::Internal(1) => "internal-migration",
            IdentSpec::Internal(_) => "internal-other",
        }
    }
}

#[derive(Clone, Debug)]
enum Op {
    Modify { targets: Vec<Uuid>, ml: Vec<M> },
    Batch { items: Vec<(Uuid, Vec<M>)> },
    Create { ents: Vec<CE> },
    Delete { targets: Vec<Uuid> },
    BaseCreate { ents: Vec<CE> },
    BaseModify { ml: Vec<M> },
    BaseBatch { items: Vec<(Uuid, Vec<M>)> },
}

#[derive(Clone, Debug)]
struct Case {
    ident: IdentSpec,
    ops: Vec<Op>,
}

// ---------------------------------------------------------------------------------------------
// world
// ---------------------------------------------------------------------------------------------

struct World {
    qs: QueryServer,
    ct: Duration,
    /// 0 grant-everything, 1 grant-everything except the uuid attribute, 2 no write profiles
    variant: u8,
    group: Uuid,
    user_a: Uuid,
    user_b: Uuid,
    person: Uuid,
    tgroup: Uuid,
    recycled: Uuid,
    tomb: Uuid,
    /// live entries with a reserved uuid
    builtins: Vec<Uuid>,
    attrs: Vec<String>,
    classes: Vec<String>,
}

fn wu(k: u64) -> Uuid {
    nat_uuid(0xC20_0000 + k)
}

fn person(name: &str, uuid: Uuid) -> NewE {
    CE { group: false, name: name.into(), uuids: vec![uuid.as_u128()] }.entry()
}

fn acp(name: &str, uuid: Uuid, kind: EntryClass, group: Uuid) -> NewE {
    let mut e: NewE = Entry::new();
    e.add_ava(Attribute::Class, EntryClass::Object.to_value());
    e.add_ava(Attribute::Class, EntryClass::AccessControlProfile.to_value());
    e.add_ava(Attribute::Class, kind.to_value());
    e.add_ava(Attribute::Class, EntryClass::AccessControlReceiverGroup.to_value());
    e.add_ava(Attribute::Class, EntryClass::AccessControlTargetScope.to_value());
    e.add_ava(Attribute::Name, Value::new_iname(name));
    e.add_ava(Attribute::Uuid, Value::Uuid(uuid));
    e.add_ava(Attribute::Description, Value::new_utf8s(name));
    e.add_ava(Attribute::AcpReceiverGroup, Value::Refer(group));
    e.add_ava(Attribute::AcpTargetScope, Value::JsonFilt(ProtoFilter::Pres("class".into())));
    e
}

impl World {
    async fn build(widx: u64) -> World {
        let variant: u8 = match widx % 5 {
            3 => 1,
            4 => 2,
            _ => 0,
        };
        let qs = setup_test(TestConfiguration::default()).await;
        let t0 = duration_from_epoch_now() + Duration::from_secs(60);
        let group = wu(0x100);
        let (user_a, user_b) = (wu(0x200), wu(0x201));
        let (tperson, tgroup, recycled, tomb) = (wu(0x300), wu(0x301), wu(0x302), wu(0x303));
        {
            let mut txn = qs.write(t0).await.expect("txn1");
            let f = Filter::new_ignore_hidden(f_eq(Attribute::Class, EntryClass::AccessControlProfile.into()));
            txn.internal_delete(&f).expect("delete builtin acps");
            txn.internal_create(vec![person("c20usera", user_a), person("c20userb", user_b), person("c20tomb", tomb)])
                .expect("users");
            let mut g = CE { group: true, name: "c20group".into(), uuids: vec![group.as_u128()] }.entry();
            g.add_ava(Attribute::Member, Value::Refer(user_a));
            txn.internal_create(vec![g]).expect("group");
            txn.commit().expect("commit1");
        }
        {
            let mut txn = qs.write(t0 + Duration::from_secs(10)).await.expect("txn1b");
            let f = Filter::new_ignore_hidden(f_eq(Attribute::Uuid, PartialValue::Uuid(tomb)));
            txn.internal_delete(&f).expect("delete tomb fodder");
            txn.commit().expect("commit1b");
        }
        {
            let mut txn = qs.write(t0 + Duration::from_secs(8 * DAY)).await.expect("txn2");
            txn.purge_recycled().expect("purge_recycled");
            txn.commit().expect("commit2");
        }
        let t1 = t0 + Duration::from_secs(9 * DAY);
        let attrs: Vec<String> = ["class", "uuid", "name", "description", "displayname", "member", "mail", "legalname"]
            .iter()
            .filter(|a| variant != 1 || **a != "uuid")
            .map(|s| s.to_string())
            .collect();
        let classes: Vec<String> =
            ["object", "account", "person", "group", "posixgroup", "builtin", "memberof"].iter().map(|s| s.to_string()).collect();
        {
            let mut txn = qs.write(t1).await.expect("txn3");
            txn.internal_create(vec![
                person("c20person", tperson),
                CE { group: true, name: "c20tgroup".into(), uuids: vec![tgroup.as_u128()] }.entry(),
                person("c20recycled", recycled),
            ])
            .expect("targets");
            // blanket search profile so that impersonated searches find candidates (C23's subject)
            let mut s = acp("c20search", wu(0x4ff), EntryClass::AccessControlSearch, UUID_IDM_ALL_ACCOUNTS);
            for a in ["class", "uuid", "name", "spn", "memberof", "member", "description"] {
                s.add_ava(Attribute::AcpSearchAttr, Value::new_iutf8(a));
            }
            let mut es = vec![s];
            if variant != 2 {
                let mut m = acp("c20modify", wu(0x400), EntryClass::AccessControlModify, group);
                for a in &attrs {
                    m.add_ava(Attribute::AcpModifyPresentAttr, Value::new_iutf8(a));
                    m.add_ava(Attribute::AcpModifyRemovedAttr, Value::new_iutf8(a));
                }
                for c in &classes {
                    m.add_ava(Attribute::AcpModifyPresentClass, Value::new_iutf8(c));
                    m.add_ava(Attribute::AcpModifyRemoveClass, Value::new_iutf8(c));
                }
                let mut c = acp("c20create", wu(0x401), EntryClass::AccessControlCreate, group);
                for a in &attrs {
                    c.add_ava(Attribute::AcpCreateAttr, Value::new_iutf8(a));
                }
                for k in &classes {
                    c.add_ava(Attribute::AcpCreateClass, Value::new_iutf8(k));
                }
                let d = acp("c20delete", wu(0x402), EntryClass::AccessControlDelete, group);
                es.extend([m, c, d]);
            }
            txn.internal_create(es).expect("acps");
            txn.commit().expect("commit3");
        }
        {
            let mut txn = qs.write(t1 + Duration::from_secs(10)).await.expect("txn3b");
            let f = Filter::new_ignore_hidden(f_eq(Attribute::Uuid, PartialValue::Uuid(recycled)));
            txn.internal_delete(&f).expect("recycle target");
            txn.commit().expect("commit3b");
        }
        let ct = t1 + Duration::from_secs(60);
        let builtins = {
            let mut txn = qs.write(ct).await.expect("view txn");
            let mut v: Vec<Uuid> = snapshot(&mut txn)
                .into_iter()
                .filter(|s| reserved(s.uuid) && s.live)
                .map(|s| Uuid::from_u128(s.uuid))
                .collect();
            v.sort();
            v
        };
        assert!(builtins.len() > 20, "too few builtin entries: {}", builtins.len());
        World { qs, ct, variant, group, user_a, user_b, person: tperson, tgroup, recycled, tomb, builtins, attrs, classes }
    }

    fn acps_m(&self, n: &mut Names) -> String {
        if self.variant == 2 {
            return "-".into();
        }
        let al = list(self.attrs.iter().map(|a| n.a(a)).collect::<Vec<_>>());
        let cl = list(self.classes.iter().map(|c| n.c(c)).collect::<Vec<_>>());
        let ca = n.a("class");
        format!("G:{}~(pres {ca})~{al}~{al}~{cl}~{cl}", self.group.as_u128())
    }
    fn acps_c(&self, n: &mut Names) -> String {
        if self.variant == 2 {
            return "-".into();
        }
        let al = list(self.attrs.iter().map(|a| n.a(a)).collect::<Vec<_>>());
        let cl = list(self.classes.iter().map(|c| n.c(c)).collect::<Vec<_>>());
        let ca = n.a("class");
        format!("G:{}~(pres {ca})~{al}~{cl}", self.group.as_u128())
    }
    fn acps_d(&self, n: &mut Names) -> String {
        if self.variant == 2 {
            return "-".into();
        }
        let ca = n.a("class");
        format!("G:{}~(pres {ca})", self.group.as_u128())
    }
}

/// One stored entry as the oracle sees it.
#[derive(Clone, Debug)]
struct Snap {
    id: u64,
    uuid: u128,
    live: bool,
}

/// Every stored entry: live, recycled and tombstone.
fn snapshot(txn: &mut QueryServerWriteTransaction<'_>) -> Vec<Snap> {
    let f = Filter::new(f_pres(Attribute::Class));
    txn.internal_search(f)
        .expect("snapshot search")
        .iter()
        .map(|e| {
            let cls = e.get_ava_as_iutf8(Attribute::Class).cloned().unwrap_or_default();
            Snap { id: e.get_id(), uuid: e.get_uuid().as_u128(), live: !cls.contains("recycled") && !cls.contains("tombstone") }
        })
        .collect()
}

fn fetch(txn: &mut QueryServerWriteTransaction<'_>, u: Uuid) -> Option<Arc<Sealed>> {
    let f = Filter::new(f_eq(Attribute::Uuid, PartialValue::Uuid(u)));
    txn.internal_search(f).ok().and_then(|mut v| v.pop())
}

fn ent_model(n: &mut Names, e: &Sealed) -> String {
    let cls: Vec<u64> = e.get_ava_as_iutf8(Attribute::Class).map(|s| s.iter().map(|c| n.c(c)).collect()).unwrap_or_default();
    let classes = if e.get_ava_as_iutf8(Attribute::Class).is_some() { list(cls.iter()) } else { "!".into() };
    let managed = match e.get_ava_refer(Attribute::EntryManagedBy) {
        Some(s) => list(s.iter().map(|u| u.as_u128())),
        None => "!".into(),
    };
    let sp = match e.get_ava_single_refer(Attribute::SyncParentUuid) {
        Some(u) => u.as_u128().to_string(),
        None => "!".into(),
    };
    let ca = n.a("class");
    let fe = if cls.is_empty() { "-".to_string() } else { format!("{ca}={}", cls.iter().map(|c| format!("s{c}")).collect::<Vec<_>>().join("+")) };
    format!("{}~{}~{}~{}~{}", e.get_uuid().as_u128(), classes, managed, sp, fe)
}

fn make_ident(txn: &mut QueryServerWriteTransaction<'_>, w: &World, s: &IdentSpec) -> (Identity, String) {
    let scope_of = |s: u8| match s {
        0 => AccessScope::ReadOnly,
        1 => AccessScope::ReadWrite,
        _ => AccessScope::Synchronise,
    };
    let user = |txn: &mut QueryServerWriteTransaction<'_>, u: Uuid, sc: u8| {
        let e = fetch(txn, u).expect("user");
        let mo = e.get_ava_refer(Attribute::MemberOf).cloned();
        let txt = format!(
            "U:{}:{}:{}",
            u.as_u128(),
            sc,
            match &mo {
                Some(s) => list(s.iter().map(|u| u.as_u128())),
                None => "!".into(),
            }
        );
        (Identity::from_impersonate_entry_readwrite(e).project_with_scope(scope_of(sc)), txt)
    };
    match s {
        IdentSpec::UserA(sc) => user(txn, w.user_a, *sc),
        IdentSpec::UserB => user(txn, w.user_b, 1),
        IdentSpec::Synch => {
            let (mut id, _) = user(txn, w.user_a, 1);
            let u = wu(0x500);
            id.origin = IdentType::Synch(u);
            (id, format!("S:{}:1", u.as_u128()))
        }
        IdentSpec::Internal(r) => {
            let role = match r {
                0 => InternalRole::System,
                1 => InternalRole::Migration,
                2 => InternalRole::AccountRequest,
                _ => InternalRole::MessageQueue,
            };
            let (mut id, _) = user(txn, w.user_a, 1);
            id.origin = IdentType::Internal(role);
            (id, format!("I:{}:1", r.min(&3)))
        }
    }
}

/// result class of a real operation, in the model's vocabulary
fn op_class<T>(r: &Result<T, OperationError>) -> String {
    match r {
        Ok(_) => "ok".into(),
        Err(OperationError::AccessDenied) => "accessDenied".into(),
        Err(OperationError::NoMatchingEntries) => "noMatchingEntries".into(),
        Err(OperationError::EmptyRequest) => "emptyRequest".into(),
        Err(OperationError::MissingEntries) => "missingEntries".into(),
        Err(OperationError::SystemProtectedAttribute) => "protectedAttr".into(),
        Err(OperationError::ModifyAssertionFailed) => "assertFailed".into(),
        Err(e) => {
            let s = format!("{e:?}");
            if s.contains("Base(") {
                let k = if s.contains("Uuid has multiple values") {
                    "uuidCount"
                } else if s.contains("Uuid duplicate detected in request") {
                    "dupInRequest"
                } else if s.contains("Uuid must not be in protected range") {
                    "protectedRange"
                } else if s.contains("Attempt to create UUID_DOES_NOT_EXIST") {
                    "doesNotExist"
                } else if s.contains("Uuid duplicate found in database") {
                    "existsInDb"
                } else {
                    "unknown"
                };
                format!("base:{k}")
            } else {
                "other-error".into()
            }
        }
    }
}

/// model outcome vs real result class
fn agrees(model: &str, real: &str) -> bool {
    let m = model.split(' ').next().unwrap_or("");
    match m {
        "proceed" => real == "ok" || real == "other-error",
        "nothingToDo" => real == "ok",
        m => m == real,
    }
}

struct Ctx<'a> {
    w: &'a World,
    n: &'a mut Names,
    d: &'a mut Driver,
    rep: &'a mut Report,
    input: J,
}

impl Ctx<'_> {
    fn mismatch(&mut self, what: &str, line: &str, model: &str, real: &str) {
        self.rep.fail(Failure {
            kind: "impl-vs-model".into(),
            class: format!("c20-model-{what}"),
            input: json!({"replay": self.input, "request": line}),
            expected: format!("model: {model}"),
            observed: format!("implementation: {real}"),
        });
    }
    fn violation(&mut self, class: &str, msg: String) {
        self.rep.fail(Failure {
            kind: "impl-vs-oracle".into(),
            class: class.into(),
            input: json!({"replay": self.input}),
            expected: "the property holds".into(),
            observed: msg,
        });
    }
    /// O1-O3 on the stored entries before / after one operation.
    fn oracle_post(&mut self, ident: &IdentSpec, pre: &[Snap], post: &[Snap], what: &str) {
        let post_by_id: BTreeMap<u64, &Snap> = post.iter().map(|s| (s.id, s)).collect();
        let pre_ids: BTreeSet<u64> = pre.iter().map(|s| s.id).collect();
        for p in pre {
            match post_by_id.get(&p.id) {
                None => self.violation("c20-entry-vanished", format!("{what}: entry id {} (uuid {}) no longer stored", p.id, Uuid::from_u128(p.uuid))),
                Some(q) => {
                    if q.uuid != p.uuid {
                        self.violation(
                            "c20-uuid-changed",
                            format!("{what}: entry id {} changed uuid {} -> {}", p.id, Uuid::from_u128(p.uuid), Uuid::from_u128(q.uuid)),
                        );
                    }
                    if ident.non_internal() && reserved(p.uuid) && p.live && !q.live {
                        self.violation("c20-builtin-deleted", format!("{what}: builtin entry {} is no longer live", Uuid::from_u128(p.uuid)));
                    }
                }
            }
        }
        if ident.non_internal() {
            for q in post {
                if !pre_ids.contains(&q.id) && reserved(q.uuid) {
                    self.violation("c20-reserved-uuid-created", format!("{what}: new entry with reserved uuid {}", Uuid::from_u128(q.uuid)));
                }
            }
        }
    }
}

fn v4ish(rng: &mut Rng) -> u128 {
    let r = ((rng.next() as u128) << 64) | rng.next() as u128;
    (r & 0xffffffffffff0fff3fffffffffffffffu128) | 0x00000000000040008000000000000000u128
}

async fn run_case(cx: &mut Ctx<'_>, case: &Case, rng: &mut Rng) {
    let w = cx.w;
    let mut txn = w.qs.write(w.ct).await.expect("op txn");
    let (ident, ident_txt) = make_ident(&mut txn, w, &case.ident);
    cx.rep.count(&format!("ident:{}", case.ident.label()));
    cx.rep.count(&format!("world-variant:{}", w.variant));
    let granted_rw = matches!(case.ident, IdentSpec::UserA(1)) && w.variant == 0;
    let mut keys: Vec<String> = vec![];
    for op in &case.ops {
        let pre = snapshot(&mut txn);
        match op {
            Op::Modify { targets, ml } => {
                let filter: Filter<FilterInvalid> =
                    Filter::new(f_or(targets.iter().map(|u| f_eq(Attribute::Uuid, PartialValue::Uuid(*u))).collect()));
                let rl = ModifyList::<ModifyInvalid>::new_list(ml.iter().map(|m| m.real()).collect());
                let me = match ModifyEvent::from_internal_parts(ident.clone(), &rl, &filter, &txn) {
                    Ok(me) => me,
                    Err(_) => {
                        cx.rep.count("skipped:modlist-invalid");
                        continue;
                    }
                };
                let cands = match txn.impersonate_search_valid(me.filter.clone(), me.filter_orig.clone(), &me.ident) {
                    Ok(c) => c,
                    Err(_) => {
                        cx.rep.count("skipped:search-error");
                        continue;
                    }
                };
                let cs_txt = if cands.is_empty() { "-".to_string() } else { cands.iter().map(|e| ent_model(cx.n, e)).collect::<Vec<_>>().join("^") };
                let touching = ml.iter().any(|m| m.touches_uuid());
                let r = txn.modify(&me);
                let rc = op_class(&r);
                let acps = w.acps_m(cx.n);
                let line = format!("mod\t{ident_txt}\t-\t{acps}\t{cs_txt}\t{}", modlist_model(cx.n, ml));
                let model = cx.d.ask(&line);
                cx.rep.count(&format!("modify:{rc}"));
                if touching {
                    cx.rep.count(&format!("modify-touching-uuid:{rc}"));
                }
                if !agrees(&model, &rc) {
                    cx.mismatch("modify", &line, &model, &format!("{rc} ({r:?})"));
                }
                if r.is_ok() && touching && case.ident.non_internal() {
                    cx.violation("c20-uuid-modification-accepted", format!("modify accepted {ml:?} for {:?}", case.ident));
                }
                if granted_rw && touching && !cands.is_empty() {
                    keys.push(line);
                }
            }
            Op::Batch { items } => {
                let mut modset = BTreeMap::new();
                let mut spec: BTreeMap<Uuid, &Vec<M>> = BTreeMap::new();
                let mut ok = true;
                for (u, ml) in items {
                    let rl = ModifyList::<ModifyInvalid>::new_list(ml.iter().map(|m| m.real()).collect());
                    match rl.validate(txn.get_schema()) {
                        Ok(v) => {
                            if !modset.contains_key(u) {
                                modset.insert(*u, v);
                                spec.insert(*u, ml);
                            }
                        }
                        Err(_) => ok = false,
                    }
                }
                if !ok {
                    cx.rep.count("skipped:modlist-invalid");
                    continue;
                }
                let n_modset = modset.len();
                // the candidates `batch_modify` will find
                let cands = if modset.is_empty() {
                    vec![]
                } else {
                    let f = Filter::new(f_or(modset.keys().map(|u| f_eq(Attribute::Uuid, PartialValue::Uuid(*u))).collect()));
                    let fv = match f.validate(txn.get_schema()) {
                        Ok(f) => f,
                        Err(_) => {
                            cx.rep.count("skipped:filter-invalid");
                            continue;
                        }
                    };
                    match txn.impersonate_search_valid(fv.clone(), fv, &ident) {
                        Ok(c) => c,
                        Err(_) => {
                            cx.rep.count("skipped:search-error");
                            continue;
                        }
                    }
                };
                let pairs: Vec<String> = cands
                    .iter()
                    .map(|e| {
                        format!(
                            "{}@{}",
                            ent_model(cx.n, e),
                            match spec.get(&e.get_uuid()) {
                                Some(ml) => modlist_model(cx.n, ml),
                                None => "!".into(),
                            }
                        )
                    })
                    .collect();
                let touching = spec.values().any(|ml| ml.iter().any(|m| m.touches_uuid()));
                // `batch_modify` searches with `filter_all!`, so a tombstone can be a candidate; the
                // internal system role passes the access check on it and `apply_modlist` then hits
                // `unreachable!()` in `EntryChangeState::change_ava` (repl/entry.rs:178) — a panic of
                // the server, not a request of a user: excluded, counted and reported in the notes.
                if matches!(case.ident, IdentSpec::Internal(0))
                    && cands.iter().any(|e| e.get_ava_as_iutf8(Attribute::Class).map(|c| c.contains("tombstone")).unwrap_or(false))
                {
                    cx.rep.count("skipped:internal-system-batch-on-tombstone");
                    continue;
                }
                let be = BatchModifyEvent { ident: ident.clone(), modset };
                let r = txn.batch_modify(&be);
                let rc = op_class(&r);
                let acps = w.acps_m(cx.n);
                let line = format!("bat\t{ident_txt}\t-\t{acps}\t{n_modset}\t{}", if pairs.is_empty() { "-".to_string() } else { pairs.join("^") });
                let model = cx.d.ask(&line);
                cx.rep.count(&format!("batch:{rc}"));
                if touching {
                    cx.rep.count(&format!("batch-touching-uuid:{rc}"));
                }
                if !agrees(&model, &rc) {
                    cx.mismatch("batch", &line, &model, &format!("{rc} ({r:?})"));
                }
                if r.is_ok() && touching && case.ident.non_internal() {
                    cx.violation("c20-uuid-modification-accepted", format!("batch modify accepted {items:?} for {:?}", case.ident));
                }
                if granted_rw && touching && !cands.is_empty() {
                    keys.push(line);
                }
            }
            Op::Create { ents } => {
                let real_ents: Vec<NewE> = ents.iter().map(|c| c.entry()).collect();
                let mut ce = CreateEvent::new_impersonate_identity(ident.clone(), real_ents.clone());
                ce.return_created_uuids = true;
                let r = txn.create(&ce);
                let rc = op_class(&r);
                let created: Vec<u128> = match &r {
                    Ok(Some(us)) => us.iter().map(|u| u.as_u128()).collect(),
                    _ => vec![],
                };
                // the fresh uuids the implementation drew, in request order (any v4 when it failed)
                let fresh: Vec<u128> = if r.is_ok() && created.len() == ents.len() {
                    ents.iter().zip(created.iter()).filter(|(c, _)| c.uuids.is_empty()).map(|(_, u)| *u).collect()
                } else {
                    ents.iter().filter(|c| c.uuids.is_empty()).map(|_| v4ish(rng)).collect()
                };
                let db = list(pre.iter().map(|s| s.uuid));
                let reqs = ents.iter().zip(real_ents.iter()).map(|(c, e)| c.req_model(cx.n, e)).collect::<Vec<_>>().join("^");
                let acps = w.acps_c(cx.n);
                let line = format!("cre\t{ident_txt}\t{acps}\t{}\t{db}\t{}", list(fresh.iter()), if reqs.is_empty() { "-".to_string() } else { reqs });
                let model = cx.d.ask(&line);
                cx.rep.count(&format!("create:{rc}"));
                let any_reserved = ents.iter().any(|c| c.uuids.iter().any(|u| reserved(*u)));
                let near = ents.iter().any(|c| c.uuids.iter().any(|u| *u < RESERVED_BOUND + 0x10000));
                if any_reserved {
                    cx.rep.count(&format!("create-reserved-uuid:{rc}"));
                }
                if !agrees(&model, &rc) {
                    cx.mismatch("create", &line, &model, &format!("{rc} ({r:?})"));
                } else if r.is_ok() && created.len() == ents.len() {
                    // the uuids the model lets through are the ones stored
                    let want: Vec<String> = model
                        .strip_prefix("proceed ")
                        .unwrap_or("")
                        .split(',')
                        .filter(|s| *s != "-" && !s.is_empty())
                        .map(|s| s.split(':').next().unwrap_or("").to_string())
                        .collect();
                    let got: Vec<String> = created.iter().map(|u| u.to_string()).collect();
                    if want != got {
                        cx.mismatch("create-uuids", &line, &model, &format!("created {got:?}"));
                    }
                }
                if r.is_ok() && any_reserved && case.ident.non_internal() {
                    cx.violation("c20-reserved-uuid-create-accepted", format!("create accepted {ents:?} for {:?}", case.ident));
                }
                if r.is_ok() && case.ident.non_internal() {
                    for u in &created {
                        if reserved(*u) {
                            cx.violation("c20-reserved-uuid-created", format!("create returned the reserved uuid {}", Uuid::from_u128(*u)));
                        }
                    }
                }
                if granted_rw && near {
                    keys.push(line);
                }
            }
            Op::Delete { targets } => {
                let filter: Filter<FilterInvalid> =
                    Filter::new(f_or(targets.iter().map(|u| f_eq(Attribute::Uuid, PartialValue::Uuid(*u))).collect()));
                let de = match DeleteEvent::from_parts(ident.clone(), &filter, &mut txn) {
                    Ok(d) => d,
                    Err(_) => {
                        cx.rep.count("skipped:delete-event");
                        continue;
                    }
                };
                let cands = match txn.impersonate_search_valid(de.filter.clone(), de.filter_orig.clone(), &de.ident) {
                    Ok(c) => c,
                    Err(_) => {
                        cx.rep.count("skipped:search-error");
                        continue;
                    }
                };
                let cs_txt = if cands.is_empty() { "-".to_string() } else { cands.iter().map(|e| ent_model(cx.n, e)).collect::<Vec<_>>().join("^") };
                let builtin_cand = cands.iter().any(|e| reserved(e.get_uuid().as_u128()));
                let r = txn.delete(&de);
                let rc = op_class(&r);
                let acps = w.acps_d(cx.n);
                let line = format!("del\t{ident_txt}\t{acps}\t{cs_txt}");
                let model = cx.d.ask(&line);
                cx.rep.count(&format!("delete:{rc}"));
                if builtin_cand {
                    cx.rep.count(&format!("delete-builtin:{rc}"));
                }
                if !agrees(&model, &rc) {
                    cx.mismatch("delete", &line, &model, &format!("{rc} ({r:?})"));
                }
                if r.is_ok() && builtin_cand && case.ident.non_internal() {
                    cx.violation("c20-builtin-delete-accepted", format!("delete of {targets:?} accepted for {:?}", case.ident));
                }
                if granted_rw && builtin_cand {
                    keys.push(line);
                }
            }
            Op::BaseCreate { ents } => {
                let real_ents: Vec<NewE> = ents.iter().map(|c| c.entry()).collect();
                let ce = CreateEvent::new_impersonate_identity(ident.clone(), real_ents);
                let r = hook::run_pre_create_transform(&mut txn, &ce);
                let rc = op_class(&r);
                let fresh: Vec<u128> = match &r {
                    Ok(out) if out.len() == ents.len() => ents
                        .iter()
                        .zip(out.iter())
                        .filter(|(c, _)| c.uuids.is_empty())
                        .map(|(_, (us, _))| us.first().map(|u| u.as_u128()).unwrap_or(0))
                        .collect(),
                    _ => ents.iter().filter(|c| c.uuids.is_empty()).map(|_| v4ish(rng)).collect(),
                };
                let db = list(pre.iter().map(|s| s.uuid));
                let cands = ents.iter().map(|c| c.cand_model(cx.n)).collect::<Vec<_>>().join("^");
                let internal = if case.ident.non_internal() { 0 } else { 1 };
                let line = format!("basecre\t{internal}\t{}\t{db}\t{}", list(fresh.iter()), if cands.is_empty() { "-".to_string() } else { cands });
                let model = cx.d.ask(&line);
                cx.rep.count(&format!("base-create:{rc}"));
                let any_reserved = ents.iter().any(|c| c.uuids.iter().any(|u| reserved(*u)));
                let near = ents.iter().any(|c| c.uuids.iter().any(|u| *u < RESERVED_BOUND + 0x10000));
                let real_txt = match &r {
                    Ok(out) => {
                        // uuid and classes per candidate, classes as sorted atoms
                        let items: Vec<String> = out
                            .iter()
                            .map(|(us, cls)| {
                                let cs: BTreeSet<u64> = cls.iter().map(|c| cx.n.c(c)).collect();
                                format!("{}:{}", plus(us.iter().map(|u| u.as_u128())), plus(cs))
                            })
                            .collect();
                        format!("ok {}", if items.is_empty() { "-".to_string() } else { items.join(",") })
                    }
                    Err(_) if rc.starts_with("base:") => format!("err:{}", &rc[5..]),
                    Err(_) => "later-error".into(),
                };
                if real_txt == "later-error" {
                    // a plugin after Base refused: Base itself accepted
                    if !model.starts_with("ok ") {
                        cx.mismatch("base-create", &line, &model, &format!("{real_txt} ({r:?})"));
                    }
                } else if model != real_txt {
                    cx.mismatch("base-create", &line, &model, &format!("{real_txt} ({r:?})"));
                }
                if r.is_ok() && any_reserved && case.ident.non_internal() {
                    cx.violation("c20-base-accepts-reserved-uuid", format!("Base::pre_create_transform accepted {ents:?} for {:?}", case.ident));
                }
                if let (Ok(out), true) = (&r, case.ident.non_internal()) {
                    for (us, _) in out {
                        if us.iter().any(|u| reserved(u.as_u128())) {
                            cx.violation("c20-base-accepts-reserved-uuid", format!("Base::pre_create_transform left a reserved uuid in {us:?}"));
                        }
                    }
                }
                if case.ident.non_internal() && near {
                    keys.push(line);
                }
            }
            Op::BaseModify { ml } => {
                let filter: Filter<FilterInvalid> = Filter::new(f_eq(Attribute::Uuid, PartialValue::Uuid(w.person)));
                let rl = ModifyList::<ModifyInvalid>::new_list(ml.iter().map(|m| m.real()).collect());
                let me = match ModifyEvent::from_internal_parts(ident.clone(), &rl, &filter, &txn) {
                    Ok(me) => me,
                    Err(_) => {
                        cx.rep.count("skipped:modlist-invalid");
                        continue;
                    }
                };
                let r = hook::run_pre_modify(&mut txn, &me);
                let rc = op_class(&r);
                let line = format!("basemod\t{}", modlist_model(cx.n, ml));
                let model = cx.d.ask(&line);
                cx.rep.count(&format!("base-modify:{rc}"));
                let touching = ml.iter().any(|m| m.touches_uuid());
                let real_txt = if rc == "protectedAttr" { "1" } else { "0" };
                if model != real_txt {
                    cx.mismatch("base-modify", &line, &model, &format!("{rc} ({r:?})"));
                }
                if touching && rc != "protectedAttr" {
                    cx.violation("c20-base-accepts-uuid-modification", format!("Base::pre_modify answered {rc} for {ml:?}"));
                }
                if touching {
                    keys.push(line);
                }
            }
            Op::BaseBatch { items } => {
                let mut modset = BTreeMap::new();
                let mut spec: BTreeMap<Uuid, &Vec<M>> = BTreeMap::new();
                let mut ok = true;
                for (u, ml) in items {
                    let rl = ModifyList::<ModifyInvalid>::new_list(ml.iter().map(|m| m.real()).collect());
                    match rl.validate(txn.get_schema()) {
                        Ok(v) => {
                            if !modset.contains_key(u) {
                                modset.insert(*u, v);
                                spec.insert(*u, ml);
                            }
                        }
                        Err(_) => ok = false,
                    }
                }
                if !ok {
                    cx.rep.count("skipped:modlist-invalid");
                    continue;
                }
                let mls: Vec<String> = spec.values().map(|ml| modlist_model(cx.n, ml)).collect();
                let touching = spec.values().any(|ml| ml.iter().any(|m| m.touches_uuid()));
                let be = BatchModifyEvent { ident: ident.clone(), modset };
                let r = hook::run_pre_batch_modify(&mut txn, &be);
                let rc = op_class(&r);
                let line = format!("basebat\t{}", if mls.is_empty() { "-".to_string() } else { mls.join("|") });
                let model = cx.d.ask(&line);
                cx.rep.count(&format!("base-batch:{rc}"));
                let real_txt = if rc == "protectedAttr" { "1" } else { "0" };
                if model != real_txt {
                    cx.mismatch("base-batch", &line, &model, &format!("{rc} ({r:?})"));
                }
                if touching && rc != "protectedAttr" {
                    cx.violation("c20-base-accepts-uuid-modification", format!("Base::pre_batch_modify answered {rc} for {items:?}"));
                }
                if touching {
                    keys.push(line);
                }
            }
        }
        let post = snapshot(&mut txn);
        cx.oracle_post(&case.ident, &pre, &post, &format!("{op:?}"));
    }
    cx.rep.case(if keys.is_empty() { None } else { Some(keys.join(" ;; ")) });
    // the transaction is dropped here: the world never changes
}

// ---------------------------------------------------------------------------------------------
// generators
// ---------------------------------------------------------------------------------------------

fn boundary_uuids() -> Vec<u128> {
    vec![0, 1, 0xffff_0000_9999, DNE - 1, DNE, ANON, RESERVED_BOUND, RESERVED_BOUND + 1, RESERVED_BOUND + 0xffff, 1u128 << 64, 0x00000000000040008000000000000000]
}

fn gen_uuid_value(rng: &mut Rng, w: &World, own: Option<Uuid>) -> u128 {
    match rng.below(8) {
        0 | 1 => own.unwrap_or(w.person).as_u128(),
        2 => *rng.pick(&boundary_uuids()),
        3 => rng.below(1 << 48) as u128,
        4 => w.user_b.as_u128(),
        5 => w.builtins[rng.below(w.builtins.len() as u64) as usize].as_u128(),
        _ => v4ish(rng),
    }
}

fn gen_uuid_mod(rng: &mut Rng, w: &World, own: Option<Uuid>) -> M {
    let v = Val::U(gen_uuid_value(rng, w, own));
    match rng.below(9) {
        0 | 1 => M::Present(Att::Uuid, v),
        2 | 3 => M::Removed(Att::Uuid, v),
        4 => M::Purged(Att::Uuid),
        5 | 6 => {
            if rng.chance(1, 4) {
                M::Set(Att::Uuid, vec![v, Val::U(gen_uuid_value(rng, w, own))])
            } else {
                M::Set(Att::Uuid, vec![v])
            }
        }
        _ => M::Assert(Att::Uuid, v),
    }
}

fn gen_benign(rng: &mut Rng) -> M {
    match rng.below(6) {
        0 | 1 => M::Set(Att::Description, vec![Val::S(format!("d{}", rng.below(100)))]),
        2 => M::Present(Att::Description, Val::S(format!("d{}", rng.below(100)))),
        3 => M::Purged(Att::Description),
        4 => M::Assert(Att::Class, Val::S(rng.pick(&["object", "person", "group"]).to_string())),
        _ => M::Removed(Att::Description, Val::S("nothing".into())),
    }
}

fn gen_modlist(rng: &mut Rng, w: &World, own: Option<Uuid>) -> Vec<M> {
    let n = rng.range(1, 4);
    let mut ml: Vec<M> = (0..n).map(|_| gen_benign(rng)).collect();
    // four in five modlists aim at the uuid somewhere
    if rng.chance(4, 5) {
        let pos = rng.below(ml.len() as u64 + 1) as usize;
        ml.insert(pos, gen_uuid_mod(rng, w, own));
        if rng.chance(1, 5) {
            ml.push(gen_uuid_mod(rng, w, own));
        }
    }
    if rng.chance(1, 40) {
        ml.clear();
    }
    ml
}

fn gen_target(rng: &mut Rng, w: &World) -> Uuid {
    match rng.below(10) {
        0..=3 => w.person,
        4 | 5 => w.tgroup,
        6 => w.user_a,
        7 => w.builtins[rng.below(w.builtins.len() as u64) as usize],
        8 => *rng.pick(&[UUID_ADMIN, UUID_ANONYMOUS, UUID_IDM_ADMINS, UUID_DOMAIN_INFO, UUID_SYSTEM_CONFIG]),
        _ => *rng.pick(&[w.recycled, w.tomb, wu(0x999)]),
    }
}

fn gen_ce(rng: &mut Rng, w: &World, k: u64) -> CE {
    let uuids: Vec<u128> = match rng.below(12) {
        0 | 1 => vec![],
        2 | 3 => vec![v4ish(rng)],
        4 | 5 | 6 => vec![*rng.pick(&boundary_uuids())],
        7 => vec![rng.below(1 << 48) as u128],
        8 => vec![RESERVED_BOUND + rng.below(1 << 20) as u128],
        9 => vec![rng.pick(&[w.person, w.recycled, w.tomb, w.user_a, UUID_ADMIN]).as_u128()],
        10 => vec![*rng.pick(&boundary_uuids()), v4ish(rng)],
        _ => vec![wu(0x700).as_u128()],
    };
    CE { group: rng.chance(1, 3), name: format!("c20new{k}x{}", rng.below(1000)), uuids }
}

fn gen_ident(rng: &mut Rng) -> IdentSpec {
    match rng.below(20) {
        0..=11 => IdentSpec::UserA(1),
        12 => IdentSpec::UserA(0),
        13 => IdentSpec::UserA(2),
        14 => IdentSpec::UserB,
        15 => IdentSpec::Synch,
        16 => IdentSpec::Internal(0),
        17 => IdentSpec::Internal(1),
        18 => IdentSpec::Internal(2),
        _ => IdentSpec::Internal(3),
    }
}

fn gen_op(rng: &mut Rng, w: &World) -> Op {
    match rng.below(20) {
        0..=4 => {
            let t = gen_target(rng, w);
            let mut targets = vec![t];
            if rng.chance(1, 4) {
                targets.push(gen_target(rng, w));
            }
            Op::Modify { ml: gen_modlist(rng, w, Some(t)), targets }
        }
        5..=7 => {
            let n = rng.range(0, 2);
            let mut items = vec![];
            for _ in 0..n {
                let t = gen_target(rng, w);
                items.push((t, gen_modlist(rng, w, Some(t))));
            }
            if rng.chance(1, 2) {
                let t = gen_target(rng, w);
                let mut ml = gen_modlist(rng, w, Some(t));
                ml.push(gen_uuid_mod(rng, w, Some(t)));
                items.push((t, ml));
            }
            Op::Batch { items }
        }
        8..=11 => {
            let n = rng.range(0, 3).max(rng.below(2));
            let mut ents: Vec<CE> = (0..n).map(|k| gen_ce(rng, w, k)).collect();
            if ents.len() >= 2 && rng.chance(1, 6) {
                let u = ents[0].uuids.clone();
                ents[1].uuids = u;
            }
            Op::Create { ents }
        }
        12..=14 => {
            let mut targets = vec![gen_target(rng, w)];
            if rng.chance(1, 3) {
                targets.push(gen_target(rng, w));
            }
            Op::Delete { targets }
        }
        15..=17 => {
            let n = rng.range(1, 3);
            let mut ents: Vec<CE> = (0..n).map(|k| gen_ce(rng, w, k)).collect();
            if ents.len() >= 2 && rng.chance(1, 6) {
                let u = ents[0].uuids.clone();
                ents[1].uuids = u;
            }
            Op::BaseCreate { ents }
        }
        18 => Op::BaseModify { ml: gen_modlist(rng, w, None) },
        _ => {
            let n = rng.range(1, 2);
            Op::BaseBatch { items: (0..n).map(|_| (gen_target(rng, w), gen_modlist(rng, w, None))).collect() }
        }
    }
}

fn gen_case(rng: &mut Rng, w: &World) -> Case {
    let n = if rng.chance(1, 3) { rng.range(2, 4) } else { 1 };
    Case { ident: gen_ident(rng), ops: (0..n).map(|_| gen_op(rng, w)).collect() }
}

/// The deterministic scope (world 0, grant-everything): case `k` of it, `None` past its end.
fn scope_case(w: &World, k: u64) -> Option<Case> {
    let mut all: Vec<Case> = vec![];
    let a = IdentSpec::UserA(1);
    let benign = M::Set(Att::Description, vec![Val::S("scope".into())]);
    // every modification kind on uuid x value x position, modify and batch, on the person and the group
    for t in [w.person, w.tgroup] {
        let own = t.as_u128();
        let other = wu(0x998).as_u128();
        let templates = vec![
            M::Present(Att::Uuid, Val::U(other)),
            M::Present(Att::Uuid, Val::U(own)),
            M::Present(Att::Uuid, Val::U(5)),
            M::Removed(Att::Uuid, Val::U(own)),
            M::Removed(Att::Uuid, Val::U(other)),
            M::Purged(Att::Uuid),
            M::Set(Att::Uuid, vec![Val::U(other)]),
            M::Set(Att::Uuid, vec![Val::U(own)]),
            M::Set(Att::Uuid, vec![Val::U(ANON)]),
            M::Set(Att::Uuid, vec![Val::U(own), Val::U(other)]),
            M::Assert(Att::Uuid, Val::U(own)),
            M::Assert(Att::Uuid, Val::U(other)),
        ];
        for m in &templates {
            for pos in 0..3 {
                let ml = match pos {
                    0 => vec![m.clone()],
                    1 => vec![benign.clone(), m.clone()],
                    _ => vec![m.clone(), benign.clone()],
                };
                all.push(Case { ident: a.clone(), ops: vec![Op::Modify { targets: vec![t], ml: ml.clone() }] });
                all.push(Case { ident: a.clone(), ops: vec![Op::Batch { items: vec![(t, ml.clone())] }] });
                all.push(Case { ident: a.clone(), ops: vec![Op::Batch { items: vec![(w.user_b, vec![benign.clone()]), (t, ml.clone())] }] });
                all.push(Case { ident: IdentSpec::Internal(0), ops: vec![Op::Modify { targets: vec![t], ml: ml.clone() }] });
                all.push(Case { ident: a.clone(), ops: vec![Op::BaseModify { ml: ml.clone() }] });
                all.push(Case { ident: a.clone(), ops: vec![Op::BaseBatch { items: vec![(t, ml)] }] });
            }
        }
    }
    // creates on every boundary of the reserved range
    for (i, u) in boundary_uuids().into_iter().enumerate() {
        for group in [false, true] {
            let ce = CE { group, name: format!("c20scope{i}{}", if group { "g" } else { "p" }), uuids: vec![u] };
            let valid = CE { group: false, name: format!("c20scopev{i}"), uuids: vec![wu(0x800 + i as u64).as_u128()] };
            for ident in [a.clone(), IdentSpec::UserB, IdentSpec::Synch, IdentSpec::Internal(0), IdentSpec::Internal(1), IdentSpec::Internal(2)] {
                all.push(Case { ident: ident.clone(), ops: vec![Op::Create { ents: vec![ce.clone()] }] });
                all.push(Case { ident: ident.clone(), ops: vec![Op::BaseCreate { ents: vec![ce.clone()] }] });
                all.push(Case { ident: ident.clone(), ops: vec![Op::BaseCreate { ents: vec![valid.clone(), ce.clone()] }] });
            }
            all.push(Case { ident: a.clone(), ops: vec![Op::Create { ents: vec![valid.clone(), ce.clone()] }] });
            all.push(Case { ident: a.clone(), ops: vec![Op::Create { ents: vec![CE { uuids: vec![u, wu(0x900).as_u128()], ..ce.clone() }] }] });
            all.push(Case { ident: a.clone(), ops: vec![Op::BaseCreate { ents: vec![CE { uuids: vec![u, wu(0x900).as_u128()], ..ce.clone() }] }] });
        }
    }
    // no uuid at all, existing uuids (live / recycled / tombstone), duplicates inside the request
    let fresh = CE { group: false, name: "c20scopefresh".into(), uuids: vec![] };
    all.push(Case { ident: a.clone(), ops: vec![Op::Create { ents: vec![fresh.clone()] }] });
    all.push(Case { ident: a.clone(), ops: vec![Op::BaseCreate { ents: vec![fresh.clone(), CE { name: "c20scopefresh2".into(), ..fresh.clone() }] }] });
    for (i, u) in [w.person, w.recycled, w.tomb].into_iter().enumerate() {
        let ce = CE { group: false, name: format!("c20scopedup{i}"), uuids: vec![u.as_u128()] };
        all.push(Case { ident: a.clone(), ops: vec![Op::Create { ents: vec![ce.clone()] }] });
        all.push(Case { ident: a.clone(), ops: vec![Op::BaseCreate { ents: vec![ce] }] });
    }
    let d1 = CE { group: false, name: "c20scoped1".into(), uuids: vec![wu(0x901).as_u128()] };
    let d2 = CE { group: true, name: "c20scoped2".into(), uuids: vec![wu(0x901).as_u128()] };
    all.push(Case { ident: a.clone(), ops: vec![Op::Create { ents: vec![d1.clone(), d2.clone()] }] });
    all.push(Case { ident: a.clone(), ops: vec![Op::BaseCreate { ents: vec![d1, d2] }] });
    // delete of every builtin entry, alone and together with a deletable one; the granted delete itself
    for b in &w.builtins {
        all.push(Case { ident: a.clone(), ops: vec![Op::Delete { targets: vec![*b] }] });
    }
    for b in w.builtins.iter().step_by(7) {
        all.push(Case { ident: a.clone(), ops: vec![Op::Delete { targets: vec![w.person, *b] }] });
        all.push(Case { ident: IdentSpec::Internal(1), ops: vec![Op::Delete { targets: vec![*b] }] });
        all.push(Case { ident: IdentSpec::Synch, ops: vec![Op::Delete { targets: vec![*b] }] });
    }
    all.push(Case { ident: a.clone(), ops: vec![Op::Delete { targets: vec![w.person] }] });
    all.push(Case { ident: a.clone(), ops: vec![Op::Delete { targets: vec![w.person] }, Op::Create { ents: vec![CE { group: false, name: "c20again".into(), uuids: vec![w.person.as_u128()] }] }] });
    all.into_iter().nth(k as usize)
}

/// Regression corpus (D4, repaired in /repo f03f00a): a sync agreement's request whose entry id
/// lies in the reserved range used to create a builtin-classed stub through an internal create.
/// Oracle only (the sync path is C50's model): whatever the answer, no new entry with a reserved
/// uuid is stored; ids at and above the boundary are still accepted.
async fn sync_stub_regression(rep: &mut Report) {
    let (idms, _delayed, _audit) = setup_idm_test(TestConfiguration::default()).await;
    let ct = duration_from_epoch_now();
    let sync_uuid = wu(0x600);
    let token = {
        let mut w = idms.proxy_write(ct).await.expect("sync txn1");
        let mut e: NewE = Entry::new();
        e.add_ava(Attribute::Class, EntryClass::Object.to_value());
        e.add_ava(Attribute::Class, EntryClass::SyncAccount.to_value());
        e.add_ava(Attribute::Name, Value::new_iname("c20sync"));
        e.add_ava(Attribute::Uuid, Value::Uuid(sync_uuid));
        e.add_ava(Attribute::Description, Value::new_utf8s("c20 sync agreement"));
        w.qs_write.internal_create(vec![e]).expect("sync account");
        let admin = fetch(&mut w.qs_write, UUID_ADMIN).expect("admin");
        let mut ident = Identity::from_impersonate_entry_readwrite(admin);
        ident.origin = IdentType::Internal(InternalRole::System);
        let gte = GenerateScimSyncTokenEvent { ident, target: sync_uuid, label: "c20".into() };
        let t = w.scim_sync_generate_token(&gte, ct).expect("sync token");
        w.commit().expect("sync commit");
        t
    };
    let ids: Vec<(u128, &str)> = vec![
        (0xffff_0000_9999, "d4-witness"),
        (1, "low"),
        (DNE, "does-not-exist"),
        (ANON, "anonymous"),
        (RESERVED_BOUND, "boundary"),
        (RESERVED_BOUND + 1, "boundary+1"),
        (wu(0x601).as_u128(), "dynamic"),
    ];
    for (id, label) in ids {
        let mut w = idms.proxy_write(ct).await.expect("sync txn");
        let ident = match w.validate_sync_client_auth_info_to_ident(kanidmd_lib::idm::authentication::ClientAuthInfo::new(kanidmd_lib::prelude::Source::Internal, None, Some(token.clone()), None), ct) {
            Ok(i) => i,
            Err(e) => {
                rep.note(format!("sync-stub regression skipped: token not accepted ({e:?})"));
                return;
            }
        };
        let pre = snapshot(&mut w.qs_write);
        let mut attrs = BTreeMap::new();
        attrs.insert("name".to_string(), ScimValue::Simple(ScimAttr::String(format!("c20synced{label}").replace(['-', '+'], ""))));
        attrs.insert("displayname".to_string(), ScimValue::Simple(ScimAttr::String("c20 synced".into())));
        let changes = ScimSyncRequest {
            from_state: ScimSyncState::Refresh,
            to_state: ScimSyncState::Active { cookie: vec![1, 2, 3, 4] },
            entries: vec![ScimEntry {
                schemas: vec![SCIM_SCHEMA_SYNC_ACCOUNT.to_string(), SCIM_SCHEMA_SYNC_PERSON.to_string()],
                id: Uuid::from_u128(id),
                external_id: Some(format!("dn=c20{label},ou=people,dc=test")),
                meta: None,
                attrs,
            }],
            retain: ScimSyncRetentionMode::Ignore,
        };
        let r = w.scim_sync_apply(&ScimSyncUpdateEvent { ident }, &changes, ct);
        let post = snapshot(&mut w.qs_write);
        rep.count(&format!("sync-stub:{label}:{}", if r.is_ok() { "ok" } else { "refused" }));
        let pre_ids: BTreeSet<u64> = pre.iter().map(|s| s.id).collect();
        let input = json!({"regression": "sync-stub", "id": Uuid::from_u128(id).to_string()});
        for q in &post {
            if !pre_ids.contains(&q.id) && reserved(q.uuid) {
                rep.fail(Failure {
                    kind: "impl-vs-oracle".into(),
                    class: "D4:sync-stub-in-reserved-range".into(),
                    input: input.clone(),
                    expected: "no new entry with a reserved uuid".into(),
                    observed: format!("scim_sync_apply -> {r:?}; new entry {}", Uuid::from_u128(q.uuid)),
                });
            }
        }
        if reserved(id) && r.is_ok() {
            rep.fail(Failure {
                kind: "impl-vs-oracle".into(),
                class: "D4:sync-stub-in-reserved-range".into(),
                input: input.clone(),
                expected: "a sync request naming a reserved id is refused".into(),
                observed: format!("scim_sync_apply -> {r:?}"),
            });
        }
        if !reserved(id) && r.is_err() {
            rep.note(format!("sync-stub regression: non-reserved id {label} refused ({r:?})"));
        }
        rep.case(None);
    }
}

const SCOPE_BASE: u64 = 10_000_000;

fn case_json(seed: u64, world: u64, idx: u64) -> J {
    json!({"seed": seed, "world": world, "case": idx})
}

#[tokio::main(flavor = "multi_thread", worker_threads = 2)]
async fn main() {
    let args = Args::parse();
    let mut rep = Report::new(
        "base-protect",
        "the request touches the uuid attribute with a mutating modification, names a uuid in or within 2^16 of the reserved range, or has a builtin delete candidate, and is made by the read-write member of the grant-everything profiles' group (or, for the plugin-only requests, by any non-internal identity) — distinct model request sequences",
    );
    let mut d = Driver::spawn(&args.driver);
    let mut names = Names::from_driver(&mut d);
    // the generated constants agree with the property's range
    let consts = d.ask("consts");
    if consts != format!("anon={ANON};dne={DNE};dynmin={RESERVED_BOUND}") {
        rep.fail(Failure {
            kind: "impl-vs-oracle".into(),
            class: "c20-range-constants".into(),
            input: json!({"request": "consts"}),
            expected: format!("anon={ANON};dne={DNE};dynmin={RESERVED_BOUND}"),
            observed: consts.clone(),
        });
    }
    if UUID_ANONYMOUS.as_u128() != ANON || DYNAMIC_RANGE_MINIMUM_UUID.as_u128() != RESERVED_BOUND || UUID_DOES_NOT_EXIST.as_u128() != DNE {
        rep.fail(Failure {
            kind: "impl-vs-oracle".into(),
            class: "c20-range-constants".into(),
            input: json!({"request": "constants of kanidmd_lib"}),
            expected: format!("anon={ANON};dne={DNE};dynmin={RESERVED_BOUND}"),
            observed: format!("anon={};dne={};dynmin={}", UUID_ANONYMOUS.as_u128(), UUID_DOES_NOT_EXIST.as_u128(), DYNAMIC_RANGE_MINIMUM_UUID.as_u128()),
        });
    }
    // `Uuid::new_v4` vs the model's v4
    for i in 0..64u64 {
        let mut rng = Rng::for_case(args.seed ^ 0xC20, i);
        let bytes: [u8; 16] = rng.bytes(16).try_into().expect("16 bytes");
        let real = uuid::Builder::from_random_bytes(bytes).into_uuid().as_u128();
        let model = d.ask(&format!("v4\t{}", u128::from_be_bytes(bytes)));
        if model != real.to_string() || reserved(real) {
            rep.fail(Failure {
                kind: "impl-vs-model".into(),
                class: "c20-model-v4".into(),
                input: json!({"bytes": format!("{bytes:?}")}),
                expected: format!("model: {model}"),
                observed: format!("uuid crate: {real}"),
            });
        }
    }

    if let Some(path) = &args.replay {
        let txt = std::fs::read_to_string(path).expect("replay file");
        let v: J = serde_json::from_str(&txt).expect("replay json");
        let inp = v.get("input").cloned().unwrap_or(v.clone());
        let inp = inp.get("replay").cloned().unwrap_or(inp);
        let seed = inp["seed"].as_u64().expect("seed");
        let world = inp["world"].as_u64().expect("world");
        let idx = inp["case"].as_u64().expect("case");
        let w = World::build(world).await;
        let mut rng = Rng::for_case(seed, world * 100_000_000 + idx);
        let case = if idx >= SCOPE_BASE { scope_case(&w, idx - SCOPE_BASE).expect("scope case") } else { gen_case(&mut rng, &w) };
        rep.note(format!("replay: {case:?}"));
        let mut cx = Ctx { w: &w, n: &mut names, d: &mut d, rep: &mut rep, input: case_json(seed, world, idx) };
        run_case(&mut cx, &case, &mut rng).await;
        rep.model_requests = d.requests;
        rep.write(&args.out);
        println!("c20 replay: {} failure(s)", rep.failures.len());
        return;
    }

    sync_stub_regression(&mut rep).await;

    let worlds = args.cases(5, 60);
    let per_world = if args.thorough() { 1500 } else { 700 };
    for wi in 0..worlds {
        let w = World::build(wi).await;
        if wi == 0 {
            rep.sample(json!({"world": wi, "variant": w.variant, "builtin-entries": w.builtins.len(), "granted attrs": w.attrs, "granted classes": w.classes}));
            // the deterministic scope
            let mut k = 0;
            while let Some(case) = scope_case(&w, k) {
                if k % 97 == 0 {
                    rep.sample(json!({"scope": k, "case": format!("{case:?}")}));
                }
                rep.count("scope-cases");
                let mut rng = Rng::for_case(args.seed, SCOPE_BASE + k);
                let mut cx = Ctx { w: &w, n: &mut names, d: &mut d, rep: &mut rep, input: case_json(args.seed, wi, SCOPE_BASE + k) };
                run_case(&mut cx, &case, &mut rng).await;
                k += 1;
            }
        }
        for ci in 0..per_world {
            let mut rng = Rng::for_case(args.seed, wi * 100_000_000 + ci);
            let case = gen_case(&mut rng, &w);
            if wi == 0 && ci < 2 {
                rep.sample(json!({"world": wi, "case": ci, "op": format!("{case:?}")}));
            }
            let mut cx = Ctx { w: &w, n: &mut names, d: &mut d, rep: &mut rep, input: case_json(args.seed, wi, ci) };
            run_case(&mut cx, &case, &mut rng).await;
        }
    }
    rep.model_requests = d.requests;
    let nt = rep.nontrivial_keys.len() as u64;
    if nt * 10 < rep.evaluations {
        rep.note(format!("low non-trivial fraction: {nt} of {}", rep.evaluations));
    }
    rep.write(&args.out);
    println!(
        "c20 base-protect: {} cases, {} non-trivial, {} model requests, {} failure(s)",
        rep.evaluations,
        nt,
        rep.model_requests,
        rep.failures.len()
    );
}
