//! C12 — stored and replicated *entries* read back unchanged (entry level).
//!
//! A real server is booted (`setup_test`), a population is created on top of the ~600 builtin
//! entries (persons with credentials from imported password hashes, TOTP, ssh keys, mail,
//! sessions, api tokens; groups; an OAuth2 client with scope/claim maps and an image; deleted
//! and tombstoned entries; attributes modified at different times so that change cids differ).
//! Then every entry of the database — live, recycled, tombstone — goes through
//!
//!  * storage:      `Entry::to_dbentry` → serde_json → `Entry::from_dbentry`   (the per-entry form
//!                  of both the database and a backup file),
//!  * replication:  `ReplEntryV1::new` → serde_json → `rehydrate`  (refresh), and
//!                  `ReplIncrementalEntryV1::new` → serde_json → `rehydrate` for random ranges,
//!
//! and the result is compared with the Lean model (`entry …` / `repl …` lines: attributes as
//! numbers, valuesets as struct name + interned element strings, cids interned) and judged by
//! an oracle written from the property text: every attribute value that was stored / sent reads
//! back `equal`, with the same strings and the same stored JSON, and answers every method of the
//! `ValueSetT` trait like the original does (`c12_data/battery.rs`: arguments derived from the
//! original; this is where a field the encoder does not write — a cache, a pre-filter — shows);
//! change cids are unchanged.
use hlib::*;
use kanidm_lib_crypto::Password;
use kanidmd_lib::credential::totp::{Totp, TotpAlgo, TotpDigits};
use kanidmd_lib::entry::{Entry, EntryInit, EntryNew, EntrySealedCommitted};
use kanidmd_lib::filter::{Filter, FC};
use kanidmd_lib::prelude::*;
use kanidmd_lib::schema::SchemaTransaction;
use kanidmd_lib::testkit::{setup_test, TestConfiguration};
use kanidmd_lib::value::{ApiToken, ApiTokenScope, AuthType, Session, SessionExtMetadata, SessionScope, SessionState};
use kanidmd_lib::valueset::ValueSet;
use kanidmd_lib::verif_hooks::c12 as hk;
use serde_json::{json, Value as J};
use std::collections::BTreeMap;
use time::OffsetDateTime;

#[path = "../c12_data/battery.rs"]
mod battery;

static QUIET: std::sync::atomic::AtomicBool = std::sync::atomic::AtomicBool::new(false);

fn guard<T>(f: impl FnOnce() -> T) -> Option<T> {
    QUIET.store(true, std::sync::atomic::Ordering::SeqCst);
    let r = std::panic::catch_unwind(std::panic::AssertUnwindSafe(f)).ok();
    QUIET.store(false, std::sync::atomic::Ordering::SeqCst);
    r
}

fn struct_name(vs: &ValueSet) -> String {
    let d = format!("{vs:?}");
    d.split(|c: char| !(c.is_alphanumeric() || c == '_')).next().unwrap_or("").to_string()
}

fn canon(v: &J) -> J {
    fn inner(v: &J, depth: u32) -> J {
        match v {
            J::Array(a) => {
                let mut items: Vec<J> = a.iter().map(|x| inner(x, depth + 1)).collect();
                if depth <= 1 || !items.iter().all(|x| x.is_number()) {
                    items.sort_by_key(|x| x.to_string());
                }
                J::Array(items)
            }
            J::Object(o) => J::Object(o.iter().map(|(k, v)| (k.clone(), inner(v, depth + 1))).collect()),
            other => other.clone(),
        }
    }
    if let J::Object(o) = v {
        if o.len() == 1 && (o.contains_key("JO") || o.contains_key("MS")) {
            return v.clone();
        }
    }
    inner(v, 0)
}

/// Interning of strings / cids to the model's naturals.
#[derive(Default)]
struct Intern {
    map: BTreeMap<String, u64>,
}
impl Intern {
    fn id(&mut self, s: &str) -> u64 {
        let n = self.map.len() as u64 + 1;
        *self.map.entry(s.to_string()).or_insert(n)
    }
    fn cid(&mut self, c: &Cid) -> u64 {
        self.id(&format!("cid {:?} {}", c.ts, c.s_uuid))
    }
}

/// The elements of a valueset as canonical strings: its stored JSON, element by element
/// (sorted), so that two valuesets have the same elements iff they store identically.
fn elements(vs: &ValueSet) -> Vec<String> {
    let j: J = hk::vs_to_db_json(vs).ok().and_then(|s| serde_json::from_str(&s).ok()).unwrap_or(J::Null);
    let c = canon(&j);
    let body = match &c {
        J::Object(o) if o.len() == 1 => o.values().next().cloned().unwrap_or(J::Null),
        other => other.clone(),
    };
    match body {
        J::Array(a) => a.iter().map(|x| x.to_string()).collect(),
        J::Null => vec![],
        other => vec![other.to_string()],
    }
}

struct View {
    uuid: Uuid,
    live: bool,
    at: Cid,
    changes: BTreeMap<Attribute, Cid>,
    attrs: BTreeMap<Attribute, ValueSet>,
}

fn view(e: &EntrySealedCommitted) -> View {
    let (live, at, changes) = hk::entry_changestate(e);
    View { uuid: e.get_uuid(), live, at, changes, attrs: e.get_ava().iter().map(|(k, v)| (k.clone(), v.clone())).collect() }
}

struct Lines {
    attr_ix: BTreeMap<Attribute, u64>,
    intern: Intern,
}

impl Lines {
    fn attr(&mut self, a: &Attribute) -> u64 {
        let n = self.attr_ix.len() as u64 + 1;
        *self.attr_ix.entry(a.clone()).or_insert(n)
    }
    fn cs(&mut self, live: bool, at: &Cid, changes: &BTreeMap<Attribute, Cid>) -> String {
        // the model keeps the change list in the order given: sort by attribute number
        let mut ch: Vec<(u64, u64)> = changes.iter().map(|(a, c)| (self.attr(a), self.intern.cid(c))).collect();
        ch.sort();
        let chs = if ch.is_empty() { "-".to_string() } else { ch.iter().map(|(a, c)| format!("{a}:{c}")).collect::<Vec<_>>().join(",") };
        format!("{}/{}/{}", if live { 0 } else { 1 }, self.intern.cid(at), chs)
    }
    fn attrs(&mut self, attrs: &BTreeMap<Attribute, ValueSet>) -> String {
        let mut v: Vec<(u64, String)> = attrs
            .iter()
            .map(|(a, vs)| {
                let els: Vec<String> = elements(vs).iter().map(|e| self.intern.id(e).to_string()).collect();
                (self.attr(a), format!("{}:{}", struct_name(vs), if els.is_empty() { "-".to_string() } else { els.join(".") }))
            })
            .collect();
        v.sort();
        if v.is_empty() {
            "-".into()
        } else {
            v.iter().map(|(a, s)| format!("{a}:{s}")).collect::<Vec<_>>().join(";")
        }
    }
}

struct Ctx {
    drv: Driver,
    rep: Report,
    lines: Lines,
    /// the previous value set seen of each struct: the "second set" of the behaviour battery
    last: BTreeMap<String, ValueSet>,
    /// (path, value) pairs already probed: the builtin entries share most of their values
    probed: std::collections::BTreeSet<String>,
}

impl Ctx {
    /// At most three failures per class reach the (bounded) report, so that a frequent known
    /// finding can never crowd out a different failure.
    fn room(&mut self, class: &str) -> bool {
        let k = format!("failures:{class}");
        self.rep.count(&k);
        self.rep.histogram.get(&k).cloned().unwrap_or(0) <= 3
    }
    fn oracle_fail(&mut self, class: &str, input: J, expected: String, observed: String) {
        if !self.room(class) {
            return;
        }
        self.rep.fail(Failure { kind: "impl-vs-oracle".into(), class: class.into(), input, expected, observed });
    }
    fn model_fail(&mut self, class: &str, input: J, expected: String, observed: String) {
        if !self.room(class) {
            return;
        }
        self.rep.fail(Failure { kind: "impl-vs-model".into(), class: class.into(), input, expected, observed });
    }
}

/// Oracle for one attribute value: read back equal, same strings, same stored form.
fn same_value(a: &ValueSet, b: &ValueSet) -> Result<(), String> {
    let reflexive = guard(|| a.equal(&a.clone())) == Some(true);
    if reflexive && !(guard(|| a.equal(b)) == Some(true) && guard(|| b.equal(a)) == Some(true)) {
        return Err("not equal".into());
    }
    if struct_name(a) != struct_name(b) {
        return Err(format!("struct {} became {}", struct_name(a), struct_name(b)));
    }
    let (sa, sb) = (guard(|| { let mut v: Vec<String> = a.to_proto_string_clone_iter().collect(); v.sort(); v }), guard(|| { let mut v: Vec<String> = b.to_proto_string_clone_iter().collect(); v.sort(); v }));
    if sa != sb {
        return Err(format!("strings {sa:?} became {sb:?}"));
    }
    if elements(a) != elements(b) {
        return Err("stored form differs".into());
    }
    Ok(())
}

/// Oracle "identical behaviour": every `ValueSetT` method answers alike on `a` (original) and `b`
/// (read back from storage / from a replication message).
fn judge_behaviour(ctx: &mut Ctx, path: &str, a: &ValueSet, b: &ValueSet, input: &J, attr: &Attribute) {
    let name = struct_name(a);
    let key = format!("{path} {}", battery::vs_canon(a));
    if !ctx.probed.insert(key) {
        ctx.rep.count("battery:value-already-probed");
        return;
    }
    let other = ctx.last.get(&name).cloned().unwrap_or_else(|| a.clone());
    let args = battery::ProbeArgs::derive(a, &other);
    let want = battery::battery(a, &args, None);
    let got = battery::battery(b, &args, None);
    ctx.rep.count(&format!("battery:{path}:{name}"));
    ctx.rep.count_n("battery:answers-compared", got.len() as u64);
    let (mut w2, mut g2) = (want, got);
    let mut masked = 0;
    while let Some((k, method, arg, x, y)) = battery::first_difference(&w2, &g2) {
        // an answer that an in-memory construction of the same value gives too (hash iteration order)
        if masked < 256 && battery::construction_dependent(a, &args, k, &x, &y, 64) {
            ctx.rep.count(&format!("battery:construction-dependent:{name}:{method}"));
            w2[k].2.clear();
            g2[k].2.clear();
            masked += 1;
            continue;
        }
        ctx.oracle_fail(
            &format!("behaviour-differs:{name}:{method}"),
            json!({"path": path, "entry": input, "attr": attr.to_string(), "probe": {"method": method, "argument": clip(&arg)}}),
            clip(&format!("{method}({arg}) = {x}")),
            clip(&format!("{method}({arg}) = {y}")),
        );
        break;
    }
    ctx.last.insert(name, a.clone());
}

fn clip(s: &str) -> String {
    if s.len() > 500 {
        let mut e = 500;
        while !s.is_char_boundary(e) {
            e -= 1;
        }
        format!("{}…", &s[..e])
    } else {
        s.to_string()
    }
}

fn check_entry(ctx: &mut Ctx, e: &EntrySealedCommitted, schema: &kanidmd_lib::schema::SchemaReadTransaction, r: &mut Rng) {
    let v = view(e);
    let kind = if !v.live { "tombstone" } else if v.attrs.get(&Attribute::Class).map(|c| c.to_proto_string_clone_iter().any(|s| s == "recycled")).unwrap_or(false) { "recycled" } else { "live" };
    ctx.rep.count(&format!("entry:{kind}"));
    for vs in v.attrs.values() {
        ctx.rep.count(&format!("attr-struct:{}", struct_name(vs)));
    }
    let input = json!({"uuid": v.uuid.to_string(), "kind": kind, "attrs": v.attrs.keys().map(|a| a.to_string()).collect::<Vec<_>>()});
    let uuid_n = ctx.lines.intern.id(&format!("\"{}\"", v.uuid));
    let uuid_key = ctx.lines.attr(&Attribute::Uuid);

    // ---------------- storage ----------------
    let stored = match hk::entry_to_db_json(e) {
        Ok(s) => s,
        Err(err) => {
            ctx.oracle_fail("entry-store-failed", input.clone(), "stored".into(), err);
            return;
        }
    };
    let back = hk::entry_from_db_json(&stored, e.get_id()).ok().flatten();
    let model = {
        let cs = ctx.lines.cs(v.live, &v.at, &v.changes);
        let attrs = ctx.lines.attrs(&v.attrs);
        ctx.drv.ask(&format!("entry {uuid_key} {} {uuid_n} {cs} {attrs}", e.get_id()))
    };
    match &back {
        None => {
            ctx.oracle_fail(&format!("entry-load-failed:{kind}"), input.clone(), "the stored entry loads".into(), clip(&stored));
            if model != "none" {
                ctx.model_fail("entry-load", input.clone(), model.clone(), "none".into());
            }
        }
        Some(b) => {
            let bv = view(b);
            // oracle
            if bv.uuid != v.uuid || bv.live != v.live || bv.at != v.at || bv.changes != v.changes || b.get_id() != e.get_id() {
                ctx.oracle_fail("entry-changestate-differs", input.clone(), format!("{:?} {:?}", v.at, v.changes), format!("{:?} {:?}", bv.at, bv.changes));
            }
            for (a, vs) in &v.attrs {
                match bv.attrs.get(a) {
                    Some(vb) => {
                        if let Err(why) = same_value(vs, vb) {
                            ctx.oracle_fail(&format!("entry-attr-differs:{}", struct_name(vs)), json!({"entry": input, "attr": a.to_string()}), clip(&format!("{vs:?}")), format!("{why}: {}", clip(&format!("{vb:?}"))));
                        } else {
                            judge_behaviour(ctx, "storage", vs, vb, &input, a);
                        }
                    }
                    None => {
                        // recognised class: an in-memory empty valueset is stored but skipped on load
                        let class = if vs.len() == 0 { "empty-valueset-dropped".to_string() } else { format!("entry-attr-lost:{}", struct_name(vs)) };
                        ctx.rep.count(&format!("finding:{class}"));
                        ctx.oracle_fail(&class, json!({"path": "storage", "entry": input, "attr": a.to_string()}), clip(&format!("{vs:?}")), "absent after to_dbentry → from_dbentry".into())
                    }
                }
            }
            for a in bv.attrs.keys() {
                if !v.attrs.contains_key(a) {
                    ctx.oracle_fail("entry-attr-appeared", json!({"entry": input, "attr": a.to_string()}), "absent".into(), "present".into());
                }
            }
            // correspondence
            let got = format!("ok {} {} {}", ctx.lines.intern.id(&format!("\"{}\"", bv.uuid)), ctx.lines.cs(bv.live, &bv.at, &bv.changes), ctx.lines.attrs(&bv.attrs));
            if got != model {
                ctx.model_fail("entry-storage", input.clone(), clip(&model), clip(&got));
            }
        }
    }
    ctx.rep.case(Some(format!("entry {} {}", v.uuid, v.attrs.len())));

    // ---------------- replication: refresh ----------------
    let replicated: Vec<Attribute> = v.changes.keys().filter(|a| schema.is_replicated(a)).cloned().collect();
    {
        let keys: Vec<String> = replicated.iter().map(|a| ctx.lines.attr(a).to_string()).collect();
        let model = {
            let cs = ctx.lines.cs(v.live, &v.at, &v.changes);
            let attrs = ctx.lines.attrs(&v.attrs);
            ctx.drv.ask(&format!("repl full {} {} {uuid_n} {cs} {attrs}", if keys.is_empty() { "-".to_string() } else { keys.join(",") }, e.get_id()))
        };
        match hk::repl_full_roundtrip(e, schema) {
            Err(err) => ctx.oracle_fail("repl-full-failed", input.clone(), "rehydrates".into(), err),
            Ok((_json, (live, at, changes), eattrs)) => {
                let eattrs: BTreeMap<Attribute, ValueSet> = eattrs.into_iter().collect();
                judge_repl(ctx, "full", &v, &replicated, live, &at, &changes, &eattrs, &input);
                if v.live {
                    let got = format!("ok {uuid_n} {} {}", ctx.lines.cs(live, &at, &changes), ctx.lines.attrs(&eattrs));
                    if got != model {
                        ctx.model_fail("repl-full", input.clone(), clip(&model), clip(&got));
                    }
                } else if !model.starts_with(&format!("ok {uuid_n} 1/")) {
                    // tombstone: the model carries state only (the three synthesised attributes are not modelled)
                    ctx.model_fail("repl-full-tombstone", input.clone(), clip(&model), "tombstone".into());
                }
            }
        }
        ctx.rep.case(Some(format!("repl-full {} {}", v.uuid, replicated.len())));
    }

    // ---------------- replication: incremental, random ranges ----------------
    for _ in 0..2 {
        let mut ranges: BTreeMap<Uuid, (Duration, Duration)> = BTreeMap::new();
        let mut servers: Vec<Uuid> = v.changes.values().map(|c| c.s_uuid).collect();
        servers.sort();
        servers.dedup();
        let mut tss: Vec<Duration> = v.changes.values().map(|c| c.ts).collect();
        tss.sort();
        tss.dedup();
        for s in &servers {
            if r.chance(4, 5) && !tss.is_empty() {
                // boundaries exactly on change timestamps (the comparisons are `>` min, `<=` max)
                let a = *r.pick(&tss);
                let b = *r.pick(&tss);
                let (lo, hi) = if a <= b { (a, b) } else { (b, a) };
                let lo = if r.chance(1, 3) { lo.saturating_sub(Duration::from_nanos(1)) } else { lo };
                ranges.insert(*s, (lo, hi));
            }
        }
        let within: Vec<Attribute> = v
            .changes
            .iter()
            .filter(|(a, c)| schema.is_replicated(a) && ranges.get(&c.s_uuid).map(|(lo, hi)| c.ts > *lo && c.ts <= *hi).unwrap_or(false))
            .map(|(a, _)| a.clone())
            .collect();
        let keys: Vec<String> = within.iter().map(|a| ctx.lines.attr(a).to_string()).collect();
        let model = {
            let cs = ctx.lines.cs(v.live, &v.at, &v.changes);
            let attrs = ctx.lines.attrs(&v.attrs);
            ctx.drv.ask(&format!("repl incr {} {} {uuid_n} {cs} {attrs}", if keys.is_empty() { "-".to_string() } else { keys.join(",") }, e.get_id()))
        };
        match hk::repl_incr_roundtrip(e, schema, &ranges) {
            Err(err) => ctx.oracle_fail("repl-incr-failed", input.clone(), "rehydrates".into(), err),
            Ok((_json, u, (live, at, changes), eattrs)) => {
                let eattrs: BTreeMap<Attribute, ValueSet> = eattrs.into_iter().collect();
                if u != v.uuid {
                    ctx.oracle_fail("repl-incr-uuid", input.clone(), v.uuid.to_string(), u.to_string());
                }
                judge_repl(ctx, "incr", &v, &within, live, &at, &changes, &eattrs, &input);
                let got = format!("ok {uuid_n} {} {}", ctx.lines.cs(live, &at, &changes), ctx.lines.attrs(&eattrs));
                if got != model {
                    ctx.model_fail("repl-incr", json!({"entry": input, "ranges": format!("{ranges:?}")}), clip(&model), clip(&got));
                }
                ctx.rep.count(if within.is_empty() { "incr:nothing-in-range" } else if within.len() == replicated.len() { "incr:all-in-range" } else { "incr:partial" });
            }
        }
        ctx.rep.case(Some(format!("repl-incr {} {:?}", v.uuid, ranges)));
    }
}

/// The property for replication: what was supplied reads back unchanged.
#[allow(clippy::too_many_arguments)]
fn judge_repl(ctx: &mut Ctx, mode: &str, v: &View, supplied: &[Attribute], live: bool, at: &Cid, changes: &BTreeMap<Attribute, Cid>, eattrs: &BTreeMap<Attribute, ValueSet>, input: &J) {
    if live != v.live || *at != v.at {
        ctx.oracle_fail(&format!("repl-{mode}-state-differs"), input.clone(), format!("{} {:?}", v.live, v.at), format!("{live} {at:?}"));
    }
    if !v.live {
        return;
    }
    for a in supplied {
        if changes.get(a) != v.changes.get(a) {
            ctx.oracle_fail(&format!("repl-{mode}-cid-differs"), json!({"entry": input, "attr": a.to_string()}), format!("{:?}", v.changes.get(a)), format!("{:?}", changes.get(a)));
        }
        if let (Some(vs), None) = (v.attrs.get(a).filter(|vs| vs.len() == 0), eattrs.get(a)) {
            ctx.rep.count("finding:empty-valueset-dropped");
            ctx.oracle_fail("empty-valueset-dropped", json!({"path": format!("repl-{mode}"), "entry": input, "attr": a.to_string()}), clip(&format!("{vs:?}")), "absent at the consumer".into());
            continue;
        }
        match (v.attrs.get(a).filter(|vs| vs.len() > 0), eattrs.get(a)) {
            (Some(vs), Some(vb)) => {
                if let Err(why) = same_value(vs, vb) {
                    ctx.oracle_fail(&format!("repl-{mode}-attr-differs:{}", struct_name(vs)), json!({"entry": input, "attr": a.to_string()}), clip(&format!("{vs:?}")), format!("{why}: {}", clip(&format!("{vb:?}"))));
                } else {
                    judge_behaviour(ctx, &format!("repl-{mode}"), vs, vb, input, a);
                }
            }
            (None, None) => {}
            (Some(vs), None) => ctx.oracle_fail(&format!("repl-{mode}-attr-lost:{}", struct_name(vs)), json!({"entry": input, "attr": a.to_string()}), clip(&format!("{vs:?}")), "absent".into()),
            (None, Some(vb)) => ctx.oracle_fail(&format!("repl-{mode}-attr-appeared"), json!({"entry": input, "attr": a.to_string()}), "absent".into(), clip(&format!("{vb:?}"))),
        }
    }
}

fn u(n: u64) -> Uuid {
    nat_uuid(0xC12_0000 + n)
}

include!("../c12_data/pwvectors.rs");
include!("../c12_data/sshkeys.rs");

async fn populate(qs: &QueryServer, seed: u64, n: u64) {
    // the test server stamps its bootstrap entries with the wall clock: stay after it (all cids are
    // interned before they reach the model, so absolute times never show up in a comparison)
    let t0 = Duration::from_secs(duration_from_epoch_now().as_secs() + 86400);
    // two OAuth2 clients: the persons' OAuth2 sessions refer to them (`rs_uuid`)
    {
        let mut w = qs.write(t0).await.expect("write txn");
        for k in 0..2u64 {
            let mut c: Entry<EntryInit, EntryNew> = Entry::new();
            c.add_ava(Attribute::Class, EntryClass::Object.to_value());
            c.add_ava(Attribute::Class, EntryClass::Account.to_value());
            c.add_ava(Attribute::Class, EntryClass::OAuth2ResourceServer.to_value());
            c.add_ava(Attribute::Class, EntryClass::OAuth2ResourceServerPublic.to_value());
            c.add_ava(Attribute::Uuid, Value::Uuid(u(3000 + k)));
            c.add_ava(Attribute::Name, Value::new_iname(&format!("c12client{k}")));
            c.add_ava(Attribute::DisplayName, Value::new_utf8s("client"));
            c.add_ava(Attribute::OAuth2RsOriginLanding, Value::new_url_s(&format!("https://c{k}.example.com")).expect("url"));
            c.add_ava(Attribute::OAuth2RsOrigin, Value::new_url_s(&format!("https://c{k}.example.com/oauth2/result")).expect("url"));
            c.add_ava(Attribute::OAuth2RsScopeMap, Value::OauthScopeMap(UUID_IDM_ALL_ACCOUNTS, ["openid".to_string(), "groups".to_string()].into_iter().collect()));
            if let Err(err) = w.internal_create(vec![c]) {
                panic!("create oauth2 client {k}: {err:?}");
            }
        }
        w.commit().expect("commit");
    }
    for i in 0..n {
        let mut r = Rng::for_case(seed, 0x5e7_0000 + i);
        let ct = t0 + Duration::new(i * 7, (r.below(1_000_000_000)) as u32);
        let mut w = qs.write(ct).await.expect("write txn");
        let name = format!("c12p{i}");
        let mut e: Entry<EntryInit, EntryNew> = Entry::new();
        e.add_ava(Attribute::Class, EntryClass::Object.to_value());
        e.add_ava(Attribute::Class, EntryClass::Account.to_value());
        e.add_ava(Attribute::Class, EntryClass::Person.to_value());
        e.add_ava(Attribute::Name, Value::new_iname(&name));
        e.add_ava(Attribute::DisplayName, Value::new_utf8s(&format!("Person {i} délta 日本")));
        e.add_ava(Attribute::Uuid, Value::Uuid(u(i)));
        e.add_ava(Attribute::Mail, Value::EmailAddress(format!("{name}@example.com"), true));
        if r.chance(1, 2) {
            e.add_ava(Attribute::Mail, Value::EmailAddress(format!("{name}.alt@example.com"), false));
        }
        // credential from an imported hash of any supported format
        let (k, s, _clear) = *r.pick(PW_VECTORS);
        let _ = k;
        let pw = Password::try_from(s).expect("vector");
        let mut c = hk::cred_from_password(pw, false, OffsetDateTime::UNIX_EPOCH + ct);
        if r.chance(1, 2) {
            c = hk::cred_append_totp(&c, "totp".into(), Totp::new(r.bytes(20), 30, TotpAlgo::Sha256, TotpDigits::Six), OffsetDateTime::UNIX_EPOCH + ct);
        }
        e.add_ava(Attribute::PrimaryCredential, Value::Cred("primary".into(), c));
        if r.chance(1, 2) {
            e.add_ava(Attribute::SshPublicKey, Value::new_sshkey_str("k1", r.pick(SSH_KEYS)).expect("ssh"));
        }
        let sess = Session {
            label: format!("sess{i}"),
            state: match r.below(3) {
                0 => SessionState::NeverExpires,
                1 => SessionState::ExpiresAt(OffsetDateTime::UNIX_EPOCH + ct + Duration::new(3600, 5)),
                _ => SessionState::RevokedAt(Cid { ts: ct, s_uuid: u(999) }),
            },
            issued_at: OffsetDateTime::UNIX_EPOCH + ct,
            issued_by: IdentityId::User(u(i)),
            cred_id: u(5000 + i),
            scope: *r.pick(&[SessionScope::ReadOnly, SessionScope::ReadWrite, SessionScope::PrivilegeCapable]),
            type_: *r.pick(&[AuthType::Password, AuthType::PasswordTotp, AuthType::Passkey]),
            ext_metadata: SessionExtMetadata::None,
        };
        e.add_ava(Attribute::UserAuthTokenSession, Value::Session(u(7000 + i), sess));
        // OAuth2 sessions under that session, for one or both clients
        for k in 0..r.range(1, 2) {
            let os = kanidmd_lib::value::Oauth2Session {
                parent: Some(u(7000 + i)),
                state: if r.chance(3, 4) { SessionState::NeverExpires } else { SessionState::ExpiresAt(OffsetDateTime::UNIX_EPOCH + ct + Duration::new(7200, 9)) },
                issued_at: OffsetDateTime::UNIX_EPOCH + ct,
                rs_uuid: u(3000 + k),
            };
            e.add_ava(Attribute::OAuth2Session, Value::Oauth2Session(u(9000 + 2 * i + k), os));
        }
        if let Err(err) = w.internal_create(vec![e]) {
            panic!("create person {i}: {err:?}");
        }
        // a group containing it
        let mut g: Entry<EntryInit, EntryNew> = Entry::new();
        g.add_ava(Attribute::Class, EntryClass::Object.to_value());
        g.add_ava(Attribute::Class, EntryClass::Group.to_value());
        g.add_ava(Attribute::Name, Value::new_iname(&format!("c12g{i}")));
        g.add_ava(Attribute::Uuid, Value::Uuid(u(1000 + i)));
        g.add_ava(Attribute::Member, Value::Refer(u(i)));
        g.add_ava(Attribute::Description, Value::new_utf8s("group description"));
        w.internal_create(vec![g]).expect("create group");
        // a service account with an api token
        let mut s: Entry<EntryInit, EntryNew> = Entry::new();
        s.add_ava(Attribute::Class, EntryClass::Object.to_value());
        s.add_ava(Attribute::Class, EntryClass::Account.to_value());
        s.add_ava(Attribute::Class, EntryClass::ServiceAccount.to_value());
        s.add_ava(Attribute::Name, Value::new_iname(&format!("c12s{i}")));
        s.add_ava(Attribute::DisplayName, Value::new_utf8s("svc"));
        s.add_ava(Attribute::Uuid, Value::Uuid(u(2000 + i)));
        s.add_ava(
            Attribute::ApiTokenSession,
            Value::ApiToken(
                u(8000 + i),
                ApiToken {
                    label: "tok".into(),
                    expiry: if r.chance(1, 2) { Some(OffsetDateTime::UNIX_EPOCH + ct + Duration::new(86400, 123)) } else { None },
                    issued_at: OffsetDateTime::UNIX_EPOCH + ct,
                    issued_by: IdentityId::User(u(i)),
                    scope: *r.pick(&[ApiTokenScope::ReadOnly, ApiTokenScope::ReadWrite, ApiTokenScope::Synchronise]),
                },
            ),
        );
        w.internal_create(vec![s]).expect("create service account");
        w.commit().expect("commit");

        // later modifications so that per-attribute cids differ
        let ct2 = ct + Duration::new(3, 17);
        let mut w = qs.write(ct2).await.expect("write txn");
        w.internal_modify_uuid(u(i), &ModifyList::new_list(vec![Modify::Present(Attribute::LegalName, Value::new_utf8s(&format!("Legal {i}")))])).expect("modify");
        if r.chance(1, 2) {
            w.internal_modify_uuid(u(1000 + i), &ModifyList::new_list(vec![Modify::Purged(Attribute::Description)])).expect("purge");
        }
        if i % 4 == 3 {
            w.internal_delete_uuid(u(1000 + i)).expect("delete group");
        }
        w.commit().expect("commit");
    }
    // tombstones: delete two groups, then purge the recycle bin far in the future
    let far = t0 + Duration::from_secs(30 * 86400);
    let mut w = qs.write(far).await.expect("write txn");
    let purged = w.purge_recycled();
    if purged.as_ref().map(|n| *n == 0).unwrap_or(true) {
        panic!("purge_recycled produced no tombstones: {purged:?}");
    }
    w.commit().expect("commit");
    // and entries that stay in the recycle bin
    let mut w = qs.write(far + Duration::new(10, 1)).await.expect("write txn");
    w.internal_delete_uuid(u(0)).expect("delete person");
    w.internal_delete_uuid(u(2001)).expect("delete service account");
    w.commit().expect("commit");
}

fn main() {
    if std::env::var_os("RUST_LOG").is_none() {
        std::env::set_var("RUST_LOG", "off");
    }
    let args = Args::parse();
    let default = std::panic::take_hook();
    std::panic::set_hook(Box::new(move |info| {
        if !QUIET.load(std::sync::atomic::Ordering::SeqCst) {
            default(info);
        }
    }));
    let rt = tokio::runtime::Builder::new_current_thread().enable_all().build().unwrap();
    let mut ctx = Ctx {
        drv: Driver::spawn(&args.driver),
        rep: Report::new(
            "entry-rt",
            "every entry of a populated real server (builtin + created persons/groups/service accounts, recycled, tombstones) through \
             to_dbentry+serde+from_dbentry, ReplEntryV1 new/serde/rehydrate and ReplIncrementalEntryV1 new/serde/rehydrate with random ranges; \
             non-trivial = every case (an entry has ≥ 3 attributes or is a tombstone); distinct = (entry uuid, path, ranges)",
        ),
        lines: Lines { attr_ix: BTreeMap::new(), intern: Intern::default() },
        last: BTreeMap::new(),
        probed: Default::default(),
    };
    rt.block_on(async {
        let qs = setup_test(TestConfiguration::default()).await;
        let n = if args.replay.is_some() { 8 } else { args.cases(8, 40) };
        populate(&qs, args.seed, n).await;
        let mut txn = qs.read().await.expect("read txn");
        let all = txn.internal_search(Filter::new(FC::Pres(Attribute::Class))).expect("search all");
        let schema = txn.get_schema();
        ctx.rep.note(format!("{} entries in the database", all.len()));
        let only: Option<String> = args.replay.as_ref().and_then(|p| {
            let v: J = serde_json::from_str(&std::fs::read_to_string(p).ok()?).ok()?;
            let inp = &v["input"];
            inp["uuid"].as_str().or_else(|| inp["entry"]["uuid"].as_str()).map(|s| s.to_string())
        });
        for (i, e) in all.iter().enumerate() {
            if let Some(u) = &only {
                if e.get_uuid().to_string() != *u {
                    continue;
                }
            }
            let mut r = Rng::for_case(args.seed, 0xe47_0000 + i as u64);
            check_entry(&mut ctx, e, schema, &mut r);
        }
    });
    // coverage floor: all three entry kinds present, and the incremental path saw partial supplies
    if args.replay.is_none() {
        let h = &ctx.rep.histogram;
        let mut low = vec![];
        for k in ["entry:live", "entry:recycled", "entry:tombstone", "incr:partial", "incr:nothing-in-range"] {
            if h.get(k).cloned().unwrap_or(0) == 0 {
                low.push(k);
            }
        }
        if !low.is_empty() {
            let low_s = format!("{low:?}");
            ctx.model_fail("coverage-floor", json!({"missing": low_s}), "live, recycled and tombstone entries; partial and empty incremental supplies".into(), "missing".into());
        }
    }
    ctx.rep.model_requests = ctx.drv.requests;
    ctx.rep.write(&args.out);
    println!("c12srv: {} cases, {} distinct, {} failures", ctx.rep.evaluations, ctx.rep.nontrivial_keys.len(), ctx.rep.failures.len());
}
