//! C08 — replicas converge; stream `repl-sim`: 2 or 3 real servers.
//!
//! Fresh in-memory servers (`testkit::setup_test`), the others refreshed from the first; random
//! concurrent histories over 4 persons + 4 groups and 5 names (create — the same uuid on several
//! replicas included —, rename, description / displayname writes and purges, member add / remove,
//! delete, revive) interleaved with random incremental replications (`supplier_provide_changes` /
//! `consumer_apply_changes`) and, rarely, a refresh; then all-pairs rounds until nothing changes and
//! every supply answers "no changes".
//!
//! **Oracle** (implementation only, from the property text): complete dump of every entry of every
//! replica (any state, every attribute) compared pairwise, reported in separate strata so that a
//! known finding in one does not mask a regression in another:
//! * an entry missing on a replica / in a different state          → `entry-missing`, `replicas-differ-state`
//! * replicated attributes of a live (or recycled) entry differ     → `live-replicated-attrs-differ`  (no known finding: VIOLATION)
//! * replicated attributes of an entry conflicted in place differ   → `conflict-entry-replicated-attrs-differ`
//!   (only class / source_uuid, and one side was parked by `validate_repl`: its own uuid is among its
//!   source uuids                                                    → `D45:schema-parked-conflict-not-replicated`)
//! * a conflict *copy* lacks attributes the other replica has       → `D17:conflict-copy-attrs-missing`
//!   (both present but different                                    → `conflict-copy-attrs-differ`)
//! * derived attributes of a conflict entry / copy differ           → `D17:conflict-entry-derived-attrs-differ`
//! * memberof / directmemberof / dynmember of a live entry differ   → `D17:live-derived-membership-differs`
//! * any other derived attribute of a live entry differs            → `live-derived-other-differs`
//! * no quiescence within 8 rounds                                  → `no-quiescence`
//!
//! **Correspondence** (per replication step, every entry on the wire — built-ins included): the delta
//! found in the serialised `ReplIncrementalContext`, the consumer's entry before (or the stub) and
//! after, against `km_c08 apply`: kind, `at`, and for every replicated attribute that the consumer's
//! own transaction did not re-stamp (plugins: refint, attrunique, spn …) the change cid and the value.
//! Directed history D17b additionally against the system layer (`km_c08 sys`).
use hlib::*;
use kanidmd_lib::entry::{Entry, EntryInit, EntryNew, EntrySealedCommitted};
use kanidmd_lib::event::ReviveRecycledEvent;
use kanidmd_lib::prelude::*;
use kanidmd_lib::repl::proto::ConsumerState;
use kanidmd_lib::schema::SchemaTransaction;
use kanidmd_lib::testkit::{setup_test, TestConfiguration};
use kanidmd_lib::verif_hooks::{c12 as hk12, c34 as hk34};
use serde_json::{json, Value as J};
use std::collections::{BTreeMap, BTreeSet};

const NAMES: [&str; 5] = ["c08na", "c08nb", "c08nc", "c08nd", "c08ne"];
const CLASS_PARKED: &str = "D45:schema-parked-conflict-not-replicated";
const MEMBERSHIP: [&str; 3] = ["memberof", "directmemberof", "dynmember"];

// ---------------------------------------------------------------------------------------------
// operations
// ---------------------------------------------------------------------------------------------

#[derive(Clone, Debug, PartialEq, Eq)]
enum Op {
    Create(u8, String),
    Rename(u8, String),
    Desc(u8, Option<String>),
    Disp(u8, String),
    AddMember(u8, u8),
    DelMember(u8, u8),
    Delete(u8),
    Revive(u8),
}

#[derive(Clone, Debug, PartialEq, Eq)]
enum Step {
    On(usize, Op),
    Repl(usize, usize),
    Refresh(usize, usize),
}

fn is_person(id: u8) -> bool {
    id <= 4
}

impl Op {
    fn token(&self) -> String {
        match self {
            Op::Create(i, n) => format!("create {i} {n}"),
            Op::Rename(i, n) => format!("rename {i} {n}"),
            Op::Desc(i, Some(d)) => format!("desc {i} {d}"),
            Op::Desc(i, None) => format!("desc {i} -"),
            Op::Disp(i, d) => format!("disp {i} {d}"),
            Op::AddMember(g, m) => format!("addm {g} {m}"),
            Op::DelMember(g, m) => format!("delm {g} {m}"),
            Op::Delete(i) => format!("delete {i}"),
            Op::Revive(i) => format!("revive {i}"),
        }
    }
    fn parse(p: &[&str]) -> Op {
        let n = |s: &str| s.parse::<u8>().expect("id");
        match p[0] {
            "create" => Op::Create(n(p[1]), p[2].into()),
            "rename" => Op::Rename(n(p[1]), p[2].into()),
            "desc" => Op::Desc(n(p[1]), if p[2] == "-" { None } else { Some(p[2].into()) }),
            "disp" => Op::Disp(n(p[1]), p[2].into()),
            "addm" => Op::AddMember(n(p[1]), n(p[2])),
            "delm" => Op::DelMember(n(p[1]), n(p[2])),
            "delete" => Op::Delete(n(p[1])),
            "revive" => Op::Revive(n(p[1])),
            x => panic!("bad op {x}"),
        }
    }
}

impl Step {
    fn token(&self) -> String {
        match self {
            Step::On(s, op) => format!("on {s} {}", op.token()),
            Step::Repl(a, b) => format!("repl {a} {b}"),
            Step::Refresh(a, b) => format!("refresh {a} {b}"),
        }
    }
    fn parse(s: &str) -> Step {
        let p: Vec<&str> = s.split_whitespace().collect();
        match p[0] {
            "on" => Step::On(p[1].parse().unwrap(), Op::parse(&p[2..])),
            "repl" => Step::Repl(p[1].parse().unwrap(), p[2].parse().unwrap()),
            "refresh" => Step::Refresh(p[1].parse().unwrap(), p[2].parse().unwrap()),
            x => panic!("bad step {x}"),
        }
    }
}

// ---------------------------------------------------------------------------------------------
// the implementation side
// ---------------------------------------------------------------------------------------------

fn uuid_of(id: u8) -> Uuid {
    nat_uuid(0x0800_0000_1000 + id as u64)
}

fn pool_id(u: &Uuid) -> Option<u8> {
    (1..=8u8).find(|i| uuid_of(*i) == *u)
}

struct Cluster {
    rt: tokio::runtime::Runtime,
    qs: Vec<QueryServer>,
    ct: Duration,
}

impl Cluster {
    fn new(n: usize) -> Result<Cluster, String> {
        let rt = tokio::runtime::Builder::new_current_thread().enable_all().build().unwrap();
        let mut qs = vec![];
        for _ in 0..n {
            qs.push(rt.block_on(setup_test(TestConfiguration::default())));
        }
        let mut c = Cluster { rt, qs, ct: duration_from_epoch_now() };
        for i in 1..n {
            c.refresh(0, i)?;
        }
        Ok(c)
    }
    fn refresh(&mut self, from: usize, to: usize) -> Result<(), String> {
        self.ct += Duration::from_secs(1);
        let mut a_r = self.rt.block_on(self.qs[from].read()).map_err(|e| format!("read:{e:?}"))?;
        let mut b_w = self.rt.block_on(self.qs[to].write(self.ct)).map_err(|e| format!("write:{e:?}"))?;
        let ctx = a_r.supplier_provide_refresh().map_err(|e| format!("provide_refresh:{e:?}"))?;
        b_w.consumer_apply_refresh(ctx).map_err(|e| format!("apply_refresh:{e:?}"))?;
        b_w.commit().map_err(|e| format!("commit refresh:{e:?}"))
    }
}

fn f_uuid(id: u8) -> FC {
    f_eq(Attribute::Uuid, PartialValue::Uuid(uuid_of(id)))
}

fn exec_op(c: &mut Cluster, server: usize, op: &Op) -> String {
    c.ct += Duration::from_secs(1);
    let mut txn = match c.rt.block_on(c.qs[server].write(c.ct)) {
        Ok(t) => t,
        Err(e) => return format!("err:write:{e:?}"),
    };
    let modify = |txn: &mut QueryServerWriteTransaction<'_>, id: u8, ml: ModifyList<ModifyInvalid>| txn.internal_modify(&Filter::new_ignore_hidden(f_uuid(id)), &ml);
    let r: Result<(), OperationError> = match op {
        Op::Create(id, name) => {
            let mut e: Entry<EntryInit, EntryNew> = Entry::new();
            e.add_ava(Attribute::Class, EntryClass::Object.to_value());
            if is_person(*id) {
                e.add_ava(Attribute::Class, EntryClass::Account.to_value());
                e.add_ava(Attribute::Class, EntryClass::Person.to_value());
                e.add_ava(Attribute::DisplayName, Value::new_utf8s("C08 Person"));
            } else {
                e.add_ava(Attribute::Class, EntryClass::Group.to_value());
            }
            e.add_ava(Attribute::Uuid, Value::Uuid(uuid_of(*id)));
            e.add_ava(Attribute::Name, Value::new_iname(name));
            txn.internal_create(vec![e])
        }
        Op::Rename(id, n) => modify(&mut txn, *id, ModifyList::new_purge_and_set(Attribute::Name, Value::new_iname(n))),
        Op::Desc(id, Some(d)) => modify(&mut txn, *id, ModifyList::new_purge_and_set(Attribute::Description, Value::new_utf8s(d))),
        Op::Desc(id, None) => modify(&mut txn, *id, ModifyList::new_purge(Attribute::Description)),
        Op::Disp(id, d) => modify(&mut txn, *id, ModifyList::new_purge_and_set(Attribute::DisplayName, Value::new_utf8s(d))),
        Op::AddMember(g, m) => modify(&mut txn, *g, ModifyList::new_append(Attribute::Member, Value::Refer(uuid_of(*m)))),
        Op::DelMember(g, m) => modify(&mut txn, *g, ModifyList::new_remove(Attribute::Member, PartialValue::Refer(uuid_of(*m)))),
        Op::Delete(id) => txn.internal_delete(&Filter::new_ignore_hidden(f_uuid(*id))),
        Op::Revive(id) => match txn.internal_search_uuid(UUID_ADMIN) {
            Err(e) => Err(e),
            Ok(admin) => {
                let ident = Identity::from_impersonate_entry_readwrite(admin);
                let f = Filter::new(f_and(vec![f_eq(Attribute::Class, EntryClass::Recycled.into()), f_uuid(*id)]));
                match ReviveRecycledEvent::from_parts(ident, &f, &txn) {
                    Ok(re) => txn.revive_recycled(&re),
                    Err(e) => Err(e),
                }
            }
        },
    };
    match r {
        Ok(()) => match txn.commit() {
            Ok(()) => "ok".into(),
            Err(e) => format!("err:commit:{e:?}"),
        },
        Err(OperationError::NoMatchingEntries) => "err:nomatch".into(),
        Err(OperationError::Plugin(PluginError::Base(_))) => "err:exists".into(),
        Err(OperationError::AttributeUniqueness(_)) => "err:unique".into(),
        Err(OperationError::SchemaViolation(_)) => "err:schema".into(),
        Err(OperationError::Plugin(PluginError::ReferentialIntegrity(_))) => "err:refint".into(),
        Err(e) => format!("err:other:{e:?}"),
    }
}

type RCid = (Duration, Uuid);

#[derive(Clone, Debug, PartialEq, Eq)]
struct EDump {
    st: char, // L live, R recycled, C conflict, T tombstone
    live: bool,
    at: RCid,
    changes: BTreeMap<String, RCid>,
    attrs: BTreeMap<String, Vec<String>>,
    /// attributes whose value set type overrides `repl_merge_valueset` (C11's subject)
    merging: BTreeSet<String>,
}

fn dump_entry(e: &EntrySealedCommitted) -> EDump {
    let has = |c: EntryClass| e.attribute_equality(Attribute::Class, &c.into());
    let st = if has(EntryClass::Tombstone) { 'T' } else if has(EntryClass::Conflict) { 'C' } else if has(EntryClass::Recycled) { 'R' } else { 'L' };
    let (live, at, changes) = hk12::entry_changestate(e);
    let mut attrs = BTreeMap::new();
    let mut merging = BTreeSet::new();
    for (a, vs) in e.get_ava_iter() {
        let mut v: Vec<String> = vs.to_proto_string_clone_iter().collect();
        v.sort();
        attrs.insert(a.as_str().to_string(), v);
        if matches!(vs.syntax(), SyntaxType::AuditLogString | SyntaxType::Session | SyntaxType::Oauth2Session | SyntaxType::ApiToken | SyntaxType::KeyInternal) {
            merging.insert(a.as_str().to_string());
        }
    }
    EDump { st, live, at: (at.ts, at.s_uuid), changes: changes.into_iter().map(|(a, c)| (a.as_str().to_string(), (c.ts, c.s_uuid))).collect(), attrs, merging }
}

struct Dump {
    ents: BTreeMap<Uuid, EDump>,
    replicated: BTreeSet<String>,
}

fn dump(c: &mut Cluster, server: usize) -> Result<Dump, String> {
    let mut r = c.rt.block_on(c.qs[server].read()).map_err(|e| format!("read:{e:?}"))?;
    let all = r.internal_search(Filter::new(f_pres(Attribute::Class))).map_err(|e| format!("search:{e:?}"))?;
    let mut ents = BTreeMap::new();
    let mut names: BTreeSet<String> = BTreeSet::new();
    for e in all.iter() {
        let d = dump_entry(e);
        names.extend(d.attrs.keys().cloned());
        names.extend(d.changes.keys().cloned());
        ents.insert(e.get_uuid(), d);
    }
    let schema = r.get_schema();
    let replicated = names.into_iter().filter(|n| schema.is_replicated(&Attribute::from(n.as_str()))).collect();
    Ok(Dump { ents, replicated })
}

// ---------------------------------------------------------------------------------------------
// correspondence per replication step
// ---------------------------------------------------------------------------------------------

#[derive(Default)]
struct Interner {
    attrs: BTreeMap<String, u64>,
    vals: BTreeMap<(String, Vec<String>), u64>,
    servers: BTreeMap<Uuid, u64>,
}

impl Interner {
    fn attr(&mut self, a: &str) -> u64 {
        let n = self.attrs.len() as u64;
        *self.attrs.entry(a.to_string()).or_insert(n)
    }
    fn val(&mut self, a: &str, v: &[String]) -> u64 {
        let n = self.vals.len() as u64;
        *self.vals.entry((a.to_string(), v.to_vec())).or_insert(n)
    }
    fn cid(&mut self, c: &RCid, base: Duration) -> String {
        let n = self.servers.len() as u64 + 1;
        let s = *self.servers.entry(c.1).or_insert(n);
        // nanoseconds relative to the cluster's start (every cid of a history is later)
        let ts = c.0.as_nanos().saturating_sub(base.as_nanos());
        format!("{ts}:{s}")
    }
    /// model token of an entry, restricted to the attributes that carry a change cid
    fn token(&mut self, d: &EDump, base: Duration) -> String {
        if !d.live {
            return format!("T/{}", self.cid(&d.at, base));
        }
        let mut ch: Vec<(u64, String)> = vec![];
        let mut at: Vec<(u64, u64)> = vec![];
        for (a, c) in &d.changes {
            let k = self.attr(a);
            ch.push((k, self.cid(c, base)));
            if let Some(v) = d.attrs.get(a) {
                at.push((k, self.val(a, v)));
            }
        }
        ch.sort();
        at.sort();
        let j = |v: Vec<String>| if v.is_empty() { "-".to_string() } else { v.join(";") };
        format!("L/{}/{}/{}", self.cid(&d.at, base), j(ch.iter().map(|(k, c)| format!("{k}={c}")).collect()), j(at.iter().map(|(k, v)| format!("{k}={v}")).collect()))
    }
}

/// one incoming entry read from the serialised context
struct Wire {
    uuid: Uuid,
    live: bool,
    at: RCid,
    /// attribute ↦ (cid, value present)
    cells: BTreeMap<String, (RCid, bool)>,
}

fn wire_cid(c: &J) -> Option<RCid> {
    let t = c.get("t")?;
    Some((Duration::new(t.get("secs")?.as_u64()?, t.get("nanos")?.as_u64()? as u32), c.get("s")?.as_str()?.parse().ok()?))
}

fn wire_entries(ctx: &J) -> Vec<Wire> {
    let mut out = vec![];
    let Some(v1) = ctx.get("v1") else { return out };
    for key in ["schema_entries", "meta_entries", "entries"] {
        for e in v1.get(key).and_then(|x| x.as_array()).cloned().unwrap_or_default() {
            let Some(uuid) = e.get("uuid").and_then(|u| u.as_str()).and_then(|u| u.parse().ok()) else { continue };
            let st = &e["st"];
            if let Some(t) = st.get("Tombstone") {
                if let Some(at) = wire_cid(&t["at"]) {
                    out.push(Wire { uuid, live: false, at, cells: BTreeMap::new() });
                }
            } else if let Some(l) = st.get("Live") {
                let Some(at) = wire_cid(&l["at"]) else { continue };
                let mut cells = BTreeMap::new();
                for (name, sv) in l["attrs"].as_object().cloned().unwrap_or_default() {
                    if let Some(c) = wire_cid(&sv["cid"]) {
                        cells.insert(name, (c, !sv["attr"].is_null()));
                    }
                }
                out.push(Wire { uuid, live: true, at, cells });
            }
        }
    }
    out
}

#[derive(Default)]
struct Stats {
    results: BTreeMap<String, u64>,
    ok_ops: u64,
    repl_steps: u64,
    repl_with_changes: u64,
    wire_entries: u64,
    wire_entries_checked: u64,
    cells_compared: u64,
    cells_restamped: u64,
    cells_merging: u64,
    uuid_clashes: u64,
    schema_parked: u64,
    refreshes: u64,
    quiescence_rounds: u64,
    model_requests: u64,
}

struct Fail {
    kind: &'static str,
    class: String,
    step: usize,
    expected: String,
    observed: String,
}

/// One incremental replication. Returns whether the consumer changed.
fn repl_step(c: &mut Cluster, drv: &mut Driver, from: usize, to: usize, step: usize, st: &mut Stats, base: Duration, model_fail: &mut Option<Fail>) -> Result<bool, Fail> {
    let fail = |kind: &'static str, class: &str, expected: String, observed: String| Fail { kind, class: class.into(), step, expected, observed };
    let pre = dump(c, to).map_err(|e| fail("impl-vs-oracle", "observe", "readable".into(), e))?;
    let sup = dump(c, from).map_err(|e| fail("impl-vs-oracle", "observe", "readable".into(), e))?;
    c.ct += Duration::from_secs(1);
    let (ctx_json, txn_cid): (J, RCid) = {
        let mut from_r = c.rt.block_on(c.qs[from].read()).map_err(|e| fail("impl-vs-oracle", "repl-error", "read".into(), format!("{e:?}")))?;
        let mut to_w = c.rt.block_on(c.qs[to].write(c.ct)).map_err(|e| fail("impl-vs-oracle", "repl-error", "write".into(), format!("{e:?}")))?;
        let state = to_w.consumer_get_state().map_err(|e| fail("impl-vs-oracle", "repl-error", "consumer_get_state".into(), format!("{e:?}")))?;
        let changes = from_r.supplier_provide_changes(state).map_err(|e| fail("impl-vs-oracle", "repl-error", "supplier_provide_changes".into(), format!("{e:?}")))?;
        let j = serde_json::to_value(&changes).unwrap_or(J::Null);
        let txn_cid = hk34::txn_cid(&to_w);
        match to_w.consumer_apply_changes(changes).map_err(|e| fail("impl-vs-oracle", "repl-error", "consumer_apply_changes succeeds".into(), format!("{e:?}")))? {
            ConsumerState::Ok => to_w.commit().map_err(|e| fail("impl-vs-oracle", "repl-error", "commit".into(), format!("{e:?}")))?,
            ConsumerState::RefreshRequired => return Err(fail("impl-vs-oracle", "refresh-required", "incremental replication between live replicas".into(), "RefreshRequired".into())),
        }
        (j, txn_cid)
    };
    let post = dump(c, to).map_err(|e| fail("impl-vs-oracle", "observe", "readable".into(), e))?;
    st.repl_steps += 1;
    let changed = post.ents != pre.ents;
    if changed {
        st.repl_with_changes += 1;
    }
    // ---- correspondence, entry by entry
    let wires = wire_entries(&ctx_json);
    st.wire_entries += wires.len() as u64;
    if model_fail.is_some() {
        return Ok(changed);
    }
    let mut it = Interner::default();
    for w in wires {
        let Some(post_e) = post.ents.get(&w.uuid) else {
            *model_fail = Some(fail("impl-vs-model", "applied-entry-missing", format!("entry {} on the consumer after the step", w.uuid), "absent".into()));
            break;
        };
        // the incoming state: cids from the wire, values from the supplier's entry (they travel unchanged: C12)
        let sup_e = sup.ents.get(&w.uuid);
        let inc = EDump {
            st: 'L',
            live: w.live,
            at: w.at,
            changes: w.cells.iter().map(|(a, (c, _))| (a.clone(), *c)).collect(),
            attrs: w.cells.iter().filter(|(_, (_, p))| *p).map(|(a, _)| (a.clone(), sup_e.and_then(|s| s.attrs.get(a).cloned()).unwrap_or_default())).collect(),
            merging: BTreeSet::new(),
        };
        // the database side: the entry, or the stub `incremental_prepare` makes
        let db = match pre.ents.get(&w.uuid) {
            Some(d) => d.clone(),
            None => EDump { st: 'L', live: w.live, at: w.at, changes: BTreeMap::new(), attrs: BTreeMap::new(), merging: BTreeSet::new() },
        };
        if db.live && inc.live && db.at != inc.at {
            st.uuid_clashes += 1;
        }
        let nr: Vec<String> = {
            let mut names: BTreeSet<&String> = inc.changes.keys().chain(db.changes.keys()).chain(post_e.changes.keys()).collect();
            names.retain(|n| !post.replicated.contains(*n) && !pre.replicated.contains(*n));
            names.into_iter().map(|n| it.attr(n).to_string()).collect()
        };
        let req = format!("apply {} {} {} {}", if nr.is_empty() { "-".to_string() } else { nr.join(",") }, it.cid(&txn_cid, base), it.token(&inc, base), it.token(&db, base));
        let reply = drv.ask(&req);
        st.model_requests += 1;
        st.wire_entries_checked += 1;
        // compare on the cells the consumer's transaction did not re-stamp
        let want_full = it.token(post_e, base);
        let parse = |t: &str| -> (String, BTreeMap<String, String>, BTreeMap<String, String>) {
            let p: Vec<&str> = t.split('/').collect();
            if p[0] == "T" {
                return (format!("T/{}", p[1]), BTreeMap::new(), BTreeMap::new());
            }
            let kv = |s: &str| -> BTreeMap<String, String> {
                if s == "-" { BTreeMap::new() } else { s.split(';').map(|x| { let (a, b) = x.split_once('=').unwrap(); (a.to_string(), b.to_string()) }).collect() }
            };
            (format!("L/{}", p[1]), kv(p[2]), kv(p[3]))
        };
        let (mk, mch, mat) = parse(&reply);
        let (ik, ich, iat) = parse(&want_full);
        let txn_tok = it.cid(&txn_cid, base);
        let mut bad: Option<String> = None;
        if mk != ik {
            bad = Some(format!("kind/at: model {mk}, implementation {ik}"));
        } else {
            let parked = post_e.st == 'C' && db.st != 'C' && !(sup_e.map(|s| s.st == 'C').unwrap_or(false));
            if parked {
                st.schema_parked += 1;
            }
            let keys: BTreeSet<&String> = mch.keys().chain(ich.keys()).collect();
            for k in keys {
                if ich.get(k) == Some(&txn_tok) {
                    st.cells_restamped += 1;
                    continue;
                }
                st.cells_compared += 1;
                if mch.get(k) != ich.get(k) {
                    bad = Some(format!("attribute #{k}: model cid {:?}, implementation {:?}", mch.get(k), ich.get(k)));
                    break;
                }
                // class / source_uuid of an entry parked as a conflict are rewritten without a new cid
                let name = it.attrs.iter().find(|(_, v)| v.to_string() == *k).map(|(n, _)| n.clone()).unwrap_or_default();
                if post_e.st == 'C' && (name == "class" || name == "source_uuid") {
                    continue;
                }
                // value sets that merge instead of choosing are C11's subject: the cid is compared, the value is not
                if post_e.merging.contains(&name) || db.merging.contains(&name) || sup_e.map(|s| s.merging.contains(&name)).unwrap_or(false) {
                    st.cells_merging += 1;
                    continue;
                }
                if mat.get(k) != iat.get(k) {
                    bad = Some(format!("attribute {name}: model value {:?}, implementation {:?}", mat.get(k), iat.get(k)));
                    break;
                }
            }
        }
        if let Some(b) = bad {
            *model_fail = Some(fail("impl-vs-model", "applied-entry", format!("`{req}` → {reply}"), format!("uuid {}: {b}; implementation {want_full}", w.uuid)));
            break;
        }
    }
    Ok(changed)
}

// ---------------------------------------------------------------------------------------------
// the oracle after quiescence
// ---------------------------------------------------------------------------------------------

struct Finding {
    class: String,
    detail: String,
}

fn diff_attrs(a: &EDump, b: &EDump, pick: &dyn Fn(&str) -> bool) -> Vec<(String, Option<Vec<String>>, Option<Vec<String>>)> {
    let names: BTreeSet<&String> = a.attrs.keys().chain(b.attrs.keys()).collect();
    names.into_iter().filter(|n| pick(n)).filter(|n| a.attrs.get(*n) != b.attrs.get(*n)).map(|n| (n.clone(), a.attrs.get(n).cloned(), b.attrs.get(n).cloned())).collect()
}

fn compare(d0: &Dump, ds: &Dump, s: usize) -> Vec<Finding> {
    let mut out: Vec<Finding> = vec![];
    let mut add = |class: &str, detail: String| {
        if !out.iter().any(|f| f.class == class) {
            out.push(Finding { class: class.into(), detail });
        }
    };
    let repl = |n: &str| d0.replicated.contains(n) || ds.replicated.contains(n);
    let all: BTreeSet<&Uuid> = d0.ents.keys().chain(ds.ents.keys()).collect();
    for u in all {
        let tag = pool_id(u).map(|i| format!("#{i}")).unwrap_or_else(|| u.to_string());
        let (a, b) = match (d0.ents.get(u), ds.ents.get(u)) {
            (Some(a), Some(b)) => (a, b),
            (a, _) => {
                add("entry-missing", format!("entry {tag} exists only on replica {}", if a.is_some() { 0 } else { s }));
                continue;
            }
        };
        if a.st != b.st {
            add("replicas-differ-state", format!("entry {tag}: `{}` on replica 0, `{}` on replica {s}", a.st, b.st));
            continue;
        }
        if a.st == 'T' {
            continue;
        }
        let rd = diff_attrs(a, b, &|n| repl(n));
        let dd = diff_attrs(a, b, &|n| !repl(n));
        let is_copy = a.st == 'C' && pool_id(u).is_none();
        if let Some((n, x, y)) = rd.first() {
            let detail = format!("entry {tag} ({}): {n} = {x:?} on replica 0, {y:?} on replica {s}", a.st);
            if is_copy {
                if rd.iter().all(|(_, x, y)| x.is_none() || y.is_none()) {
                    add("D17:conflict-copy-attrs-missing", detail);
                } else {
                    add("conflict-copy-attrs-differ", detail);
                }
            } else if a.st == 'C' {
                // parked by `validate_repl` (schema-invalid after the merge): class / source_uuid rewritten in
                // place, the entry's own uuid among its source uuids, no new change cid
                let own = u.to_string();
                let parked = |e: &EDump| e.attrs.get("source_uuid").map(|v| v.contains(&own)).unwrap_or(false);
                if rd.iter().all(|(n, _, _)| n == "class" || n == "source_uuid") && (parked(a) || parked(b)) {
                    add(CLASS_PARKED, detail);
                } else {
                    add("conflict-entry-replicated-attrs-differ", detail);
                }
            } else {
                add("live-replicated-attrs-differ", detail);
            }
        }
        if let Some((n, x, y)) = dd.first() {
            let detail = format!("entry {tag} ({}): {n} = {x:?} on replica 0, {y:?} on replica {s}", a.st);
            if a.st == 'C' {
                add("D17:conflict-entry-derived-attrs-differ", detail);
            } else if dd.iter().all(|(n, _, _)| MEMBERSHIP.contains(&n.as_str())) {
                add("D17:live-derived-membership-differs", detail);
            } else {
                let (n, x, y) = dd.iter().find(|(n, _, _)| !MEMBERSHIP.contains(&n.as_str())).unwrap();
                add("live-derived-other-differs", format!("entry {tag} ({}): {n} = {x:?} on replica 0, {y:?} on replica {s}", a.st));
            }
        }
    }
    out
}

// ---------------------------------------------------------------------------------------------
// running a history
// ---------------------------------------------------------------------------------------------

struct Outcome {
    findings: Vec<Finding>,
    model_fail: Option<Fail>,
    hard: Option<Fail>,
    end_step: usize,
}

fn run_history(drv: &mut Driver, n: usize, steps: &[Step], st: &mut Stats) -> Outcome {
    let mut out = Outcome { findings: vec![], model_fail: None, hard: None, end_step: steps.len() + 1 };
    let mut c = match Cluster::new(n) {
        Ok(c) => c,
        Err(e) => {
            out.hard = Some(Fail { kind: "impl-vs-oracle", class: "setup".into(), step: 0, expected: "cluster boots".into(), observed: e });
            return out;
        }
    };
    let base = c.ct;
    for (k, stp) in steps.iter().enumerate() {
        let step = k + 1;
        match stp {
            Step::On(s, op) => {
                let res = std::panic::catch_unwind(std::panic::AssertUnwindSafe(|| exec_op(&mut c, *s, op))).unwrap_or_else(|_| "panic".into());
                *st.results.entry(format!("{}:{}", op.token().split(' ').next().unwrap(), res.split(':').take(2).collect::<Vec<_>>().join(":"))).or_insert(0) += 1;
                if res == "ok" {
                    st.ok_ops += 1;
                }
                if res == "panic" || res.starts_with("err:other") || res.starts_with("err:write") || res.starts_with("err:commit") {
                    out.hard = Some(Fail { kind: "impl-vs-oracle", class: "operation-error".into(), step, expected: "ok or a refusal".into(), observed: format!("`{}`: {res}", stp.token()) });
                    out.end_step = step;
                    return out;
                }
            }
            Step::Repl(a, b) => match repl_step(&mut c, drv, *a, *b, step, st, base, &mut out.model_fail) {
                Ok(_) => {}
                Err(f) => {
                    out.hard = Some(f);
                    out.end_step = step;
                    return out;
                }
            },
            Step::Refresh(a, b) => {
                st.refreshes += 1;
                if let Err(e) = c.refresh(*a, *b) {
                    out.hard = Some(Fail { kind: "impl-vs-oracle", class: "refresh-error".into(), step, expected: "refresh succeeds".into(), observed: e });
                    out.end_step = step;
                    return out;
                }
            }
        }
    }
    // ---- quiescence
    let end = steps.len() + 1;
    let mut quiet = false;
    for _ in 0..8 {
        st.quiescence_rounds += 1;
        let mut any = false;
        for a in 0..n {
            for b in 0..n {
                if a != b {
                    match repl_step(&mut c, drv, a, b, end, st, base, &mut out.model_fail) {
                        Ok(ch) => any |= ch,
                        Err(f) => {
                            out.hard = Some(f);
                            return out;
                        }
                    }
                }
            }
        }
        if !any {
            quiet = true;
            break;
        }
    }
    if !quiet {
        out.hard = Some(Fail { kind: "impl-vs-oracle", class: "no-quiescence".into(), step: end, expected: "replication settles within 8 all-pairs rounds".into(), observed: "still changing".into() });
        return out;
    }
    let mut dumps = vec![];
    for s in 0..n {
        match dump(&mut c, s) {
            Ok(d) => dumps.push(d),
            Err(e) => {
                out.hard = Some(Fail { kind: "impl-vs-oracle", class: "observe".into(), step: end, expected: "readable".into(), observed: e });
                return out;
            }
        }
    }
    for s in 1..n {
        for f in compare(&dumps[0], &dumps[s], s) {
            if !out.findings.iter().any(|g| g.class == f.class) {
                out.findings.push(f);
            }
        }
    }
    out
}

// ---------------------------------------------------------------------------------------------
// generators
// ---------------------------------------------------------------------------------------------

fn gen_op(r: &mut Rng) -> Op {
    let any = |r: &mut Rng| r.range(1, 8) as u8;
    let person = |r: &mut Rng| r.range(1, 4) as u8;
    let group = |r: &mut Rng| r.range(5, 8) as u8;
    let name = |r: &mut Rng| NAMES[r.below(5) as usize].to_string();
    match r.below(100) {
        0..=27 => Op::Create(any(r), name(r)),
        28..=37 => Op::Rename(any(r), name(r)),
        38..=49 => Op::Desc(any(r), if r.chance(1, 4) { None } else { Some(format!("d{}", r.below(4))) }),
        50..=55 => Op::Disp(person(r), format!("n{}", r.below(3))),
        56..=73 => Op::AddMember(group(r), any(r)),
        74..=81 => Op::DelMember(group(r), any(r)),
        82..=92 => Op::Delete(any(r)),
        _ => Op::Revive(any(r)),
    }
}

fn gen_history(r: &mut Rng, n: usize, long: bool) -> Vec<Step> {
    let len = if long { r.range(30, 60) } else { r.range(10, 30) };
    let mut v = vec![];
    for _ in 0..len {
        let roll = r.below(100);
        if roll < 22 {
            let a = r.below(n as u64) as usize;
            let mut b = r.below(n as u64) as usize;
            if a == b {
                b = (b + 1) % n;
            }
            v.push(Step::Repl(a, b));
        } else if roll < 24 {
            let a = r.below(n as u64) as usize;
            let mut b = r.below(n as u64) as usize;
            if a == b {
                b = (b + 1) % n;
            }
            v.push(Step::Refresh(a, b));
        } else {
            v.push(Step::On(r.below(n as u64) as usize, gen_op(r)));
        }
    }
    v
}

fn directed() -> Vec<(&'static str, usize, Vec<&'static str>)> {
    vec![
        // D17b: the loser's origin learns of the earlier creation after the other replica saw its creation
        ("d17b-conflict-copy", 2, vec!["on 0 create 5 c08na", "on 1 create 5 c08nb", "repl 1 0", "repl 0 1"]),
        ("same-uuid-other-order", 2, vec!["on 0 create 5 c08na", "on 1 create 5 c08nb", "repl 0 1", "repl 1 0"]),
        // concurrent edits of one attribute, delete racing an edit, membership
        ("concurrent-edits", 2, vec!["on 0 create 1 c08na", "on 0 create 5 c08nb", "repl 0 1", "on 0 desc 1 d0", "on 1 desc 1 d1", "on 1 disp 1 n1", "on 0 addm 5 1", "on 1 desc 5 d2", "repl 0 1", "repl 1 0"]),
        ("delete-vs-edit", 2, vec!["on 0 create 1 c08na", "on 0 create 5 c08nb", "on 0 addm 5 1", "repl 0 1", "on 0 delete 1", "on 1 desc 1 d1", "repl 1 0", "repl 0 1"]),
        ("three-replicas-chain", 3, vec!["on 0 create 1 c08na", "on 1 create 5 c08nb", "on 2 create 6 c08nc", "repl 0 1", "repl 1 2", "on 2 addm 5 1", "on 0 desc 1 d3", "repl 2 0", "on 1 addm 6 5", "repl 1 0"]),
        ("name-clash", 2, vec!["on 0 create 1 c08na", "on 1 create 2 c08na", "repl 0 1", "repl 1 0"]),
        // validate_repl parks a merged entry that fails the schema without restamping what it rewrites
        ("schema-parked-conflict", 2, vec!["on 0 create 8 c08nd", "on 1 create 2 c08nd", "repl 0 1", "on 0 delete 8", "repl 1 0"]),
        ("refresh-mid-history", 2, vec!["on 0 create 1 c08na", "on 1 create 5 c08nb", "refresh 0 1", "on 1 desc 1 d1", "repl 1 0"]),
    ]
}

/// Small scope, exhaustively: two replicas, two or three operations on one group from six (create on
/// either side under different names, description on either side, delete on either side), every choice
/// of {nothing, repl 0→1, repl 1→0} after the first operation (6² × 3 + 6³ × 3 = 756 histories).
fn exhaustive() -> Vec<Vec<Step>> {
    let alpha = ["on 0 create 5 c08na", "on 1 create 5 c08nb", "on 0 desc 5 d0", "on 1 desc 5 d1", "on 0 delete 5", "on 1 delete 5"];
    let slots = ["", "repl 0 1", "repl 1 0"];
    let mut out = vec![];
    for a in alpha {
        for b in alpha {
            for s1 in slots {
                let mut two = vec![a, s1, b];
                two.retain(|x| !x.is_empty());
                out.push(two.iter().map(|t| Step::parse(t)).collect());
                for c in alpha {
                    let mut three = vec![a, s1, b, c];
                    three.retain(|x| !x.is_empty());
                    out.push(three.iter().map(|t| Step::parse(t)).collect());
                }
            }
        }
    }
    out
}

// ---------------------------------------------------------------------------------------------
// reporting
// ---------------------------------------------------------------------------------------------

fn steps_json(steps: &[Step]) -> J {
    J::Array(steps.iter().map(|s| J::String(s.token())).collect())
}

struct Global {
    reported: BTreeMap<String, u64>,
}

fn run_case(drv: &mut Driver, rep: &mut Report, g: &mut Global, prefix: &str, n: usize, steps: &[Step], shrink: bool) {
    let mut st = Stats::default();
    let out = run_history(drv, n, steps, &mut st);
    for (k, v) in &st.results {
        rep.count_n(&format!("{prefix}:op:{k}"), *v);
    }
    for (k, v) in [
        ("repl-steps", st.repl_steps),
        ("repl-steps-changing-the-consumer", st.repl_with_changes),
        ("wire-entries", st.wire_entries),
        ("wire-entries-checked-against-model", st.wire_entries_checked),
        ("cells-compared", st.cells_compared),
        ("cells-restamped-by-consumer-plugins", st.cells_restamped),
        ("cells-of-merging-valuesets-cid-only", st.cells_merging),
        ("uuid-clashes-on-the-wire", st.uuid_clashes),
        ("entries-parked-as-conflict", st.schema_parked),
        ("refreshes", st.refreshes),
        ("quiescence-rounds", st.quiescence_rounds),
    ] {
        rep.count_n(&format!("{prefix}:{k}"), v);
    }
    if out.findings.is_empty() && out.hard.is_none() {
        rep.count(&format!("{prefix}:converged-in-every-stratum"));
    }
    for f in &out.findings {
        rep.count(&format!("{prefix}:finding:{}", f.class));
        if let Some(attr) = f.detail.split("): ").nth(1).and_then(|x| x.split(' ').next()) {
            rep.count(&format!("finding-attr:{}:{attr}", f.class));
        }
    }
    let nontrivial = out.hard.is_none() && st.ok_ops >= 4 && st.repl_with_changes >= 2;
    let key = format!("{n}|{}", steps.iter().map(|s| s.token()).collect::<Vec<_>>().join(";"));
    rep.case(if nontrivial { Some(key) } else { None });
    if nontrivial {
        rep.sample(json!({ "stream": prefix, "servers": n, "steps": steps_json(&steps[..steps.len().min(10)]), "steps_total": steps.len(),
            "ok_ops": st.ok_ops, "repl_steps_changing": st.repl_with_changes, "findings": out.findings.iter().map(|f| f.class.clone()).collect::<Vec<_>>() }));
    }
    // ---- failures: hard ones, one per finding class (the first two of each class shrunk), the first model disagreement
    let mut todo: Vec<(&'static str, String, String, String, usize)> = vec![];
    if let Some(h) = &out.hard {
        todo.push((h.kind, h.class.clone(), h.expected.clone(), format!("step {}: {}", h.step, h.observed), h.step));
    }
    for f in &out.findings {
        todo.push(("impl-vs-oracle", f.class.clone(), "after quiescence every replica holds the same entries with the same attribute values".into(), f.detail.clone(), steps.len()));
    }
    if let Some(m) = &out.model_fail {
        todo.push((m.kind, m.class.clone(), m.expected.clone(), format!("step {}: {}", m.step, m.observed), m.step));
    }
    for (kind, class, expected, observed, upto) in todo {
        let seen = *g.reported.get(&class).unwrap_or(&0);
        g.reported.insert(class.clone(), seen + 1);
        if seen >= 3 {
            rep.count(&format!("failures-not-recorded:{class}"));
            continue;
        }
        let mut cur: Vec<Step> = steps[..upto.min(steps.len())].to_vec();
        let (mut expected, mut observed) = (expected, observed);
        // known-finding strata have minimal directed witnesses; search effort goes to everything else
        if shrink && seen < 1 && !class.starts_with("D17:") && class != CLASS_PARKED {
            let has = |o: &Outcome| -> Option<(String, String)> {
                if let Some(h) = &o.hard {
                    if h.class == class { return Some((h.expected.clone(), format!("step {}: {}", h.step, h.observed))); }
                }
                if let Some(f) = o.findings.iter().find(|f| f.class == class) {
                    return Some(("after quiescence every replica holds the same entries with the same attribute values".into(), f.detail.clone()));
                }
                if let Some(m) = &o.model_fail {
                    if m.class == class { return Some((m.expected.clone(), format!("step {}: {}", m.step, m.observed))); }
                }
                None
            };
            cur = shrink_list(cur, |cand| {
                let mut s = Stats::default();
                has(&run_history(drv, n, cand, &mut s)).is_some()
            });
            let mut s = Stats::default();
            if let Some((e, o)) = has(&run_history(drv, n, &cur, &mut s)) {
                expected = e;
                observed = o;
            }
        }
        rep.fail(Failure { kind: kind.into(), class, input: json!({ "servers": n, "steps": steps_json(&cur) }), expected, observed });
    }
    rep.model_requests += st.model_requests;
}

fn merge(into: &mut Report, from: Report) {
    into.evaluations += from.evaluations;
    into.nontrivial_keys.extend(from.nontrivial_keys);
    for (k, v) in from.histogram {
        *into.histogram.entry(k).or_insert(0) += v;
    }
    for s in from.samples {
        into.sample(s);
    }
    for f in from.failures {
        // keep at most three per class overall
        if into.failures.iter().filter(|g| g.class == f.class).count() < 3 {
            into.fail(f);
        }
    }
    into.notes.extend(from.notes);
    into.model_requests += from.model_requests;
}

fn main() {
    if std::env::var_os("RUST_LOG").is_none() {
        std::env::set_var("RUST_LOG", "off");
    }
    let args = Args::parse();
    let mut rep = Report::new(
        "repl-sim",
        "random concurrent histories (10-60 steps: create incl. the same uuid on several replicas, rename, description/displayname writes and purges, \
         member add/remove, delete, revive over 4 persons + 4 groups and 5 names; ~22% incremental replications, ~2% refreshes) on 2 or 3 fresh real \
         servers, then all-pairs replication to quiescence; complete dumps compared pairwise in strata; every entry on the wire checked against the \
         model's apply; non-trivial = at least 4 successful operations and at least 2 replication steps that changed the consumer; distinct = distinct step list",
    );
    if let Some(path) = &args.replay {
        let v: J = serde_json::from_str(&std::fs::read_to_string(path).unwrap()).unwrap();
        let steps: Vec<Step> = v["input"]["steps"].as_array().unwrap().iter().map(|s| Step::parse(s.as_str().unwrap())).collect();
        let n = v["input"]["servers"].as_u64().unwrap_or(2) as usize;
        let mut drv = Driver::spawn(&args.driver);
        let mut g = Global { reported: BTreeMap::new() };
        run_case(&mut drv, &mut rep, &mut g, "replay", n, &steps, false);
        rep.write(&args.out);
        println!("c08sim replay: {} failures", rep.failures.len());
        return;
    }
    {
        let mut drv = Driver::spawn(&args.driver);
        let mut g = Global { reported: BTreeMap::new() };
        for (name, n, toks) in directed() {
            let steps: Vec<Step> = toks.iter().map(|t| Step::parse(t)).collect();
            run_case(&mut drv, &mut rep, &mut g, "dir", n, &steps, false);
            rep.count(&format!("dir:history:{name}"));
        }
        // the system layer predicts D17b: the copy lacks `name` on the replica that is not its origin
        let reply = drv.ask("sys 2 c.0.1.0=100;1=101 c.1.1.0=100;1=102 r.1.0 r.0.1 r.0.1 r.1.0 r.0.1 r.1.0");
        rep.model_requests += 1;
        let d17b_seen = rep.failures.iter().any(|f| f.class == "D17:conflict-copy-attrs-missing");
        if reply.starts_with("same=0") != d17b_seen {
            rep.fail(Failure {
                kind: "impl-vs-model".into(),
                class: "system-layer-d17b".into(),
                input: json!({ "servers": 2, "steps": directed()[0].2 }),
                expected: format!("model system layer: {}", &reply[..reply.len().min(60)]),
                observed: format!("implementation diverges in the conflict copy: {d17b_seen}"),
            });
        }
    }
    let n_two = args.cases(26, 240);
    let n_three = args.cases(14, 120);
    // the exhaustive small scope: all of it in the thorough tier, a seed-dependent sample otherwise
    let exh_all = exhaustive();
    let exh: Vec<Vec<Step>> = if args.thorough() || args.budget > 1 {
        exh_all
    } else {
        let mut r = Rng::for_case(args.seed, 9_000_000);
        (0..12).map(|_| exh_all[r.below(exh_all.len() as u64) as usize].clone()).collect()
    };
    let n_exh = exh.len() as u64;
    let parts: u64 = 4;
    let mut jobs: Vec<(usize, u64, u64)> = vec![];
    for k in 0..parts {
        jobs.push((2, n_two * k / parts, n_two * (k + 1) / parts));
        jobs.push((3, n_three * k / parts, n_three * (k + 1) / parts));
        jobs.push((0, n_exh * k / parts, n_exh * (k + 1) / parts));
    }
    let exh_ref = &exh;
    let results: Vec<Report> = std::thread::scope(|sc| {
        let handles: Vec<_> = jobs
            .iter()
            .map(|(n, from, to)| {
                let a = &args;
                sc.spawn(move || {
                    let mut rep = Report::new("part", "");
                    let mut drv = Driver::spawn(&a.driver);
                    let mut g = Global { reported: BTreeMap::new() };
                    for c in *from..*to {
                        if *n == 0 {
                            run_case(&mut drv, &mut rep, &mut g, "exh2", 2, &exh_ref[c as usize], false);
                            continue;
                        }
                        let mut r = Rng::for_case(a.seed, (*n as u64) * 1_000_000 + c);
                        let steps = gen_history(&mut r, *n, c % 3 == 0);
                        run_case(&mut drv, &mut rep, &mut g, if *n == 2 { "repl2" } else { "repl3" }, *n, &steps, true);
                    }
                    rep
                })
            })
            .collect();
        handles.into_iter().map(|h| h.join().expect("slice panicked")).collect()
    });
    for r in results {
        merge(&mut rep, r);
    }
    rep.write(&args.out);
    println!("c08sim: {} histories, {} non-trivial, {} failures, {} model requests", rep.evaluations, rep.nontrivial_keys.len(), rep.failures.len(), rep.model_requests);
}
