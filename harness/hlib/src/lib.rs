//! Helpers shared by the kanidmd_lib-linked harness binaries (`src/bin/cXX.rs`).
pub use hcommon::*;

use uuid::Uuid;

/// Map a small natural to a UUID whose byte order equals the natural order, so that
/// the model's `Nat` atoms and the implementation's `Uuid`s compare alike.
pub fn nat_uuid(n: u64) -> Uuid {
    Uuid::from_u128(0x1000_0000_0000_4000_8000_0000_0000_0000u128 + n as u128)
}
