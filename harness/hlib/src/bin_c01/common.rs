// Shared by the C01 harness binaries (`c01`: backend level, `c01qs`: query-server level):
// the filter-tree alphabet, its text form, the oracle's plain evaluator, the known-finding
// recognisers' rewrites, generators and the fixed database.
// ---------------------------------------------------------------------------------------------
// alphabet

#[derive(Clone, Debug, PartialEq, Eq, Hash, PartialOrd, Ord)]
enum V {
    S(Vec<u8>),
    N(u64),
}

#[derive(Clone, Debug, PartialEq, Eq, Hash)]
enum T {
    Eq(usize, V),
    Cnt(usize, V),
    Stw(usize, V),
    Enw(usize, V),
    Pres(usize),
    Lt(usize, V),
    Or(Vec<T>),
    And(Vec<T>),
    Inc(Vec<T>),
    Not(Box<T>),
}

#[derive(Clone, Copy, PartialEq, Debug)]
enum AK {
    Iutf8,
    Iname,
    Utf8,
    U32,
}

const CLASS: usize = 0;
const NAME: usize = 1;
const DESC: usize = 2;
const GID: usize = 3;

fn attrs() -> Vec<Attribute> {
    vec![Attribute::Class, Attribute::Name, Attribute::Description, Attribute::GidNumber]
}
const KINDS: [AK; 4] = [AK::Iutf8, AK::Iname, AK::Utf8, AK::U32];

fn sv(s: &str) -> V {
    V::S(s.as_bytes().to_vec())
}
fn str_of(b: &[u8]) -> String {
    String::from_utf8(b.to_vec()).unwrap()
}

fn pv(a: usize, v: &V) -> Option<PartialValue> {
    match (KINDS[a], v) {
        (AK::Iutf8, V::S(s)) => Some(PartialValue::new_iutf8(&str_of(s))),
        (AK::Iname, V::S(s)) => Some(PartialValue::new_iname(&str_of(s))),
        (AK::Utf8, V::S(s)) => Some(PartialValue::new_utf8s(&str_of(s))),
        (AK::U32, V::N(n)) => Some(PartialValue::Uint32(*n as u32)),
        _ => None,
    }
}
fn value(a: usize, v: &V) -> Value {
    match (KINDS[a], v) {
        (AK::Iutf8, V::S(s)) => Value::new_iutf8(&str_of(s)),
        (AK::Iname, V::S(s)) => Value::new_iname(&str_of(s)),
        (AK::Utf8, V::S(s)) => Value::new_utf8s(&str_of(s)),
        (AK::U32, V::N(n)) => Value::Uint32(*n as u32),
        _ => panic!("ill-typed entry value"),
    }
}
fn atom(a: &Attribute) -> usize {
    attrs().iter().position(|x| x == a).unwrap_or(99)
}
fn back(p: &PartialValue) -> V {
    match p {
        PartialValue::Iutf8(s) | PartialValue::Iname(s) | PartialValue::Utf8(s) => V::S(s.as_bytes().to_vec()),
        PartialValue::Uint32(n) => V::N(*n as u64),
        _ => V::N(999_999),
    }
}
fn show_v(v: &V) -> String {
    match v {
        V::S(s) => format!("s{}", s.iter().map(|b| b.to_string()).collect::<Vec<_>>().join(".")),
        V::N(n) => format!("n{n}"),
    }
}
fn parse_v(s: &str) -> V {
    if let Some(r) = s.strip_prefix('n') {
        V::N(r.parse().unwrap())
    } else {
        let r = &s[1..];
        V::S(if r.is_empty() { vec![] } else { r.split('.').map(|x| x.parse().unwrap()).collect() })
    }
}

// ---------------------------------------------------------------------------------------------
// trees

fn show_t(t: &T) -> String {
    let lst = |l: &Vec<T>| l.iter().map(|x| format!(" {}", show_t(x))).collect::<String>();
    match t {
        T::Eq(a, v) => format!("(eq {a} {})", show_v(v)),
        T::Cnt(a, v) => format!("(cnt {a} {})", show_v(v)),
        T::Stw(a, v) => format!("(stw {a} {})", show_v(v)),
        T::Enw(a, v) => format!("(enw {a} {})", show_v(v)),
        T::Pres(a) => format!("(pres {a})"),
        T::Lt(a, v) => format!("(lt {a} {})", show_v(v)),
        T::Or(l) => format!("(or{})", lst(l)),
        T::And(l) => format!("(and{})", lst(l)),
        T::Inc(l) => format!("(inc{})", lst(l)),
        T::Not(f) => format!("(not {})", show_t(f)),
    }
}

fn parse_t(s: &str) -> T {
    let toks: Vec<String> = s.replace('(', " ( ").replace(')', " ) ").split_whitespace().map(|x| x.to_string()).collect();
    fn go(toks: &[String], i: &mut usize) -> T {
        assert_eq!(toks[*i], "(");
        *i += 1;
        let head = toks[*i].clone();
        *i += 1;
        let t = match head.as_str() {
            "or" | "and" | "inc" => {
                let mut l = vec![];
                while toks[*i] != ")" {
                    l.push(go(toks, i));
                }
                match head.as_str() {
                    "or" => T::Or(l),
                    "and" => T::And(l),
                    _ => T::Inc(l),
                }
            }
            "not" => T::Not(Box::new(go(toks, i))),
            "pres" => {
                let a: usize = toks[*i].parse().unwrap();
                *i += 1;
                T::Pres(a)
            }
            _ => {
                let a: usize = toks[*i].parse().unwrap();
                let v = parse_v(&toks[*i + 1]);
                *i += 2;
                match head.as_str() {
                    "eq" => T::Eq(a, v),
                    "cnt" => T::Cnt(a, v),
                    "stw" => T::Stw(a, v),
                    "enw" => T::Enw(a, v),
                    "lt" => T::Lt(a, v),
                    h => panic!("bad head {h}"),
                }
            }
        };
        assert_eq!(toks[*i], ")");
        *i += 1;
        t
    }
    let mut i = 0;
    go(&toks, &mut i)
}

fn conn_kinds(t: &T, out: &mut BTreeSet<&'static str>) {
    match t {
        T::Or(l) => {
            out.insert("or");
            l.iter().for_each(|x| conn_kinds(x, out));
        }
        T::And(l) => {
            out.insert("and");
            l.iter().for_each(|x| conn_kinds(x, out));
        }
        T::Inc(l) => {
            out.insert("inc");
            l.iter().for_each(|x| conn_kinds(x, out));
        }
        T::Not(f) => {
            out.insert("not");
            conn_kinds(f, out);
        }
        _ => {}
    }
}
fn has_inc(t: &T) -> bool {
    match t {
        T::Inc(_) => true,
        T::Or(l) | T::And(l) => l.iter().any(has_inc),
        T::Not(f) => has_inc(f),
        _ => false,
    }
}
fn needs_scim(t: &T) -> bool {
    match t {
        T::Stw(..) | T::Enw(..) => true,
        T::Or(l) | T::And(l) | T::Inc(l) => l.iter().any(needs_scim),
        T::Not(f) => needs_scim(f),
        _ => false,
    }
}
fn depth(t: &T) -> usize {
    match t {
        T::Or(l) | T::And(l) | T::Inc(l) => 1 + l.iter().map(depth).max().unwrap_or(0),
        T::Not(f) => 1 + depth(f),
        _ => 1,
    }
}
/// the (attribute, index type) pairs `resolve` looks at for the terms of `t`
fn term_pairs(t: &T, out: &mut BTreeSet<(usize, char)>) {
    match t {
        T::Eq(a, _) => {
            out.insert((*a, 'e'));
        }
        T::Cnt(a, _) | T::Stw(a, _) | T::Enw(a, _) => {
            out.insert((*a, 's'));
        }
        T::Pres(a) => {
            out.insert((*a, 'p'));
        }
        T::Lt(a, _) => {
            out.insert((*a, 'o'));
        }
        T::Or(l) | T::And(l) | T::Inc(l) => l.iter().for_each(|x| term_pairs(x, out)),
        T::Not(f) => term_pairs(f, out),
    }
}

/// A NOT that is not a direct child of an AND with a non-NOT sibling (defect D1's shape).
fn has_isolated_not(t: &T, guarded_here: bool) -> bool {
    match t {
        T::Not(f) => !guarded_here || has_isolated_not(f, false),
        T::And(l) => {
            let pos = l.iter().any(|x| !matches!(x, T::Not(_)));
            l.iter().any(|x| has_isolated_not(x, pos))
        }
        T::Or(l) | T::Inc(l) => l.iter().any(|x| has_isolated_not(x, false)),
        _ => false,
    }
}
fn has_empty_needle(t: &T) -> bool {
    match t {
        T::Cnt(_, V::S(s)) | T::Stw(_, V::S(s)) | T::Enw(_, V::S(s)) => s.is_empty(),
        T::Or(l) | T::And(l) | T::Inc(l) => l.iter().any(has_empty_needle),
        T::Not(f) => has_empty_needle(f),
        _ => false,
    }
}
/// `a co ""` / `a sw ""` / `a ew ""` become `a pr` (every string contains the empty string).
fn fill_needles(t: &T) -> T {
    match t {
        T::Cnt(a, V::S(s)) | T::Stw(a, V::S(s)) | T::Enw(a, V::S(s)) if s.is_empty() => T::Pres(*a),
        T::Or(l) => T::Or(l.iter().map(fill_needles).collect()),
        T::And(l) => T::And(l.iter().map(fill_needles).collect()),
        T::Inc(l) => T::Inc(l.iter().map(fill_needles).collect()),
        T::Not(f) => T::Not(Box::new(fill_needles(f))),
        other => other.clone(),
    }
}
/// Every isolated NOT `n` becomes `And[pres class, n]` (same meaning: every entry has a class).
fn guard_nots(t: &T, guarded_here: bool) -> T {
    match t {
        T::Not(f) => {
            let inner = T::Not(Box::new(guard_nots(f, false)));
            if guarded_here {
                inner
            } else {
                T::And(vec![T::Pres(CLASS), inner])
            }
        }
        T::And(l) => {
            let pos = l.iter().any(|x| !matches!(x, T::Not(_)));
            T::And(l.iter().map(|x| guard_nots(x, pos)).collect())
        }
        T::Or(l) => T::Or(l.iter().map(|x| guard_nots(x, false)).collect()),
        T::Inc(l) => T::Inc(l.iter().map(|x| guard_nots(x, false)).collect()),
        other => other.clone(),
    }
}

fn to_fc(t: &T) -> Option<FC> {
    Some(match t {
        T::Eq(a, v) => FC::Eq(attrs()[*a].clone(), pv(*a, v)?),
        T::Cnt(a, v) => FC::Cnt(attrs()[*a].clone(), pv(*a, v)?),
        T::Stw(..) | T::Enw(..) => return None,
        T::Pres(a) => FC::Pres(attrs()[*a].clone()),
        T::Lt(a, v) => FC::LessThan(attrs()[*a].clone(), pv(*a, v)?),
        T::Or(l) => FC::Or(l.iter().map(to_fc).collect::<Option<Vec<_>>>()?),
        T::And(l) => FC::And(l.iter().map(to_fc).collect::<Option<Vec<_>>>()?),
        T::Inc(l) => FC::Inclusion(l.iter().map(to_fc).collect::<Option<Vec<_>>>()?),
        T::Not(f) => FC::AndNot(Box::new(to_fc(f)?)),
    })
}

fn to_scim(t: &T) -> Option<ScimFilter> {
    let path = |a: &usize| AttrPath { a: attrs()[*a].clone(), s: None };
    let sj = |a: &usize, v: &V| -> Option<Json> {
        match (KINDS[*a], v) {
            (AK::U32, _) => None,
            (_, V::S(s)) => Some(json!(str_of(s))),
            _ => None,
        }
    };
    fn fold(l: &[T], and: bool) -> Option<ScimFilter> {
        match l {
            [] => None,
            [x] => to_scim(x),
            [x, rest @ ..] => {
                let a = Box::new(to_scim(x)?);
                let b = Box::new(fold(rest, and)?);
                Some(if and { ScimFilter::And(a, b) } else { ScimFilter::Or(a, b) })
            }
        }
    }
    Some(match t {
        T::Eq(a, v) => ScimFilter::Equal(path(a), sj(a, v)?),
        T::Cnt(a, v) => ScimFilter::Contains(path(a), sj(a, v)?),
        T::Stw(a, v) => ScimFilter::StartsWith(path(a), sj(a, v)?),
        T::Enw(a, v) => ScimFilter::EndsWith(path(a), sj(a, v)?),
        T::Pres(a) => ScimFilter::Present(path(a)),
        T::Or(l) if l.len() >= 2 => fold(l, false)?,
        T::And(l) if l.len() >= 2 => fold(l, true)?,
        T::Not(f) => ScimFilter::Not(Box::new(to_scim(f)?)),
        _ => return None,
    })
}

fn slope_s(s: &Option<std::num::NonZeroU8>) -> String {
    match s {
        Some(n) => n.get().to_string(),
        None => "-".into(),
    }
}

/// the resolved filter as the Lean driver's F s-expression
fn show_fr(f: &FilterResolved) -> String {
    let lst = |l: &Vec<FilterResolved>| l.iter().map(|x| format!(" {}", show_fr(x))).collect::<String>();
    match f {
        FilterResolved::Eq(a, v, s) => format!("(eq {} {} {})", atom(a), show_v(&back(v)), slope_s(s)),
        FilterResolved::Cnt(a, v, s) => format!("(cnt {} {} {})", atom(a), show_v(&back(v)), slope_s(s)),
        FilterResolved::Stw(a, v, s) => format!("(stw {} {} {})", atom(a), show_v(&back(v)), slope_s(s)),
        FilterResolved::Enw(a, v, s) => format!("(enw {} {} {})", atom(a), show_v(&back(v)), slope_s(s)),
        FilterResolved::Pres(a, s) => format!("(pres {} {})", atom(a), slope_s(s)),
        FilterResolved::LessThan(a, v, s) => format!("(lt {} {} {})", atom(a), show_v(&back(v)), slope_s(s)),
        FilterResolved::Or(l, s) => format!("(or {}{})", slope_s(s), lst(l)),
        FilterResolved::And(l, s) => format!("(and {}{})", slope_s(s), lst(l)),
        FilterResolved::Invalid(a) => format!("(inv {})", atom(a)),
        FilterResolved::Inclusion(l, s) => format!("(inc {}{})", slope_s(s), lst(l)),
        FilterResolved::AndNot(f, s) => format!("(not {} {})", slope_s(s), show_fr(f)),
    }
}
fn fr_terms(f: &FilterResolved, idx: &mut u32, unidx: &mut u32) {
    let mut leaf = |s: &Option<std::num::NonZeroU8>| {
        if s.is_some() {
            *idx += 1
        } else {
            *unidx += 1
        }
    };
    match f {
        FilterResolved::Eq(_, _, s)
        | FilterResolved::Cnt(_, _, s)
        | FilterResolved::Stw(_, _, s)
        | FilterResolved::Enw(_, _, s)
        | FilterResolved::LessThan(_, _, s)
        | FilterResolved::Pres(_, s) => leaf(s),
        FilterResolved::Or(l, _) | FilterResolved::And(l, _) | FilterResolved::Inclusion(l, _) => {
            l.iter().for_each(|x| fr_terms(x, idx, unidx))
        }
        FilterResolved::AndNot(f, _) => fr_terms(f, idx, unidx),
        FilterResolved::Invalid(_) => {}
    }
}

// ---------------------------------------------------------------------------------------------
// the oracle's evaluator: ordinary boolean semantics, NOT = complement (property text only)

type PlainEntry = Vec<Vec<V>>;

fn has_sub(x: &[u8], n: &[u8]) -> bool {
    n.is_empty() || x.windows(n.len()).any(|w| w == n)
}

fn plain(t: &T, e: &PlainEntry) -> bool {
    let strs = |a: &usize, v: &V, p: &dyn Fn(&[u8], &[u8]) -> bool| match v {
        V::S(n) => e[*a].iter().any(|x| matches!(x, V::S(x) if p(x, n))),
        _ => false,
    };
    match t {
        T::Eq(a, v) => e[*a].contains(v),
        T::Cnt(a, v) => strs(a, v, &|x, n| has_sub(x, n)),
        T::Stw(a, v) => strs(a, v, &|x, n| x.starts_with(n)),
        T::Enw(a, v) => strs(a, v, &|x, n| x.ends_with(n)),
        T::Pres(a) => !e[*a].is_empty(),
        T::Lt(a, v) => match v {
            V::N(b) => e[*a].iter().any(|x| matches!(x, V::N(x) if x < b)),
            _ => false,
        },
        T::Or(l) => l.iter().any(|x| plain(x, e)),
        T::And(l) => l.iter().all(|x| plain(x, e)),
        T::Inc(_) => false,
        T::Not(f) => !plain(f, e),
    }
}

// ---------------------------------------------------------------------------------------------
// layouts

const PAIRS: [(usize, char); 12] = [
    (CLASS, 'e'),
    (CLASS, 'p'),
    (CLASS, 's'),
    (NAME, 'e'),
    (NAME, 'p'),
    (NAME, 's'),
    (DESC, 'e'),
    (DESC, 's'),
    (GID, 'e'),
    (GID, 'p'),
    (GID, 'o'),
    (DESC, 'p'),
];

fn it_of(c: char) -> IndexType {
    match c {
        'e' => IndexType::Equality,
        's' => IndexType::SubString,
        'p' => IndexType::Presence,
        _ => IndexType::Ordering,
    }
}
fn it_char(t: &IndexType) -> char {
    match t {
        IndexType::Equality => 'e',
        IndexType::SubString => 's',
        IndexType::Presence => 'p',
        IndexType::Ordering => 'o',
    }
}
fn layout_of_mask(mask: u32) -> Vec<(usize, char)> {
    PAIRS.iter().enumerate().filter(|(i, _)| mask & (1 << i) != 0).map(|(_, p)| *p).collect()
}
fn layout_text(l: &[(usize, char)]) -> String {
    if l.is_empty() {
        "-".into()
    } else {
        l.iter().map(|(a, c)| format!("{a}:{c}")).collect::<Vec<_>>().join(",")
    }
}
fn parse_layout(s: &str) -> Vec<(usize, char)> {
    if s == "-" || s.is_empty() {
        return vec![];
    }
    s.split(',')
        .map(|it| {
            let p: Vec<&str> = it.split(':').collect();
            (p[0].parse().unwrap(), p[1].chars().next().unwrap())
        })
        .collect()
}
fn real_layout(l: &[(usize, char)]) -> Vec<(Attribute, IndexType)> {
    l.iter().map(|(a, c)| (attrs()[*a].clone(), it_of(*c))).collect()
}

// ---------------------------------------------------------------------------------------------
// databases

#[derive(Clone, Debug)]
struct Db {
    plain: Vec<PlainEntry>,
}

fn db_text(db: &Db) -> String {
    db.plain
        .iter()
        .map(|e| {
            let parts: Vec<String> = (0..4)
                .filter(|a| !e[*a].is_empty())
                .map(|a| format!("{a}={}", e[a].iter().map(show_v).collect::<Vec<_>>().join("+")))
                .collect();
            if parts.is_empty() {
                "-".into()
            } else {
                parts.join(",")
            }
        })
        .collect::<Vec<_>>()
        .join(";")
}
fn parse_db(s: &str) -> Db {
    let plain = s
        .split(';')
        .map(|e| {
            let mut p: PlainEntry = vec![vec![]; 4];
            if e != "-" {
                for item in e.split(',') {
                    let (a, vs) = item.split_once('=').unwrap();
                    p[a.parse::<usize>().unwrap()] = vs.split('+').map(parse_v).collect();
                }
            }
            p
        })
        .collect();
    Db { plain }
}

const BASE_CLASSES: [&str; 2] = ["object", "extensibleobject"];
const EXTRA_CLASSES: [&str; 3] = ["memberof", "system", "builtin"];
const NAMES: [&str; 11] = ["vpabcx", "vpzzzz", "vpabcd", "abcdab", "xabcdx", "bcd", "ab", "vp_ga", "vp_gb", "vp_gc", "zabcd"];
const DESCS: [&str; 6] = ["vp", "abcd efgh", "xxabcyy", "abc", "zz", "vp abcd"];
const GIDS: [u64; 6] = [1000, 2500, 3000, 4000, 1, 7];

/// the fixed database: the D1 / D13 corpus witnesses plus > FILTER_SUBSTR_TEST_THRESHOLD entries
/// sharing a trigraph
fn fixed_db() -> Db {
    let e = |cl: &[&str], name: Option<&str>, desc: Option<&str>, gid: Option<u64>| -> PlainEntry {
        let mut c: Vec<V> = BASE_CLASSES.iter().map(|s| sv(s)).collect();
        c.extend(cl.iter().map(|s| sv(s)));
        vec![c, name.map(sv).into_iter().collect(), desc.map(sv).into_iter().collect(), gid.map(V::N).into_iter().collect()]
    };
    Db {
        plain: vec![
            e(&["memberof"], Some("vpabcx"), Some("vp"), Some(3000)),
            e(&["memberof"], Some("vpzzzz"), Some("vp"), Some(4000)),
            e(&["system"], Some("vpabcd"), Some("abcd efgh"), Some(1000)),
            e(&[], Some("abcdab"), Some("xxabcyy"), None),
            e(&["memberof", "system"], Some("xabcdx"), None, Some(2500)),
            e(&[], Some("bcd"), Some("abc"), Some(7)),
            e(&["builtin"], Some("vp_ga"), Some("vp"), None),
            e(&["builtin"], Some("vp_gb"), Some("vp"), Some(1)),
            e(&[], Some("vp_gc"), Some("vp"), None),
            e(&["system"], None, Some("vp abcd"), None),
            e(&[], Some("zabcd"), Some("abcd"), Some(2500)),
        ],
    }
}

fn random_db(r: &mut Rng) -> Db {
    let n = r.range(1, 12) as usize;
    let mut plain = vec![];
    for _ in 0..n {
        let mut c: Vec<V> = BASE_CLASSES.iter().map(|s| sv(s)).collect();
        for x in EXTRA_CLASSES {
            if r.chance(1, 3) {
                c.push(sv(x));
            }
        }
        let name = if r.chance(4, 5) { vec![sv(r.pick(&NAMES))] } else { vec![] };
        let desc = if r.chance(2, 3) { vec![sv(r.pick(&DESCS))] } else { vec![] };
        let gid = if r.chance(1, 2) { vec![V::N(*r.pick(&GIDS))] } else { vec![] };
        plain.push(vec![c, name, desc, gid]);
    }
    Db { plain }
}

fn real_entry(p: &PlainEntry, n: usize) -> Entry<EntryInit, EntryNew> {
    let mut e: Entry<EntryInit, EntryNew> = Entry::new();
    e.add_ava(Attribute::Uuid, Value::Uuid(nat_uuid(1000 + n as u64)));
    for a in 0..4 {
        for v in &p[a] {
            e.add_ava(attrs()[a].clone(), value(a, v));
        }
    }
    e
}


/// one-step simplifications of a tree
fn shrinks(t: &T) -> Vec<T> {
    let mut out = vec![];
    match t {
        T::Or(l) | T::And(l) | T::Inc(l) => {
            let mk = |v: Vec<T>| match t {
                T::Or(_) => T::Or(v),
                T::And(_) => T::And(v),
                _ => T::Inc(v),
            };
            for c in l {
                out.push(c.clone());
            }
            if l.len() > 1 {
                for i in 0..l.len() {
                    let mut v = l.clone();
                    v.remove(i);
                    out.push(mk(v));
                }
            }
            for i in 0..l.len() {
                for s in shrinks(&l[i]) {
                    let mut v = l.clone();
                    v[i] = s;
                    out.push(mk(v));
                }
            }
        }
        T::Not(f) => {
            out.push((**f).clone());
            for s in shrinks(f) {
                out.push(T::Not(Box::new(s)));
            }
        }
        _ => {}
    }
    out
}

// ---------------------------------------------------------------------------------------------
// generators

fn leaf_alphabet(scim: bool) -> Vec<T> {
    let mut l = vec![
        T::Eq(CLASS, sv("memberof")),
        T::Eq(CLASS, sv("system")),
        T::Eq(CLASS, sv("builtin")),
        T::Eq(CLASS, sv("object")),
        T::Eq(CLASS, sv("nosuchclass")),
        T::Eq(NAME, sv("vp_ga")),
        T::Eq(NAME, sv("vp_gb")),
        T::Eq(NAME, sv("vpabcd")),
        T::Eq(NAME, sv("nobody")),
        T::Eq(DESC, sv("vp")),
        T::Eq(DESC, sv("abc")),
        T::Pres(CLASS),
        T::Pres(NAME),
        T::Pres(DESC),
        T::Pres(GID),
        T::Cnt(NAME, sv("abcd")),
        T::Cnt(NAME, sv("abc")),
        T::Cnt(NAME, sv("bc")),
        T::Cnt(NAME, sv("b")),
        T::Cnt(NAME, sv("vp_g")),
        T::Cnt(NAME, sv("qqq")),
        T::Cnt(DESC, sv("abcd")),
        T::Cnt(DESC, sv("vp")),
        T::Cnt(DESC, sv(" ")),
        T::Cnt(CLASS, sv("member")),
        T::Cnt(CLASS, sv("object")),
        T::Cnt(NAME, sv("")),
        T::Cnt(DESC, sv("")),
    ];
    if scim {
        l.extend([
            T::Stw(NAME, sv("vpab")),
            T::Stw(NAME, sv("abc")),
            T::Stw(DESC, sv("vp")),
            T::Enw(NAME, sv("bcd")),
            T::Enw(NAME, sv("x")),
            T::Enw(DESC, sv("abcd")),
            T::Stw(CLASS, sv("ext")),
        ]);
    } else {
        l.extend([
            T::Eq(GID, V::N(3000)),
            T::Eq(GID, V::N(5)),
            T::Lt(GID, V::N(2500)),
            T::Lt(GID, V::N(2501)),
            T::Lt(GID, V::N(1)),
            T::Lt(GID, V::N(5000)),
            T::Lt(GID, V::N(8)),
        ]);
    }
    l
}

fn random_tree(r: &mut Rng, leaves: &[T], depth: usize, maxw: usize, inc: bool) -> T {
    if depth <= 1 || r.chance(1, 4) {
        return r.pick(leaves).clone();
    }
    match r.below(if inc { 11 } else { 10 }) {
        0..=3 => {
            // an AND that usually has a positive term and some NOTs (the guarded shape)
            let wd = r.range(1, maxw as u64) as usize;
            let mut l: Vec<T> = (0..wd).map(|_| random_tree(r, leaves, depth - 1, maxw, inc)).collect();
            let nn = r.below(3) as usize;
            for _ in 0..nn {
                l.push(T::Not(Box::new(random_tree(r, leaves, depth - 1, maxw, inc))));
            }
            r.shuffle(&mut l);
            T::And(l)
        }
        4..=6 => {
            let wd = r.range(1, maxw as u64) as usize;
            T::Or((0..wd).map(|_| random_tree(r, leaves, depth - 1, maxw, inc)).collect())
        }
        7 | 8 => {
            let wd = r.range(1, maxw as u64) as usize;
            T::And((0..wd).map(|_| random_tree(r, leaves, depth - 1, maxw, inc)).collect())
        }
        9 => T::Not(Box::new(random_tree(r, leaves, depth - 1, maxw, inc))),
        _ => {
            let wd = r.range(1, maxw as u64) as usize;
            T::Inc((0..wd).map(|_| r.pick(leaves).clone()).collect())
        }
    }
}

fn random_lims(r: &mut Rng) -> (bool, usize, usize) {
    match r.below(10) {
        0 => (false, 1 << 40, 1 << 40),
        1 => (true, r.range(0, 4) as usize, 1 << 40),
        2 => (true, 1 << 40, r.range(0, 4) as usize),
        3 => (false, r.range(1, 6) as usize, r.range(1, 6) as usize),
        _ => (true, 1 << 40, 1 << 40),
    }
}

fn random_foreign(r: &mut Rng) -> String {
    let slopes: [u8; 7] = [0, 1, 2, 5, 90, 200, 255];
    let mut l = vec![];
    for (a, c) in PAIRS {
        if r.chance(1, 2) {
            l.push(format!("{a}:{c}:{}", r.pick(&slopes)));
        }
    }
    if l.is_empty() {
        "-".into()
    } else {
        l.join(",")
    }
}

/// exhaustive small scope: every tree of depth <= 2 over `leaves` (plus their negations as AND/OR
/// children) with width <= `maxw`, plus top-level leaf / NOT leaf
fn small_scope(leaves: &[T], maxw: usize) -> Vec<T> {
    let mut kids: Vec<T> = leaves.to_vec();
    kids.extend(leaves.iter().map(|l| T::Not(Box::new(l.clone()))));
    let mut out: Vec<T> = kids.clone();
    let mut seqs: Vec<Vec<T>> = kids.iter().map(|k| vec![k.clone()]).collect();
    let mut all_seqs = seqs.clone();
    for _ in 1..maxw {
        let mut next = vec![];
        for s in &seqs {
            for k in &kids {
                let mut v = s.clone();
                v.push(k.clone());
                next.push(v);
            }
        }
        all_seqs.extend(next.iter().cloned());
        seqs = next;
    }
    for s in all_seqs {
        out.push(T::And(s.clone()));
        out.push(T::Or(s));
    }
    out
}

/// the corpus: D13 witnesses (repaired: must pass) and D1 witnesses (known finding)
fn corpus() -> Vec<T> {
    let n = |t: T| T::Not(Box::new(t));
    vec![
        // D13 (fixed by 3e8bc43): AND NOT of an ordering / substring term
        T::And(vec![T::Eq(CLASS, sv("memberof")), n(T::Lt(GID, V::N(2500)))]),
        T::And(vec![T::Eq(CLASS, sv("memberof")), n(T::Cnt(NAME, sv("abcd")))]),
        T::And(vec![T::Eq(CLASS, sv("system")), n(T::Cnt(NAME, sv("abcd")))]),
        T::And(vec![T::Pres(NAME), n(T::Lt(GID, V::N(2500))), n(T::Cnt(NAME, sv("abc")))]),
        T::And(vec![T::Cnt(NAME, sv("abc")), n(T::Cnt(NAME, sv("abcd")))]),
        // D1 (known): NOT under OR, AND of only NOTs, top-level NOT
        T::And(vec![T::Eq(DESC, sv("vp")), T::Or(vec![T::Eq(NAME, sv("vp_ga")), n(T::Eq(NAME, sv("vp_gb")))])]),
        T::And(vec![n(T::Eq(NAME, sv("vp_ga"))), n(T::Eq(CLASS, sv("system")))]),
        n(T::Eq(NAME, sv("vp_ga"))),
        T::Or(vec![T::Eq(NAME, sv("vp_ga")), n(T::Eq(NAME, sv("vp_gb")))]),
    ]
}

