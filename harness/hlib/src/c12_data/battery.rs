// C12 — "identical behaviour" battery, shared by the bins `c12` and `c12srv`
// (`#[path = "../c12_data/battery.rs"] mod battery;`).
//
// The property says a stored / replicated value reads back "as an equivalent value with identical
// behaviour". `equal`, the stored JSON, the strings and the index keys only look at what the
// encoder writes. A value set struct may carry fields the encoder does NOT write — caches,
// pre-filters, a designated primary, anything derived — and a decoder that forgets to rebuild one
// yields a value that compares equal, re-serialises identically, and still answers differently.
//
// So the oracle asks both values the same questions, generically for every `ValueSetT` struct:
// every method of the trait that needs no transaction is called on the original and on the
// reloaded value with arguments derived from the ORIGINAL only (its partial values, every uuid that
// occurs anywhere in it — `as_ref_uuid_iter`, index keys, the stored JSON —, neighbours of its
// strings / numbers / times / cids, the elements of a second generated set of the same struct), and
// every answer must be the same. Mutating methods run on clones; the resulting sets are compared
// by struct name, size and canonical stored JSON. A method that panics (`unreachable!`,
// `debug_assert!(false)` in a default body) answers "<panic>" — equal iff both panic.
//
// Nothing here knows a struct by name: a new struct, or a new derived field in an old one, is
// covered without touching this file.
use super::{canon, guard, struct_name};
use kanidmd_lib::prelude::*;
use kanidmd_lib::schema::SchemaAttribute;
use kanidmd_lib::valueset::{ScimResolveStatus, ScimValueIntermediate, ValueSet};
use kanidmd_lib::verif_hooks::c12 as hk;
use serde_json::Value as J;
use std::collections::BTreeSet;

/// One question and its canonical answer: (method, argument, answer).
pub type Answer = (String, String, String);

const PANIC: &str = "<panic>";

/// Canonical form of a `{:?}` rendering: the children of every `{ … }` group (hash sets, hash
/// maps, struct fields) are sorted, `[ … ]` and `( … )` keep their order. Hash-backed collections
/// iterate in an order that differs between two equal values; everything else is data.
pub fn canon_debug(s: &str) -> String {
    canon_debug_with(s, false)
}

/// The same with EVERY group sorted (`[ … ]`, `( … )` too) and the top level as well: two renderings
/// that are equal under this form differ in order only.
pub fn unordered(s: &str) -> String {
    canon_debug_with(s, true)
}

fn canon_debug_with(s: &str, all: bool) -> String {
    fn seq(b: &[char], mut i: usize, close: Option<char>, all: bool) -> Option<(Vec<String>, usize)> {
        let mut items = vec![];
        let mut cur = String::new();
        while i < b.len() {
            let c = b[i];
            match c {
                '"' => {
                    cur.push(c);
                    i += 1;
                    while i < b.len() {
                        cur.push(b[i]);
                        if b[i] == '\\' && i + 1 < b.len() {
                            cur.push(b[i + 1]);
                            i += 2;
                            continue;
                        }
                        if b[i] == '"' {
                            break;
                        }
                        i += 1;
                    }
                    i += 1;
                }
                '(' | '[' | '{' => {
                    let cl = match c {
                        '(' => ')',
                        '[' => ']',
                        _ => '}',
                    };
                    let (mut kids, j) = seq(b, i + 1, Some(cl), all)?;
                    if c == '{' || all {
                        kids.sort();
                    }
                    cur.push(c);
                    cur.push_str(&kids.join(", "));
                    cur.push(cl);
                    i = j + 1;
                }
                ')' | ']' | '}' => {
                    if Some(c) != close {
                        return None;
                    }
                    if !cur.trim().is_empty() {
                        items.push(cur.trim().to_string());
                    }
                    return Some((items, i));
                }
                ',' => {
                    items.push(cur.trim().to_string());
                    cur = String::new();
                    i += 1;
                }
                _ => {
                    cur.push(c);
                    i += 1;
                }
            }
        }
        if close.is_some() {
            return None;
        }
        if !cur.trim().is_empty() {
            items.push(cur.trim().to_string());
        }
        Some((items, i))
    }
    let chars: Vec<char> = s.chars().collect();
    match seq(&chars, 0, None, all) {
        Some((mut items, _)) => {
            if all {
                items.sort();
            }
            items.join(", ")
        }
        None => s.to_string(),
    }
}

fn dbg<T: std::fmt::Debug>(t: &T) -> String {
    canon_debug(&format!("{t:?}"))
}

/// A value set as data: struct, size, canonical stored JSON.
pub fn vs_canon(vs: &ValueSet) -> String {
    let j: J = hk::vs_to_db_json(vs).ok().and_then(|s| serde_json::from_str(&s).ok()).unwrap_or(J::Null);
    format!("{} len={} {}", struct_name(vs), vs.len(), canon(&j))
}

/// The arguments of the battery, all derived from the original value (and a second set).
pub struct ProbeArgs {
    pub pvs: Vec<PartialValue>,
    pub values: Vec<Value>,
    pub fresh: Vec<Value>,
    pub cids: Vec<Cid>,
    pub tags: Vec<String>,
    pub other: ValueSet,
}

fn json_strings(j: &J, out: &mut Vec<String>) {
    match j {
        J::String(s) => out.push(s.clone()),
        J::Array(a) => a.iter().for_each(|x| json_strings(x, out)),
        J::Object(o) => o.iter().for_each(|(k, v)| {
            out.push(k.clone());
            json_strings(v, out)
        }),
        _ => {}
    }
}

/// Every `{"secs": n, "nanos": m}` (a stored `Duration`), paired with a sibling uuid if there is one.
fn json_cids(j: &J, out: &mut Vec<Cid>) {
    match j {
        J::Array(a) => a.iter().for_each(|x| json_cids(x, out)),
        J::Object(o) => {
            for v in o.values() {
                if let (Some(secs), Some(nanos)) = (v.get("secs").and_then(|x| x.as_u64()), v.get("nanos").and_then(|x| x.as_u64())) {
                    let s_uuid = o.values().filter_map(|x| x.as_str()).filter_map(|s| Uuid::parse_str(s).ok()).next().unwrap_or(Uuid::nil());
                    out.push(Cid { ts: Duration::new(secs, nanos as u32), s_uuid });
                }
            }
            o.values().for_each(|x| json_cids(x, out));
        }
        _ => {}
    }
}

fn cut(s: &str, from: usize, to: usize) -> String {
    s.chars().skip(from).take(to.saturating_sub(from)).collect()
}

/// Neighbours of a partial value: the same constructor around the comparisons a value set makes
/// (prefix / suffix / infix / one more character; ±1 for numbers, times and change ids).
fn neighbours(pv: &PartialValue) -> Vec<PartialValue> {
    use PartialValue as P;
    let strs = |s: &str, f: &dyn Fn(String) -> PartialValue| -> Vec<PartialValue> {
        let n = s.chars().count();
        let mut v = vec![f(format!("{s}x")), f(s.to_uppercase())];
        if n >= 2 {
            v.push(f(cut(s, 0, n / 2)));
            v.push(f(cut(s, n / 2, n)));
        }
        if n >= 3 {
            v.push(f(cut(s, 1, n - 1)));
        }
        v
    };
    match pv {
        P::Utf8(s) => strs(s, &P::Utf8),
        P::Iutf8(s) => strs(s, &P::Iutf8),
        P::Iname(s) => strs(s, &P::Iname),
        P::Cred(s) => strs(s, &P::Cred),
        P::SshKey(s) => strs(s, &P::SshKey),
        P::Nsuniqueid(s) => strs(s, &P::Nsuniqueid),
        P::EmailAddress(s) => strs(s, &P::EmailAddress),
        P::PhoneNumber(s) => strs(s, &P::PhoneNumber),
        P::Address(s) => strs(s, &P::Address),
        P::OauthScope(s) => strs(s, &P::OauthScope),
        P::PublicBinary(s) => strs(s, &P::PublicBinary),
        P::RestrictedString(s) => strs(s, &P::RestrictedString),
        P::IntentToken(s) => strs(s, &P::IntentToken),
        P::Image(s) => strs(s, &P::Image),
        P::HexString(s) => strs(s, &P::HexString),
        P::Spn(a, b) => vec![P::Spn(a.clone(), format!("{b}x")), P::Spn(format!("{a}x"), b.clone()), P::Spn(b.clone(), a.clone())],
        P::OauthClaim(s, u) => vec![P::OauthClaim(format!("{s}x"), *u), P::OauthClaim(s.clone(), Uuid::nil())],
        P::OauthClaimValue(s, u, v) => vec![P::OauthClaimValue(s.clone(), *u, format!("{v}x")), P::OauthClaimValue(format!("{s}x"), *u, v.clone()), P::OauthClaim(s.clone(), *u)],
        P::Bool(b) => vec![P::Bool(!b)],
        P::Uint32(n) => vec![P::Uint32(n.wrapping_add(1)), P::Uint32(n.wrapping_sub(1))],
        P::Int64(n) => vec![P::Int64(n.wrapping_add(1)), P::Int64(n.wrapping_sub(1))],
        P::Uint64(n) => vec![P::Uint64(n.wrapping_add(1)), P::Uint64(n.wrapping_sub(1))],
        P::DateTime(t) => [time::Duration::nanoseconds(1), time::Duration::nanoseconds(-1), time::Duration::seconds(1)]
            .iter()
            .filter_map(|d| t.checked_add(*d))
            .map(P::DateTime)
            .collect(),
        P::Cid(c) => vec![
            P::Cid(Cid { ts: c.ts.saturating_add(Duration::from_nanos(1)), s_uuid: c.s_uuid }),
            P::Cid(Cid { ts: c.ts.saturating_sub(Duration::from_nanos(1)), s_uuid: c.s_uuid }),
            P::Cid(Cid { ts: c.ts, s_uuid: Uuid::nil() }),
        ],
        P::Uuid(u) => vec![P::Refer(*u)],
        P::Refer(u) => vec![P::Uuid(*u)],
        P::Passkey(u) => vec![P::AttestedPasskey(*u), P::Refer(*u)],
        P::AttestedPasskey(u) => vec![P::Passkey(*u), P::Refer(*u)],
        _ => vec![],
    }
}

const MAX_PVS: usize = 48;

impl ProbeArgs {
    /// `orig`: the value before it was stored; `other`: a second set (ideally of the same struct).
    pub fn derive(orig: &ValueSet, other: &ValueSet) -> ProbeArgs {
        let mut pvs: Vec<PartialValue> = guard(|| orig.to_partialvalue_iter().collect()).unwrap_or_default();
        let stored: J = guard(|| hk::vs_to_db_json(orig).ok().and_then(|s| serde_json::from_str(&s).ok())).flatten().unwrap_or(J::Null);
        // every uuid that occurs anywhere in the value: what it refers to, what it is keyed by,
        // what it is indexed under, what it stores
        let mut uuids: Vec<Uuid> = guard(|| orig.as_ref_uuid_iter().map(|i| i.collect::<Vec<_>>())).flatten().unwrap_or_default();
        let mut strings = vec![];
        json_strings(&stored, &mut strings);
        strings.extend(guard(|| orig.generate_idx_eq_keys()).unwrap_or_default());
        uuids.extend(strings.iter().filter(|s| s.len() == 36).filter_map(|s| Uuid::parse_str(s).ok()));
        let mut seen = BTreeSet::new();
        uuids.retain(|u| seen.insert(*u));
        uuids.truncate(8);
        // unions / intersections of them: what a bit-mask pre-filter cannot tell from a member
        let mut derived = vec![];
        for w in uuids.windows(2) {
            derived.push(Uuid::from_u128(w[0].as_u128() | w[1].as_u128()));
            derived.push(Uuid::from_u128(w[0].as_u128() & w[1].as_u128()));
        }
        derived.push(Uuid::nil());
        derived.push(Uuid::from_u128(u128::MAX));
        derived.push(Uuid::from_u128(0x1000_0000_0000_4000_8000_0000_0000_270f));
        let from_values: Vec<PartialValue> = pvs.iter().flat_map(neighbours).collect();
        for u in uuids.iter().chain(derived.iter()) {
            pvs.push(PartialValue::Refer(*u));
            pvs.push(PartialValue::Uuid(*u));
        }
        pvs.extend(from_values);
        pvs.extend([PartialValue::SecretValue, PartialValue::PrivateBinary, PartialValue::Json, PartialValue::Utf8("absent".into()), PartialValue::Iutf8("absent".into())]);
        // one partial value of each element of the second set (absent, or present by coincidence)
        pvs.extend(guard(|| other.to_partialvalue_iter().take(2).collect::<Vec<_>>()).unwrap_or_default());
        let mut seen = BTreeSet::new();
        pvs.retain(|p| seen.insert(format!("{p:?}")));
        pvs.truncate(MAX_PVS);

        let mut values: Vec<Value> = guard(|| orig.to_value_iter().collect()).unwrap_or_default();
        values.truncate(3);
        let mut fresh: Vec<Value> = guard(|| other.to_value_iter().collect()).unwrap_or_default();
        fresh.truncate(3);

        // change ids: fixed ones, every one stored in the value, and the next instant after each
        // (`trim` and the session merges compare with `<`)
        let mut cids = vec![
            Cid { ts: Duration::from_secs(50_000), s_uuid: Uuid::from_u128(0x1000_0000_0000_4000_8000_0000_0000_0019) },
            Cid { ts: Duration::ZERO, s_uuid: Uuid::nil() },
            Cid { ts: Duration::new(u32::MAX as u64 * 2, 999_999_999), s_uuid: Uuid::from_u128(u128::MAX) },
        ];
        let mut found = vec![];
        json_cids(&stored, &mut found);
        for p in &pvs {
            if let PartialValue::Cid(c) = p {
                found.push(c.clone());
            }
        }
        found.truncate(3);
        for c in found {
            cids.push(Cid { ts: c.ts.saturating_add(Duration::from_nanos(1)), s_uuid: c.s_uuid });
            cids.push(c);
        }
        let mut seen = BTreeSet::new();
        cids.retain(|c| seen.insert(format!("{c:?}")));

        let mut tags: Vec<String> = pvs
            .iter()
            .filter_map(|p| match p {
                PartialValue::SshKey(t) | PartialValue::Cred(t) | PartialValue::Utf8(t) => Some(t.clone()),
                _ => None,
            })
            .collect();
        tags.truncate(6);
        ProbeArgs { pvs, values, fresh, cids, tags, other: other.clone() }
    }
}

fn scim(vs: &ValueSet) -> String {
    match vs.to_scim_value() {
        None => "None".into(),
        Some(ScimResolveStatus::Resolved(v)) => match serde_json::to_value(&v) {
            Ok(j) => format!("resolved {}", canon(&j)),
            Err(e) => format!("resolved, not serialisable: {e}"),
        },
        Some(ScimResolveStatus::NeedsResolution(i)) => match i {
            ScimValueIntermediate::References(mut u) => {
                u.sort();
                format!("references {u:?}")
            }
            ScimValueIntermediate::Oauth2ClaimMap(m) => {
                let mut v: Vec<String> = m.iter().map(|c| format!("{} {} {} {:?}", c.group_uuid, c.claim, dbg(&c.join_char), c.values)).collect();
                v.sort();
                format!("claimmap {v:?}")
            }
            ScimValueIntermediate::Oauth2ScopeMap(m) => {
                let mut v: Vec<String> = m.iter().map(|c| format!("{} {:?}", c.group_uuid, c.scopes)).collect();
                v.sort();
                format!("scopemap {v:?}")
            }
        },
    }
}

fn short(s: &str) -> String {
    if s.chars().count() > 240 {
        format!("{}…", s.chars().take(240).collect::<String>())
    } else {
        s.to_string()
    }
}

fn sorted(mut v: Vec<String>) -> String {
    v.sort();
    format!("{v:?}")
}

/// A cheaper rendering of a set after a mutation: size + sorted strings (no stored form).
fn vs_brief(vs: &ValueSet) -> String {
    format!("len={} {}", vs.len(), sorted(vs.to_proto_string_clone_iter().collect()))
}

/// The first `FULL_REMOVE` partial values get the mutated set compared by its stored form,
/// the rest by size and strings.
const FULL_REMOVE: usize = 14;

/// Ask `x` everything. `args` come from the original, never from `x`. With `only = Some(k)` just
/// question number `k` is evaluated (the others answer ""), to re-ask one question cheaply.
pub fn battery(x: &ValueSet, args: &ProbeArgs, only: Option<usize>) -> Vec<Answer> {
    let mut out: Vec<Answer> = Vec::with_capacity(400);
    fn put_impl(out: &mut Vec<Answer>, only: Option<usize>, m: &str, a: String, f: &mut dyn FnMut() -> String) {
        let r = if only.is_none() || only == Some(out.len()) { guard(f).unwrap_or_else(|| PANIC.to_string()) } else { String::new() };
        out.push((m.to_string(), a, r));
    }
    macro_rules! put {
        ($m:expr, $a:expr, $f:expr) => {
            put_impl(&mut out, only, $m, $a, &mut || $f)
        };
    }
    let other = &args.other;
    let c0 = &args.cids[0];

    // ---- plain observers
    put!("len", String::new(), format!("{} {}", x.len(), x.is_empty()));
    put!("syntax", String::new(), format!("{:?}", x.syntax()));
    put!("generate_idx_eq_keys", String::new(), sorted(x.generate_idx_eq_keys()));
    put!("generate_idx_sub_keys", String::new(), sorted(x.generate_idx_sub_keys()));
    put!("generate_idx_ord_keys", String::new(), sorted(x.generate_idx_ord_keys()));
    put!("to_proto_string_clone_iter", String::new(), sorted(x.to_proto_string_clone_iter().collect()));
    put!("to_partialvalue_iter", String::new(), sorted(x.to_partialvalue_iter().map(|p| dbg(&p)).collect()));
    put!("to_value_iter", String::new(), sorted(x.to_value_iter().map(|v| dbg(&v)).collect()));
    put!("to_db_valueset_v2", String::new(), vs_canon(x));
    put!("to_scim_value", String::new(), scim(x));
    put!("migrate_iutf8_iname", String::new(), match x.migrate_iutf8_iname() {
        Ok(Some(v)) => format!("Ok(Some({}))", vs_canon(&v)),
        Ok(None) => "Ok(None)".into(),
        Err(e) => format!("Err({e:?})"),
    });
    for multivalue in [true, false] {
        put!("validate", format!("multivalue={multivalue}"), {
            let sa = SchemaAttribute { multivalue, syntax: x.syntax(), ..Default::default() };
            x.validate(&sa).to_string()
        });
    }
    for y in [x, other] {
        let l = if std::ptr::eq(y, x) { "itself" } else { "second set" };
        put!("equal", l.into(), x.equal(y).to_string());
        put!("equal (as argument)", l.into(), y.equal(x).to_string());
        put!("cmp", l.into(), format!("{:?}", x.cmp(y)));
        put!("cmp (as argument)", l.into(), format!("{:?}", y.cmp(x)));
    }
    for t in &args.tags {
        put!("get_ssh_tag", t.clone(), dbg(&x.get_ssh_tag(t)));
    }

    // ---- typed views (every `as_*` / `to_*_single` of the trait)
    macro_rules! view {
        ($($m:ident),* $(,)?) => { $( put!(stringify!($m), String::new(), dbg(&x.$m())); )* };
    }
    macro_rules! view_iter {
        ($($m:ident),* $(,)?) => { $( put!(stringify!($m), String::new(), dbg(&x.$m().map(|i| i.collect::<Vec<_>>()))); )* };
    }
    view_iter!(
        as_ref_uuid_iter, as_utf8_iter, as_iutf8_iter, as_iname_iter, as_indextype_iter, as_restricted_string_iter,
        as_oauthscope_iter, as_sshpubkey_string_iter, as_email_str_iter, as_uihint_iter,
    );
    view!(
        as_utf8_set, as_iutf8_set, as_iname_set, as_uuid_set, as_refer_set, as_bool_set, as_uint32_set, as_int64_set,
        as_uint64_set, as_syntax_set, as_index_set, as_secret_set, as_restricted_string_set, as_spn_set, as_cid_set,
        as_json_filter_set, as_nsuniqueid_set, as_url_set, as_datetime_set, as_private_binary_set, as_oauthscope_set,
        as_address_set, as_credential_map, as_totp_map, as_emailaddress_set, as_sshkey_map, as_oauthscopemap,
        as_publicbinary_map, as_intenttoken_map, as_passkey_map, as_attestedpasskey_map, as_webauthn_attestation_ca_list,
        as_oauthclaim_map, as_key_internal_map, as_hexstring_set, as_application_password_map, to_value_single,
        to_proto_string_single, to_uuid_single, to_cid_single, to_refer_single, to_bool_single, to_uint32_single,
        to_int64_single, to_uint64_single, to_syntaxtype_single, to_credential_single, to_secret_single,
        to_restricted_string_single, to_utf8_single, to_iutf8_single, to_iname_single, to_datetime_single, to_url_single,
        to_json_filter_single, to_email_address_primary_str, to_private_binary_single, to_passkey_single, as_session_map,
        as_apitoken_map, as_oauth2session_map, to_jws_key_es256_single, as_jws_key_es256_set, to_jws_key_rs256_single,
        as_jws_key_rs256_set, as_uihint_set, as_audit_log_string, as_imageset, to_credentialtype_single,
        as_credentialtype_set, to_certificate_single, as_certificate_set, as_json_object, as_message, as_s256_set,
    );
    put!("as_refer_set_mut", String::new(), { let mut c = x.clone(); dbg(&c.as_refer_set_mut()) });
    put!("as_s256_set_mut", String::new(), { let mut c = x.clone(); dbg(&c.as_s256_set_mut()) });

    // ---- queries by partial value
    for (k, pv) in args.pvs.iter().enumerate() {
        let a = format!("{pv:?}");
        put!("contains", a.clone(), x.contains(pv).to_string());
        put!("substring", a.clone(), x.substring(pv).to_string());
        put!("startswith", a.clone(), x.startswith(pv).to_string());
        put!("endswith", a.clone(), x.endswith(pv).to_string());
        put!("lessthan", a.clone(), x.lessthan(pv).to_string());
        put!("remove", format!("{a} at {c0:?}"), {
            let mut c = x.clone();
            let r = c.remove(pv, c0);
            format!("{r} -> {}", if k < FULL_REMOVE { vs_canon(&c) } else { vs_brief(&c) })
        });
    }

    // ---- mutators, on clones
    put!("clear", String::new(), {
        let mut c = x.clone();
        c.clear();
        vs_canon(&c)
    });
    for cid in &args.cids {
        put!("purge", format!("{cid:?}"), {
            let mut c = x.clone();
            let r = c.purge(cid);
            format!("{r} -> {}", vs_canon(&c))
        });
        put!("trim", format!("{cid:?}"), {
            let mut c = x.clone();
            c.trim(cid);
            vs_canon(&c)
        });
        // the merged set as data, and what a later consumer sees of it: every query again
        put!("repl_merge_valueset", format!("older = second set, trim {cid:?}"), match x.repl_merge_valueset(other, cid) {
            Some(v) => format!("Some({}) contains={}", vs_canon(&v), args.pvs.iter().map(|p| if v.contains(p) { '1' } else { '0' }).collect::<String>()),
            None => "None".into(),
        });
        put!("repl_merge_valueset (as older)", format!("newer = second set, trim {cid:?}"), match other.repl_merge_valueset(x, cid) {
            Some(v) => format!("Some({}) contains={}", vs_canon(&v), args.pvs.iter().map(|p| if v.contains(p) { '1' } else { '0' }).collect::<String>()),
            None => "None".into(),
        });
    }
    for (kind, vals) in [("present value", &args.values), ("value of the second set", &args.fresh)] {
        for v in vals.iter() {
            put!("insert_checked", format!("{kind} {}", short(&dbg(v))), {
                let mut c = x.clone();
                let r = c.insert_checked(v.clone());
                format!("{r:?} -> {}", vs_canon(&c))
            });
        }
    }
    put!("merge", "a clone of itself".into(), {
        let mut c = x.clone();
        let r = c.merge(&x.clone());
        format!("{r:?} -> {}", vs_canon(&c))
    });
    put!("merge", "second set".into(), {
        let mut c = x.clone();
        let r = c.merge(other);
        let q: String = args.pvs.iter().map(|p| if c.contains(p) { '1' } else { '0' }).collect();
        format!("{r:?} -> {} contains={q}", vs_canon(&c))
    });
    put!("merge (as argument)", "into second set".into(), {
        let mut c = other.clone();
        let r = c.merge(x);
        let q: String = args.pvs.iter().map(|p| if c.contains(p) { '1' } else { '0' }).collect();
        format!("{r:?} -> {} contains={q}", vs_canon(&c))
    });
    // a removal after inserts: derived state must follow a mutation of the reloaded value as well
    for pv in args.pvs.iter().take(6) {
        put!("insert_checked, then remove", format!("{pv:?}"), {
            let mut c = x.clone();
            let r0: Vec<String> = args.fresh.iter().map(|v| format!("{:?}", c.insert_checked(v.clone()))).collect();
            let r = c.remove(pv, c0);
            format!("{r0:?} {r} -> {}", vs_brief(&c))
        });
    }
    out
}

/// Index and content of the first question the two values answer differently:
/// (index, method, argument, answer of a, answer of b).
pub fn first_difference(a: &[Answer], b: &[Answer]) -> Option<(usize, String, String, String, String)> {
    if a.len() != b.len() {
        return Some((usize::MAX, "<battery>".into(), String::new(), format!("{} answers", a.len()), format!("{} answers", b.len())));
    }
    a.iter().zip(b.iter()).enumerate().find(|(_, (x, y))| x != y).map(|(k, (x, y))| (k, x.0.clone(), x.1.clone(), x.2.clone(), y.2.clone()))
}

/// Is the difference on question `k` (`a` = the original's answer, `b` = the reloaded value's) one
/// that in-memory constructions of the ORIGINAL value show among themselves? Hash-backed sets
/// (`SmolSet` beyond its inline size, `HashSet`) iterate in an order that differs between two equal
/// values, and a few methods show it (`as_indextype_iter` lists the elements in that order;
/// `to_scim_value` of a multi-valued set with a single-valued SCIM form returns "the first"). Such
/// an answer is not a difference between stored and in-memory. The original is rebuilt from its
/// own values through the in-memory constructors (`from_value_iter`, never a decoder) up to `tries`
/// times; the difference is construction-dependent iff
///   * some copy gives exactly `b`, or
///   * `a` and `b` differ in order only (`unordered`) and some copy gives an answer other than `a`
///     (the question demonstrably depends on the construction of this value).
pub fn construction_dependent(orig: &ValueSet, args: &ProbeArgs, k: usize, a: &str, b: &str, tries: usize) -> bool {
    if k == usize::MAX {
        return false;
    }
    let order_only = unordered(a) == unordered(b);
    let want = vs_canon(orig);
    for _ in 0..tries {
        let Some(copy) = rebuild(orig, &args.other).filter(|c| vs_canon(c) == want) else {
            // no faithful in-memory reconstruction: nothing to compare with — the difference stands
            return false;
        };
        match battery(&copy, args, Some(k)).get(k) {
            Some(ans) if ans.2 == b => return true,
            Some(ans) if order_only && ans.2 != a => return true,
            _ => {}
        }
    }
    false
}

/// The original value built again in memory (fresh hash state), never through a decoder: from its
/// own values; an empty set from the second set's values, cleared.
fn rebuild(orig: &ValueSet, other: &ValueSet) -> Option<ValueSet> {
    guard(|| {
        if orig.len() > 0 {
            kanidmd_lib::valueset::from_value_iter(orig.to_value_iter()).ok()
        } else if struct_name(orig) == struct_name(other) {
            let mut c = kanidmd_lib::valueset::from_value_iter(other.to_value_iter()).ok()?;
            c.clear();
            Some(c)
        } else {
            None
        }
    })
    .flatten()
}
