// C24 harness, part 2 (included by src/bin/c24.rs): pools, world construction, encoders.

use kanidmd_lib::valueset::ValueSetT;

fn cls_pool() -> Vec<&'static str> {
    vec![
        "person", "account", "posixaccount", "group", "posixgroup", "service_account", "object",
        "recycled", "tombstone", "system", "sync_object", "dyngroup", "domain_info", "system_info",
        "system_config", "extensibleobject", "classtype", "memberof", "account_policy",
    ]
}

/// (attribute, value kind): u utf8, i iutf8, n iname, m mail, r refer, d datetime, 3 uint32, U uuid,
/// p purge-only (complex syntax)
fn attr_pool() -> Vec<(Attribute, char)> {
    vec![
        (Attribute::Description, 'u'),
        (Attribute::DisplayName, 'u'),
        (Attribute::LegalName, 'u'),
        (Attribute::Name, 'n'),
        (Attribute::Mail, 'm'),
        (Attribute::Member, 'r'),
        (Attribute::Class, 'i'),
        (Attribute::AccountExpire, 'd'),
        (Attribute::AccountValidFrom, 'd'),
        (Attribute::BadlistPassword, 'i'),
        (Attribute::DomainDisplayName, 'u'),
        (Attribute::LoginShell, 'i'),
        (Attribute::GidNumber, '3'),
        (Attribute::EntryManagedBy, 'r'),
        (Attribute::May, 'i'),
        (Attribute::Must, 'i'),
        (Attribute::UserAuthTokenSession, 'p'),
        (Attribute::OAuth2Session, 'p'),
        (Attribute::CredentialUpdateIntentToken, 'p'),
        (Attribute::PrimaryCredential, 'p'),
        (Attribute::SshPublicKey, 'p'),
        (Attribute::ApiTokenSession, 'p'),
        (Attribute::AuthSessionExpiry, '3'),
        (Attribute::LimitSearchMaxResults, '3'),
        (Attribute::SyncParentUuid, 'r'),
        (Attribute::Uuid, 'U'),
        (Attribute::DomainLdapBasedn, 'p'),
        (Attribute::OAuth2ConsentScopeMap, 'p'),
    ]
}

fn pick_subset<T: Clone>(rng: &mut Rng, pool: &[T], max: u64) -> Vec<T> {
    let n = rng.below(max + 1);
    let mut out = vec![];
    for _ in 0..n {
        out.push(rng.pick(pool).clone());
    }
    out
}

#[derive(Clone, Debug)]
enum ModSpec {
    Present(Attribute, String),
    Removed(Attribute, String),
    Purged(Attribute),
    Set(Attribute, Vec<String>),
    Assert(Attribute, String),
}

fn kind_of(a: &Attribute) -> char {
    attr_pool().into_iter().find(|(x, _)| x == a).map(|(_, k)| k).unwrap_or('p')
}

fn mk_value(a: &Attribute, s: &str, refer: Uuid) -> Value {
    match kind_of(a) {
        'u' => Value::new_utf8s(s),
        'i' => Value::new_iutf8(s),
        'n' => Value::new_iname(s),
        'm' => Value::new_email_address_s(&format!("{s}@example.com")).expect("mail"),
        'r' => Value::Refer(refer),
        'd' => Value::new_datetime_s("2031-01-01T00:00:00+00:00").expect("datetime"),
        '3' => Value::new_uint32(4242),
        'U' => Value::Uuid(refer),
        _ => Value::new_utf8s(s),
    }
}

fn mk_pvalue(a: &Attribute, s: &str, refer: Uuid) -> PartialValue {
    match kind_of(a) {
        'u' => PartialValue::new_utf8s(s),
        'i' => PartialValue::new_iutf8(s),
        'n' => PartialValue::new_iname(s),
        'm' => PartialValue::new_email_address_s(&format!("{s}@example.com")),
        'r' => PartialValue::Refer(refer),
        'd' => PartialValue::new_datetime_s("2031-01-01T00:00:00+00:00").expect("datetime"),
        '3' => PartialValue::new_uint32(4242),
        'U' => PartialValue::Uuid(refer),
        _ => PartialValue::new_utf8s(s),
    }
}

impl ModSpec {
    fn attr(&self) -> &Attribute {
        match self {
            ModSpec::Present(a, _) | ModSpec::Removed(a, _) | ModSpec::Purged(a) | ModSpec::Set(a, _) | ModSpec::Assert(a, _) => a,
        }
    }
    fn real(&self, refer: Uuid) -> Modify {
        match self {
            ModSpec::Present(a, s) => Modify::Present(a.clone(), mk_value(a, s, refer)),
            ModSpec::Removed(a, s) => Modify::Removed(a.clone(), mk_pvalue(a, s, refer)),
            ModSpec::Purged(a) => Modify::Purged(a.clone()),
            ModSpec::Assert(a, s) => Modify::Assert(a.clone(), mk_pvalue(a, s, refer)),
            ModSpec::Set(a, vs) => {
                let vals: Vec<Value> = vs.iter().map(|s| mk_value(a, s, refer)).collect();
                Modify::Set(a.clone(), valueset::from_value_iter(vals.into_iter()).expect("valueset"))
            }
        }
    }
    fn model(&self, n: &mut Names) -> String {
        let is_cls = *self.attr() == Attribute::Class;
        let a = n.a(self.attr().as_str());
        let cv = |n: &mut Names, s: &String| if is_cls { n.c(s) } else { 0 };
        match self {
            ModSpec::Present(_, s) => format!("p:{a}:{}", cv(n, s)),
            ModSpec::Removed(_, s) => format!("r:{a}:{}", cv(n, s)),
            ModSpec::Purged(_) => format!("u:{a}"),
            ModSpec::Assert(_, s) => format!("a:{a}:{}", cv(n, s)),
            ModSpec::Set(_, vs) => {
                let l: Vec<String> = if is_cls {
                    let s: BTreeSet<u64> = vs.iter().map(|s| n.c(s)).collect();
                    s.into_iter().map(|x| x.to_string()).collect()
                } else {
                    vec!["0".to_string()]
                };
                format!("s:{a}:{}", if l.is_empty() { "-".to_string() } else { l.join("+") })
            }
        }
    }
    fn json(&self) -> J {
        json!(format!("{self:?}"))
    }
}

fn modlist_model(n: &mut Names, ml: &[ModSpec]) -> String {
    if ml.is_empty() {
        "-".into()
    } else {
        ml.iter().map(|m| m.model(n)).collect::<Vec<_>>().join(",")
    }
}

// ---------------------------------------------------------------------------------------------
// world
// ---------------------------------------------------------------------------------------------

struct World {
    qs: QueryServer,
    /// time of the operation transactions (after every setup transaction)
    ct: Duration,
    groups: Vec<Uuid>,
    users: Vec<Uuid>,
    /// (uuid, kind label)
    targets: Vec<(Uuid, &'static str)>,
    acps: Vec<AcpSpec>,
    /// sync account uuid → yield authority attribute names (None = attribute absent)
    agreements: Vec<(Uuid, Option<Vec<String>>)>,
    target_names: Vec<String>,
    /// oracle views of the targets / users (for guided generation only)
    tviews: Vec<View>,
    uviews: Vec<UserView>,
    permissive: bool,
    halves: bool,
}

fn wu(k: u64) -> Uuid {
    nat_uuid(0xC24_0000 + k)
}

fn person(name: &str, uuid: Uuid) -> NewE {
    let mut e: NewE = Entry::new();
    e.add_ava(Attribute::Class, EntryClass::Object.to_value());
    e.add_ava(Attribute::Class, EntryClass::Account.to_value());
    e.add_ava(Attribute::Class, EntryClass::Person.to_value());
    e.add_ava(Attribute::Name, Value::new_iname(name));
    e.add_ava(Attribute::Uuid, Value::Uuid(uuid));
    e.add_ava(Attribute::Description, Value::new_utf8s(name));
    e.add_ava(Attribute::DisplayName, Value::new_utf8s(name));
    e
}

fn group(name: &str, uuid: Uuid, members: &[Uuid]) -> NewE {
    let mut e: NewE = Entry::new();
    e.add_ava(Attribute::Class, EntryClass::Object.to_value());
    e.add_ava(Attribute::Class, EntryClass::Group.to_value());
    e.add_ava(Attribute::Name, Value::new_iname(name));
    e.add_ava(Attribute::Uuid, Value::Uuid(uuid));
    for m in members {
        e.add_ava(Attribute::Member, Value::Refer(*m));
    }
    e
}

fn gen_flt(rng: &mut Rng, w_groups: &[Uuid], w_users: &[Uuid], names: &[String], uuids: &[Uuid], depth: u32) -> Flt {
    let leaf = |rng: &mut Rng| -> Flt {
        match rng.below(12) {
            0..=2 => Flt::Pres("class".into()),
            3..=5 => Flt::EqClass(rng.pick(&cls_pool()).to_string()),
            6 => Flt::EqName(rng.pick(names).clone()),
            7 => Flt::EqUuid(*rng.pick(uuids)),
            8 => Flt::EqMemberOf(*rng.pick(w_groups)),
            9 => Flt::Pres(
                rng.pick(&["name", "memberof", "entry_managed_by", "description", "mail", "sync_parent_uuid", "member"])
                    .to_string(),
            ),
            10 => Flt::SelfUuid,
            _ => Flt::EqUuid(*rng.pick(w_users)),
        }
    };
    if depth == 0 || rng.chance(1, 2) {
        return leaf(rng);
    }
    match rng.below(4) {
        0 | 1 => {
            let mut l = vec![gen_flt(rng, w_groups, w_users, names, uuids, depth - 1)];
            if rng.chance(1, 2) {
                l.push(gen_flt(rng, w_groups, w_users, names, uuids, depth - 1));
            }
            if rng.chance(1, 2) {
                l.push(Flt::AndNot(Box::new(leaf(rng))));
            }
            Flt::And(l)
        }
        2 => Flt::Or(
            (0..rng.range(1, 3)).map(|_| gen_flt(rng, w_groups, w_users, names, uuids, depth - 1)).collect(),
        ),
        _ => Flt::And(vec![Flt::Pres("class".into()), Flt::AndNot(Box::new(leaf(rng)))]),
    }
}

impl World {
    async fn build(seed: u64, widx: u64) -> World {
        let mut rng = Rng::for_case(seed ^ 0xC24, 1_000_000 + widx);
        let qs = setup_test(TestConfiguration::default()).await;
        let t0 = duration_from_epoch_now() + Duration::from_secs(60);

        let n_groups = 5usize;
        let n_users = 4usize;
        let groups: Vec<Uuid> = (0..n_groups).map(|i| wu(0x100 + i as u64)).collect();
        let users: Vec<Uuid> = (0..n_users).map(|i| wu(0x200 + i as u64)).collect();
        let sync_accounts: Vec<Uuid> = (0..2).map(|i| wu(0x500 + i as u64)).collect();

        // --- txn 1 (t0): drop the builtin profiles, create users, groups, sync accounts, tombstone fodder
        let mut agreements = vec![];
        {
            let mut txn = qs.write(t0).await.expect("txn1");
            let f = Filter::new_ignore_hidden(f_eq(Attribute::Class, EntryClass::AccessControlProfile.into()));
            txn.internal_delete(&f).expect("delete builtin acps");
            let mut es = vec![];
            for (i, u) in users.iter().enumerate() {
                es.push(person(&format!("c24user{i}"), *u));
            }
            txn.internal_create(es).expect("users");
            let mut es = vec![];
            for (i, g) in groups.iter().enumerate() {
                // user k is in group i with probability 1/2; group 0 may contain group 1 (nesting)
                let mut members: Vec<Uuid> = users.iter().enumerate().filter(|(k, _)| (i == 0 && *k == 0) || rng.chance(1, 2)).map(|(_, u)| *u).collect();
                if i == 0 && rng.chance(1, 2) {
                    members.push(groups[1]);
                }
                es.push(group(&format!("c24group{i}"), *g, &members));
            }
            // create in reverse so that a nested group exists before its parent
            es.reverse();
            txn.internal_create(es).expect("groups");
            for (i, s) in sync_accounts.iter().enumerate() {
                let mut e: NewE = Entry::new();
                e.add_ava(Attribute::Class, EntryClass::Object.to_value());
                e.add_ava(Attribute::Class, EntryClass::SyncAccount.to_value());
                e.add_ava(Attribute::Name, Value::new_iname(&format!("c24sync{i}")));
                e.add_ava(Attribute::Uuid, Value::Uuid(*s));
                let ya: Option<Vec<String>> = if i == 0 {
                    let pool: Vec<String> = attr_pool().iter().map(|(a, _)| a.as_str().to_string()).collect();
                    let mut v = pick_subset(&mut rng, &pool, 3);
                    v.push("legalname".into());
                    Some(v)
                } else {
                    None
                };
                if let Some(v) = &ya {
                    for a in v {
                        e.add_ava(Attribute::SyncYieldAuthority, Value::new_iutf8(a));
                    }
                }
                txn.internal_create(vec![e]).expect("sync account");
                agreements.push((*s, ya));
            }
            txn.internal_create(vec![person("c24tomb", wu(0x30a))]).expect("tomb fodder");
            txn.commit().expect("commit1");
        }
        {
            let mut txn = qs.write(t0 + Duration::from_secs(10)).await.expect("txn1b");
            let f = Filter::new_ignore_hidden(f_eq(Attribute::Uuid, PartialValue::Uuid(wu(0x30a))));
            txn.internal_delete(&f).expect("delete tomb fodder");
            txn.commit().expect("commit1b");
        }
        // --- txn 2 (t0 + 8 d): recycled → tombstone
        {
            let mut txn = qs.write(t0 + Duration::from_secs(8 * DAY)).await.expect("txn2");
            txn.purge_recycled().expect("purge_recycled");
            txn.commit().expect("commit2");
        }
        let t1 = t0 + Duration::from_secs(9 * DAY);
        // --- txn 3 (t1): targets
        let mut targets: Vec<(Uuid, &'static str)> = vec![];
        {
            let mut txn = qs.write(t1).await.expect("txn3");
            let mut add = |txn: &mut QueryServerWriteTransaction<'_>, e: NewE, u: Uuid, k: &'static str| {
                match txn.internal_create(vec![e]) {
                    Ok(()) => targets.push((u, k)),
                    Err(err) => eprintln!("c24: target {k} not created: {err:?}"),
                }
            };
            add(&mut txn, person("c24t0", wu(0x300)), wu(0x300), "person");
            let mut e = person("c24t1", wu(0x301));
            e.add_ava(Attribute::Mail, Value::new_email_address_s("c24t1@example.com").unwrap());
            e.add_ava(Attribute::EntryManagedBy, Value::Refer(groups[2]));
            add(&mut txn, e, wu(0x301), "person-managed-by-group");
            let mut e = group("c24t2", wu(0x302), &[users[1]]);
            e.add_ava(Attribute::EntryManagedBy, Value::Refer(users[0]));
            add(&mut txn, e, wu(0x302), "group-managed-by-user");
            let mut e = group("c24t3", wu(0x303), &[]);
            e.add_ava(Attribute::EntryManagedBy, Value::Refer(groups[1]));
            add(&mut txn, e, wu(0x303), "group-managed-by-group");
            let mut e: NewE = Entry::new();
            e.add_ava(Attribute::Class, EntryClass::Object.to_value());
            e.add_ava(Attribute::Class, EntryClass::Account.to_value());
            e.add_ava(Attribute::Class, EntryClass::ServiceAccount.to_value());
            e.add_ava(Attribute::Name, Value::new_iname("c24t4"));
            e.add_ava(Attribute::DisplayName, Value::new_utf8s("c24t4"));
            e.add_ava(Attribute::Uuid, Value::Uuid(wu(0x304)));
            e.add_ava(Attribute::EntryManagedBy, Value::Refer(groups[0]));
            add(&mut txn, e, wu(0x304), "service-account");
            let mut e = person("c24t5", wu(0x305));
            e.add_ava(Attribute::Class, EntryClass::SyncObject.to_value());
            e.add_ava(Attribute::SyncParentUuid, Value::Refer(sync_accounts[0]));
            add(&mut txn, e, wu(0x305), "synced-person");
            let mut e = group("c24t6", wu(0x306), &[]);
            e.add_ava(Attribute::Class, EntryClass::SyncObject.to_value());
            e.add_ava(Attribute::SyncParentUuid, Value::Refer(sync_accounts[1]));
            add(&mut txn, e, wu(0x306), "synced-group");
            let mut e = group("c24t7", wu(0x307), &[]);
            e.add_ava(Attribute::Class, EntryClass::DynGroup.to_value());
            e.add_ava(
                Attribute::DynGroupFilter,
                Value::JsonFilt(ProtoFilter::Eq("name".into(), "c24t0".into())),
            );
            add(&mut txn, e, wu(0x307), "dyngroup");
            add(&mut txn, person("c24t8", wu(0x308)), wu(0x308), "recycled-person");
            let mut e = group("c24t9", wu(0x309), &[]);
            e.add_ava(Attribute::EntryManagedBy, Value::Refer(users[0]));
            add(&mut txn, e, wu(0x309), "recycled-group");
            let mut e = person("c24t11", wu(0x30b));
            e.add_ava(Attribute::Class, EntryClass::System.to_value());
            add(&mut txn, e, wu(0x30b), "dynamic-uuid-system-class");
            let mut e = group("c24t12", wu(0x30c), &[users[2]]);
            e.add_ava(Attribute::Class, EntryClass::PosixGroup.to_value());
            add(&mut txn, e, wu(0x30c), "posix-group");
            for (k, sys, u) in [("schema-class-system", true, wu(0x30d)), ("schema-class-plain", false, wu(0x30e))] {
                let mut e: NewE = Entry::new();
                e.add_ava(Attribute::Class, EntryClass::Object.to_value());
                e.add_ava(Attribute::Class, EntryClass::ClassType.to_value());
                if sys {
                    e.add_ava(Attribute::Class, EntryClass::System.to_value());
                }
                e.add_ava(Attribute::ClassName, Value::new_iutf8(if sys { "c24classsys" } else { "c24classplain" }));
                e.add_ava(Attribute::Description, Value::new_utf8s("c24 class"));
                e.add_ava(Attribute::Uuid, Value::Uuid(u));
                add(&mut txn, e, u, k);
            }
            txn.commit().expect("commit3");
        }
        {
            let mut txn = qs.write(t1 + Duration::from_secs(10)).await.expect("txn3b");
            for u in [wu(0x308), wu(0x309)] {
                let f = Filter::new_ignore_hidden(f_eq(Attribute::Uuid, PartialValue::Uuid(u)));
                txn.internal_delete(&f).expect("recycle target");
            }
            txn.commit().expect("commit3b");
        }
        targets.push((wu(0x30a), "tombstone"));
        for (u, k) in [
            (UUID_ADMIN, "builtin-admin"),
            (UUID_ANONYMOUS, "builtin-anonymous"),
            (UUID_IDM_ADMINS, "builtin-group"),
            (UUID_DOMAIN_INFO, "domain-info"),
            (UUID_SYSTEM_CONFIG, "system-config"),
            (UUID_SYSTEM_INFO, "system-info"),
            (UUID_IDM_ALL_PERSONS, "builtin-dyngroup"),
        ] {
            targets.push((u, k));
        }
        for (i, u) in users.iter().enumerate() {
            if i < 2 {
                targets.push((*u, "user-self"));
            }
        }
        targets.push((groups[0], "receiver-group"));

        let target_names: Vec<String> = (0..13).map(|i| format!("c24t{i}")).chain(["admin".to_string(), "c24new0".to_string()]).collect();
        let target_uuids: Vec<Uuid> = targets.iter().map(|t| t.0).chain([wu(0x600)]).collect();

        // --- txn 4: the random profiles
        let mut acps = vec![];
        let attr_names: Vec<String> = attr_pool().iter().map(|(a, _)| a.as_str().to_string()).collect();
        let cls_names: Vec<String> = cls_pool().iter().map(|s| s.to_string()).collect();
        let n_acps = rng.range(6, 14);
        for i in 0..n_acps {
            let kind = match rng.below(10) {
                0..=5 => Kind::Modify,
                6..=7 => Kind::Create,
                _ => Kind::Delete,
            };
            let recv = match rng.below(10) {
                0 => Recv::None,
                1..=2 => Recv::EntryManager,
                _ => Recv::Groups((0..rng.range(1, 2)).map(|_| *rng.pick(&groups)).collect()),
            };
            let target = if rng.chance(1, 25) {
                None
            } else {
                Some(gen_flt(&mut rng, &groups, &users, &target_names, &target_uuids, 2))
            };
            let wide = rng.chance(1, 3);
            let amax = if wide { 14 } else { 4 };
            let mut spec = AcpSpec {
                kind: kind.clone(),
                name: format!("c24acp{i}"),
                uuid: wu(0x400 + i),
                enabled: !rng.chance(1, 12),
                recv,
                target,
                pres: vec![],
                rem: vec![],
                legacy_cls: vec![],
                pres_cls: vec![],
                rem_cls: vec![],
                c_attrs: vec![],
                c_classes: vec![],
            };
            match kind {
                Kind::Modify => {
                    spec.pres = pick_subset(&mut rng, &attr_names, amax);
                    spec.rem = pick_subset(&mut rng, &attr_names, amax);
                    if rng.chance(1, 2) {
                        spec.pres.push("class".into());
                    }
                    if rng.chance(1, 2) {
                        spec.rem.push("class".into());
                    }
                    if rng.chance(1, 3) {
                        spec.legacy_cls = pick_subset(&mut rng, &cls_names, 4);
                    }
                    if rng.chance(1, 2) {
                        spec.pres_cls = pick_subset(&mut rng, &cls_names, 5);
                    }
                    if rng.chance(1, 2) {
                        spec.rem_cls = pick_subset(&mut rng, &cls_names, 5);
                        if rng.chance(1, 2) {
                            spec.rem_cls.push("recycled".into());
                        }
                    }
                }
                Kind::Create => {
                    spec.c_attrs = pick_subset(&mut rng, &attr_names, amax);
                    for a in ["class", "name", "uuid", "displayname", "description"] {
                        if rng.chance(3, 4) {
                            spec.c_attrs.push(a.into());
                        }
                    }
                    spec.c_classes = pick_subset(&mut rng, &cls_names, 5);
                    for c in ["object", "person", "account", "group"] {
                        if rng.chance(2, 3) {
                            spec.c_classes.push(c.into());
                        }
                    }
                }
                Kind::Delete => {}
            }
            acps.push(spec);
        }
        // every fifth world additionally has three permissive profiles for group 0 (user 0 is always a
        // member): everything the protected rules do not forbid is then allowed, which is where the
        // protected tables are observable
        let permissive = widx % 5 == 0;
        if permissive {
            let all_attrs = attr_names.clone();
            let mut all_cls = cls_names.clone();
            all_cls.push("c24custom".into());
            let base = AcpSpec {
                kind: Kind::Modify,
                name: "c24permissive-modify".into(),
                uuid: wu(0x4f0),
                enabled: true,
                recv: Recv::Groups(vec![groups[0]]),
                target: Some(Flt::Pres("class".into())),
                pres: all_attrs.clone(),
                rem: all_attrs.clone(),
                legacy_cls: vec![],
                pres_cls: all_cls.clone(),
                rem_cls: all_cls.clone(),
                c_attrs: vec![],
                c_classes: vec![],
            };
            acps.push(base.clone());
            acps.push(AcpSpec { kind: Kind::Create, name: "c24permissive-create".into(), uuid: wu(0x4f1), pres: vec![], rem: vec![], pres_cls: vec![], rem_cls: vec![], c_attrs: all_attrs.clone(), c_classes: all_cls.clone(), ..base.clone() });
            acps.push(AcpSpec { kind: Kind::Delete, name: "c24permissive-delete".into(), uuid: wu(0x4f2), pres: vec![], rem: vec![], pres_cls: vec![], rem_cls: vec![], ..base.clone() });
        }
        // every fifth world (offset 1): two create profiles for group 0 that cover a plain person only
        // *together* — `create_filter_entry` wants one single covering profile
        let halves = widx % 5 == 1;
        if halves {
            let base = AcpSpec {
                kind: Kind::Create,
                name: "c24half-attrs".into(),
                uuid: wu(0x4f3),
                enabled: true,
                recv: Recv::Groups(vec![groups[0]]),
                target: Some(Flt::Pres("class".into())),
                pres: vec![],
                rem: vec![],
                legacy_cls: vec![],
                pres_cls: vec![],
                rem_cls: vec![],
                c_attrs: ["class", "name", "uuid", "displayname", "description"].iter().map(|s| s.to_string()).collect(),
                c_classes: vec!["object".into()],
            };
            acps.push(base.clone());
            acps.push(AcpSpec {
                name: "c24half-classes".into(),
                uuid: wu(0x4f4),
                c_attrs: vec!["class".into()],
                c_classes: vec!["object".into(), "person".into(), "account".into()],
                ..base
            });
        }
        // a blanket search profile so that impersonated searches find candidates (C23's domain)
        let t2 = t1 + Duration::from_secs(20);
        {
            let mut txn = qs.write(t2).await.expect("txn4");
            let mut e: NewE = Entry::new();
            e.add_ava(Attribute::Class, EntryClass::Object.to_value());
            e.add_ava(Attribute::Class, EntryClass::AccessControlProfile.to_value());
            e.add_ava(Attribute::Class, EntryClass::AccessControlSearch.to_value());
            e.add_ava(Attribute::Class, EntryClass::AccessControlReceiverGroup.to_value());
            e.add_ava(Attribute::Class, EntryClass::AccessControlTargetScope.to_value());
            e.add_ava(Attribute::Name, Value::new_iname("c24search"));
            e.add_ava(Attribute::Uuid, Value::Uuid(wu(0x4ff)));
            e.add_ava(Attribute::Description, Value::new_utf8s("c24search"));
            e.add_ava(Attribute::AcpReceiverGroup, Value::Refer(UUID_IDM_ALL_ACCOUNTS));
            e.add_ava(Attribute::AcpTargetScope, Value::JsonFilt(ProtoFilter::Pres("class".into())));
            for a in ["class", "uuid", "name", "spn", "memberof", "member", "description"] {
                e.add_ava(Attribute::AcpSearchAttr, Value::new_iutf8(a));
            }
            txn.internal_create(vec![e]).expect("search acp");
            txn.internal_create(acps.iter().map(|a| a.entry()).collect()).expect("acps");
            txn.commit().expect("commit4");
        }
        let ct = t2 + Duration::from_secs(30);
        let (tviews, uviews) = {
            let mut txn = qs.write(ct).await.expect("view txn");
            let tv: Vec<View> = targets
                .iter()
                .map(|t| {
                    let f = Filter::new(f_eq(Attribute::Uuid, PartialValue::Uuid(t.0)));
                    txn.internal_search(f).ok().and_then(|mut v| v.pop()).map(|e| view_of(&e)).unwrap_or_default()
                })
                .collect();
            let uv: Vec<UserView> = users
                .iter()
                .map(|u| {
                    let f = Filter::new(f_eq(Attribute::Uuid, PartialValue::Uuid(*u)));
                    let e = txn.internal_search(f).expect("user").pop().expect("user entry");
                    UserView { uuid: *u, memberof: e.get_ava_refer(Attribute::MemberOf).cloned().unwrap_or_default() }
                })
                .collect();
            (tv, uv)
        };
        World {
            qs,
            ct,
            tviews,
            uviews,
            permissive,
            halves,
            groups,
            users,
            targets,
            acps,
            agreements,
            target_names,
        }
    }

    fn acps_model(&self, n: &mut Names, kind: Kind) -> String {
        let v: Vec<String> = self
            .acps
            .iter()
            .filter(|a| a.kind == kind && a.enabled)
            .map(|a| a.model_txt(n))
            .collect();
        if v.is_empty() {
            "-".into()
        } else {
            v.join("|")
        }
    }

    fn agreements_model(&self, n: &mut Names) -> String {
        let v: Vec<String> = self
            .agreements
            .iter()
            .filter_map(|(u, ya)| {
                ya.as_ref().map(|ya| {
                    let s: BTreeSet<u64> = ya.iter().map(|a| n.a(a)).collect();
                    format!(
                        "{}={}",
                        u.as_u128(),
                        s.into_iter().map(|x| x.to_string()).collect::<Vec<_>>().join("+")
                    )
                })
            })
            .collect();
        if v.is_empty() {
            "-".into()
        } else {
            v.join(";")
        }
    }
}

/// `attr=V+V,…` for the model's filter entry.
fn fe_of(n: &mut Names, e: &Sealed) -> String {
    let mut items = vec![];
    for k in e.attr_keys() {
        let a = n.a(k.as_str());
        let vals: Vec<String> = match k {
            Attribute::Class => e
                .get_ava_as_iutf8(Attribute::Class)
                .map(|s| s.iter().map(|c| format!("s{}", n.c(c))).collect())
                .unwrap_or_default(),
            Attribute::Name => e
                .get_ava_set(Attribute::Name)
                .map(|vs| vs.to_proto_string_clone_iter().map(|s| sval(&s)).collect())
                .unwrap_or_default(),
            Attribute::Uuid => vec![format!("n{}", e.get_uuid().as_u128())],
            Attribute::MemberOf | Attribute::DirectMemberOf | Attribute::EntryManagedBy | Attribute::Member | Attribute::SyncParentUuid => e
                .get_ava_refer(k)
                .map(|s| s.iter().map(|u| format!("n{}", u.as_u128())).collect())
                .unwrap_or_default(),
            _ => vec!["s".to_string()],
        };
        if !vals.is_empty() {
            items.push(format!("{a}={}", vals.join("+")));
        }
    }
    if items.is_empty() {
        "-".into()
    } else {
        items.join(",")
    }
}

fn ent_model(n: &mut Names, e: &Sealed) -> String {
    let classes = match e.get_ava_as_iutf8(Attribute::Class) {
        Some(s) => list(s.iter().map(|c| n.c(c)).collect::<Vec<_>>()),
        None => "!".into(),
    };
    let managed = match e.get_ava_refer(Attribute::EntryManagedBy) {
        Some(s) => list(s.iter().map(|u| u.as_u128())),
        None => "!".into(),
    };
    let sp = match e.get_ava_single_refer(Attribute::SyncParentUuid) {
        Some(u) => u.as_u128().to_string(),
        None => "!".into(),
    };
    format!("{}~{}~{}~{}~{}", e.get_uuid().as_u128(), classes, managed, sp, fe_of(n, e))
}
