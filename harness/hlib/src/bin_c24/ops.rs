// C24 harness, part 3 (included by src/bin/c24.rs): cases, real evaluation, oracle, main.

#[derive(Clone, Debug)]
struct NewEntSpec {
    uuid: Option<Uuid>,
    classes: Vec<String>,
    name: Option<String>,
    attrs: Vec<Attribute>,
}

impl NewEntSpec {
    fn entry(&self, refer: Uuid) -> NewE {
        let mut e: NewE = Entry::new();
        for c in &self.classes {
            e.add_ava(Attribute::Class, Value::new_iutf8(c));
        }
        if let Some(n) = &self.name {
            e.add_ava(Attribute::Name, Value::new_iname(n));
        }
        if let Some(u) = self.uuid {
            e.add_ava(Attribute::Uuid, Value::Uuid(u));
        }
        for a in &self.attrs {
            if matches!(a, Attribute::Class | Attribute::Name | Attribute::Uuid) {
                continue;
            }
            e.add_ava(a.clone(), mk_value(a, "c24new", refer));
        }
        e
    }
    fn view(&self, e: &NewE) -> View {
        View {
            uuid: self.uuid,
            classes: self.classes.iter().cloned().collect(),
            name: self.name.clone(),
            memberof: BTreeSet::new(),
            managed_by: if self.attrs.contains(&Attribute::EntryManagedBy) { Some(BTreeSet::new()) } else { None },
            attrs: e.get_ava_names().map(|s| s.to_string()).collect(),
        }
    }
    fn model(&self, n: &mut Names, e: &NewE, refer: Uuid) -> String {
        let u = match self.uuid {
            Some(u) => u.as_u128().to_string(),
            None => "!".into(),
        };
        let classes = match e.get_ava_as_iutf8(Attribute::Class) {
            Some(s) => list(s.iter().map(|c| n.c(c)).collect::<Vec<_>>()),
            None => "!".into(),
        };
        let attrs: Vec<u64> = e.get_ava_names().map(|a| n.a(a)).collect();
        let mut items = vec![];
        for k in e.get_ava_names().map(|s| s.to_string()).collect::<Vec<_>>() {
            let a = n.a(&k);
            let vals: Vec<String> = match k.as_str() {
                "class" => e.get_ava_as_iutf8(Attribute::Class).map(|s| s.iter().map(|c| format!("s{}", n.c(c))).collect()).unwrap_or_default(),
                "name" => self.name.iter().map(|s| sval(s)).collect(),
                "uuid" => self.uuid.iter().map(|u| format!("n{}", u.as_u128())).collect(),
                "entry_managed_by" | "member" | "sync_parent_uuid" => vec![format!("n{}", refer.as_u128())],
                _ => vec!["s".into()],
            };
            if !vals.is_empty() {
                items.push(format!("{a}={}", vals.join("+")));
            }
        }
        format!("{u}~{classes}~{}~{}", list(attrs), if items.is_empty() { "-".to_string() } else { items.join(",") })
    }
}

#[derive(Clone, Debug)]
enum Op {
    Mod { targets: Vec<usize>, ml: Vec<ModSpec> },
    Batch { items: Vec<(usize, Option<Vec<ModSpec>>)> },
    Create { ents: Vec<NewEntSpec> },
    Delete { targets: Vec<usize> },
    Revive { targets: Vec<usize> },
}

#[derive(Clone, Debug)]
struct Case {
    ident: IdentSpec,
    op: Op,
}

fn gen_ident(rng: &mut Rng, w: &World) -> IdentSpec {
    match rng.below(20) {
        0 => IdentSpec::Synch(rng.below(3), rng.below(3) as u8),
        1 => IdentSpec::Internal(rng.below(4) as u8, 1),
        2 => IdentSpec::Internal(rng.below(4) as u8, rng.below(3) as u8),
        3 | 4 => IdentSpec::User(rng.below(w.users.len() as u64) as usize, if rng.chance(1, 2) { 0 } else { 2 }),
        _ => IdentSpec::User(rng.below(w.users.len() as u64) as usize, 1),
    }
}

/// Modlists are drawn mostly from what the profiles applying to this user grant, then perturbed:
/// purely random requests are almost always denied for the boring reason.
fn gen_modlist(rng: &mut Rng, w: &World, guide: Option<&AcpSpec>) -> Vec<ModSpec> {
    let pool = attr_pool();
    let cls = cls_pool();
    let granted: Vec<&AcpSpec> = w.acps.iter().filter(|a| a.kind == Kind::Modify && a.enabled).collect();
    let n = match rng.below(10) {
        0 => 0,
        1..=5 => 1,
        6..=8 => 2,
        _ => 3,
    };
    let mut out = vec![];
    for _ in 0..n {
        let from_grant = !granted.is_empty() && (if guide.is_some() { rng.chance(14, 15) } else { rng.chance(3, 4) });
        let acp = if from_grant { Some(guide.filter(|_| rng.chance(14, 15)).unwrap_or(*rng.pick(&granted))) } else { None };
        let kind = rng.below(10);
        let pick_attr = |rng: &mut Rng, names: &Vec<String>| -> Attribute {
            if !names.is_empty() && rng.chance(11, 12) {
                Attribute::from(rng.pick(names).as_str())
            } else {
                rng.pick(&pool).0.clone()
            }
        };
        let empty = vec![];
        let m = match kind {
            0..=3 => {
                let a = pick_attr(rng, acp.map(|a| &a.pres).unwrap_or(&empty));
                let v = if a == Attribute::Class {
                    let cs = acp.map(|a| a.eff_pres_cls().clone()).unwrap_or_default();
                    if !cs.is_empty() && rng.chance(4, 5) { rng.pick(&cs).clone() } else { rng.pick(&cls).to_string() }
                } else {
                    "c24val".to_string()
                };
                if kind_of(&a) == 'p' { ModSpec::Purged(a) } else { ModSpec::Present(a, v) }
            }
            4..=5 => {
                let a = pick_attr(rng, acp.map(|a| &a.rem).unwrap_or(&empty));
                let v = if a == Attribute::Class {
                    let cs = acp.map(|a| a.eff_rem_cls().clone()).unwrap_or_default();
                    if !cs.is_empty() && rng.chance(4, 5) { rng.pick(&cs).clone() } else { rng.pick(&cls).to_string() }
                } else {
                    "c24val".to_string()
                };
                if kind_of(&a) == 'p' { ModSpec::Purged(a) } else { ModSpec::Removed(a, v) }
            }
            6 => ModSpec::Purged(pick_attr(rng, acp.map(|a| &a.rem).unwrap_or(&empty))),
            7..=8 => {
                let both: Vec<String> = acp
                    .map(|a| a.pres.iter().filter(|x| a.rem.contains(x)).cloned().collect())
                    .unwrap_or_default();
                let a = pick_attr(rng, &both);
                if a == Attribute::Class {
                    // mostly: the classes of a typical target plus/minus one
                    let mut base: Vec<String> = match rng.below(3) {
                        0 => vec!["object", "account", "person", "memberof"],
                        1 => vec!["object", "group", "memberof"],
                        _ => vec!["object", "account", "person"],
                    }
                    .into_iter()
                    .map(String::from)
                    .collect();
                    if rng.chance(2, 3) {
                        base.push(rng.pick(&cls).to_string());
                    }
                    if rng.chance(1, 3) && !base.is_empty() {
                        let i = rng.below(base.len() as u64) as usize;
                        base.remove(i);
                    }
                    ModSpec::Set(a, base)
                } else if kind_of(&a) == 'p' {
                    ModSpec::Purged(a)
                } else {
                    ModSpec::Set(a, vec!["c24val".to_string()])
                }
            }
            _ => {
                let a = pick_attr(rng, acp.map(|a| &a.pres).unwrap_or(&empty));
                if kind_of(&a) == 'p' { ModSpec::Purged(a) } else { ModSpec::Assert(a, "person".to_string()) }
            }
        };
        out.push(m);
    }
    out
}

fn gen_newent(rng: &mut Rng, w: &World, k: u64, guide: Option<&AcpSpec>) -> NewEntSpec {
    let granted: Vec<&AcpSpec> = w.acps.iter().filter(|a| a.kind == Kind::Create && a.enabled).collect();
    let cls = cls_pool();
    let (mut classes, mut attrs): (Vec<String>, Vec<Attribute>) = if !granted.is_empty() && rng.chance(3, 4) {
        let a = guide.unwrap_or(*rng.pick(&granted));
        let mut cs: Vec<String> = a.c_classes.iter().filter(|_| rng.chance(3, 4)).cloned().collect();
        cs.dedup();
        let at: Vec<Attribute> = a.c_attrs.iter().filter(|_| rng.chance(2, 3)).map(|s| Attribute::from(s.as_str())).collect();
        (cs, at)
    } else {
        (vec!["object".into(), "person".into(), "account".into()], vec![Attribute::DisplayName, Attribute::Description])
    };
    if rng.chance(1, 5) {
        classes.push(rng.pick(&cls).to_string());
    }
    if rng.chance(1, 6) {
        attrs.push(rng.pick(&attr_pool()).0.clone());
    }
    if rng.chance(1, 15) {
        classes.clear();
    }
    attrs.retain(|a| kind_of(a) != 'p');
    let uuid = match rng.below(8) {
        0 => None,
        1 => Some(Uuid::from_u128(ANON - rng.below(3) as u128)),
        2 => Some(Uuid::from_u128(ANON + 1 + rng.below(2) as u128)),
        _ => Some(wu(0x600 + k)),
    };
    let mut name = if rng.chance(5, 6) { Some(format!("c24new{k}")) } else { None };
    let mut uuid = uuid;
    if let Some(g) = guide {
        if rng.chance(5, 6) {
            classes.retain(|c| !PROTECTED.contains(&c.as_str()));
        }
        if rng.chance(4, 5) {
            if !g.c_attrs.iter().any(|a| a == "name") {
                name = None;
            }
            if !g.c_attrs.iter().any(|a| a == "uuid") {
                uuid = None;
            }
            if !g.c_attrs.iter().any(|a| a == "class") {
                classes.clear();
            }
        }
    }
    NewEntSpec { uuid, classes, name, attrs }
}

/// A (user, target) pair for which the profile's receiver and target match (oracle's evaluator).
fn guided_pair(rng: &mut Rng, w: &World, acp: &AcpSpec, only: Option<&[usize]>) -> Option<(usize, usize)> {
    let mut pairs = vec![];
    for (ui, u) in w.uviews.iter().enumerate() {
        for (ti, v) in w.tviews.iter().enumerate() {
            if let Some(o) = only {
                if !o.contains(&ti) {
                    continue;
                }
            }
            if acp.matches(u, v) {
                pairs.push((ui, ti));
            }
        }
    }
    if pairs.is_empty() {
        None
    } else {
        Some(*rng.pick(&pairs))
    }
}

fn gen_case(rng: &mut Rng, w: &World) -> Case {
    let mut ident = gen_ident(rng, w);
    let nt = w.targets.len() as u64;
    let pick_targets = |rng: &mut Rng| -> Vec<usize> {
        let n = if rng.chance(1, 6) { 2 } else { 1 };
        (0..n).map(|_| rng.below(nt) as usize).collect()
    };
    let recycled: Vec<usize> = w.targets.iter().enumerate().filter(|(_, t)| t.1.starts_with("recycled")).map(|(i, _)| i).collect();
    if w.permissive && rng.chance(2, 5) {
        // protected sweep: user 0 holds every grant; one class change / create / delete per case
        let ident = if rng.chance(9, 10) { IdentSpec::User(0, 1) } else { ident.clone() };
        let mut pool: Vec<String> = PROTECTED.iter().map(|s| s.to_string()).collect();
        pool.extend(["person", "posixaccount", "extensibleobject", "c24custom"].iter().map(|s| s.to_string()));
        let c = rng.pick(&pool).clone();
        let t = rng.below(nt) as usize;
        let op = match rng.below(8) {
            0 | 1 => Op::Mod { targets: vec![t], ml: vec![ModSpec::Present(Attribute::Class, c)] },
            2 | 3 => Op::Mod { targets: vec![t], ml: vec![ModSpec::Removed(Attribute::Class, c)] },
            4 => {
                let mut cur: Vec<String> = w.tviews[t].classes.iter().cloned().collect();
                if rng.chance(1, 2) {
                    cur.push(c);
                } else {
                    cur.retain(|x| *x != c);
                }
                if cur.is_empty() {
                    cur.push("object".into());
                }
                Op::Mod { targets: vec![t], ml: vec![ModSpec::Set(Attribute::Class, cur)] }
            }
            5 => {
                let a = rng.pick(&attr_pool()).0.clone();
                let m = match (kind_of(&a), rng.below(3)) {
                    ('p', _) | (_, 0) => ModSpec::Purged(a),
                    (_, 1) => ModSpec::Present(a, "c24val".into()),
                    _ => ModSpec::Removed(a, "c24val".into()),
                };
                Op::Mod { targets: vec![t], ml: vec![m] }
            }
            6 => Op::Delete { targets: vec![t] },
            _ => {
                let mut classes = vec!["object".to_string(), "account".to_string(), "person".to_string()];
                if rng.chance(2, 3) {
                    classes.push(c);
                }
                Op::Create {
                    ents: vec![NewEntSpec {
                        uuid: Some(if rng.chance(1, 4) { Uuid::from_u128(ANON - rng.below(2) as u128) } else { wu(0x610) }),
                        classes,
                        name: Some("c24sweep".into()),
                        attrs: vec![Attribute::DisplayName],
                    }],
                }
            }
        };
        return Case { ident, op };
    }
    if w.halves && rng.chance(1, 6) {
        // union-vs-single-profile probe: covered by the two half profiles together only
        let mut attrs = vec![Attribute::DisplayName];
        if rng.chance(1, 2) {
            attrs.push(Attribute::Description);
        }
        let classes: Vec<String> = if rng.chance(3, 4) { vec!["object".into(), "person".into(), "account".into()] } else { vec!["object".into()] };
        return Case {
            ident: IdentSpec::User(0, 1),
            op: Op::Create { ents: vec![NewEntSpec { uuid: Some(wu(0x620)), classes, name: Some("c24half".into()), attrs }] },
        };
    }
    let guided = rng.chance(3, 5);
    let enabled = |k: Kind| -> Vec<&AcpSpec> { w.acps.iter().filter(|a| a.kind == k && a.enabled).collect() };
    let op = match rng.below(20) {
        0..=11 => {
            let batch = rng.chance(1, 6);
            let mut targets = pick_targets(rng);
            let mut ml = gen_modlist(rng, w, None);
            let ms = enabled(Kind::Modify);
            if guided && !ms.is_empty() {
                let acp = *rng.pick(&ms);
                if let Some((ui, ti)) = guided_pair(rng, w, acp, None) {
                    if rng.chance(9, 10) {
                        ident = IdentSpec::User(ui, 1);
                    }
                    targets = vec![ti];
                    if rng.chance(1, 8) {
                        targets.push(rng.below(nt) as usize);
                    }
                    ml = gen_modlist(rng, w, Some(acp));
                }
            }
            if batch {
                let items = targets
                    .into_iter()
                    .map(|t| (t, if rng.chance(1, 12) { None } else if rng.chance(1, 2) { Some(ml.clone()) } else { Some(gen_modlist(rng, w, None)) }))
                    .collect();
                Op::Batch { items }
            } else {
                Op::Mod { targets, ml }
            }
        }
        12..=14 => {
            let cs = enabled(Kind::Create);
            if guided && !cs.is_empty() {
                let acp = *rng.pick(&cs);
                if let Recv::Groups(gs) = &acp.recv {
                    let us: Vec<usize> = w.uviews.iter().enumerate().filter(|(_, u)| gs.iter().any(|g| u.memberof.contains(g))).map(|(i, _)| i).collect();
                    if !us.is_empty() && rng.chance(9, 10) {
                        ident = IdentSpec::User(*rng.pick(&us), 1);
                    }
                }
                Op::Create { ents: (0..if rng.chance(1, 8) { 2 } else { 1 }).map(|k| gen_newent(rng, w, k, Some(acp))).collect() }
            } else {
                Op::Create { ents: (0..if rng.chance(1, 6) { 2 } else { 1 }).map(|k| gen_newent(rng, w, k, None)).collect() }
            }
        }
        15..=17 => {
            let mut targets = pick_targets(rng);
            let ds = enabled(Kind::Delete);
            if guided && !ds.is_empty() {
                let acp = *rng.pick(&ds);
                if let Some((ui, ti)) = guided_pair(rng, w, acp, None) {
                    if rng.chance(9, 10) {
                        ident = IdentSpec::User(ui, 1);
                    }
                    targets = vec![ti];
                    if rng.chance(1, 8) {
                        targets.push(rng.below(nt) as usize);
                    }
                }
            }
            Op::Delete { targets }
        }
        _ => {
            let mut ts = vec![];
            if !recycled.is_empty() && rng.chance(5, 6) {
                ts.push(*rng.pick(&recycled));
                if rng.chance(1, 5) {
                    ts.push(*rng.pick(&recycled));
                }
                let ms: Vec<&AcpSpec> = enabled(Kind::Modify).into_iter().filter(|a| a.rem.iter().any(|x| x == "class") && a.eff_rem_cls().iter().any(|x| x == "recycled")).collect();
                if guided && !ms.is_empty() {
                    let acp = *rng.pick(&ms);
                    if let Some((ui, ti)) = guided_pair(rng, w, acp, Some(&recycled)) {
                        ident = IdentSpec::User(ui, 1);
                        ts = vec![ti];
                    }
                }
            } else {
                ts = pick_targets(rng);
            }
            Op::Revive { targets: ts }
        }
    };
    Case { ident, op }
}

// ---------------------------------------------------------------------------------------------
// real evaluation
// ---------------------------------------------------------------------------------------------

fn fetch(txn: &mut QueryServerWriteTransaction<'_>, u: Uuid) -> Option<Arc<Sealed>> {
    let f = Filter::new(f_eq(Attribute::Uuid, PartialValue::Uuid(u)));
    txn.internal_search(f).ok().and_then(|mut v| v.pop())
}

fn make_ident(txn: &mut QueryServerWriteTransaction<'_>, w: &World, s: &IdentSpec) -> (Identity, Option<UserView>, String) {
    let base = fetch(txn, w.users[0]).expect("user0");
    match s {
        IdentSpec::User(i, sc) => {
            let e = fetch(txn, w.users[*i]).expect("user");
            let mo = e.get_ava_refer(Attribute::MemberOf).cloned();
            let txt = format!(
                "U:{}:{}:{}",
                e.get_uuid().as_u128(),
                sc,
                match &mo {
                    Some(s) => list(s.iter().map(|u| u.as_u128())),
                    None => "!".into(),
                }
            );
            let uv = UserView { uuid: e.get_uuid(), memberof: mo.unwrap_or_default() };
            (Identity::from_impersonate_entry_readwrite(e).project_with_scope(scope_of(*sc)), Some(uv), txt)
        }
        IdentSpec::Synch(k, sc) => {
            let u = wu(0x500 + *k);
            let mut id = Identity::from_impersonate_entry_readwrite(base).project_with_scope(scope_of(*sc));
            id.origin = IdentType::Synch(u);
            (id, None, format!("S:{}:{}", u.as_u128(), sc))
        }
        IdentSpec::Internal(r, sc) => {
            let role = match r {
                0 => InternalRole::System,
                1 => InternalRole::Migration,
                2 => InternalRole::AccountRequest,
                _ => InternalRole::MessageQueue,
            };
            let mut id = Identity::from_impersonate_entry_readwrite(base).project_with_scope(scope_of(*sc));
            id.origin = IdentType::Internal(role);
            (id, None, format!("I:{}:{}", r, sc))
        }
    }
}

fn op_class(r: &Result<(), OperationError>) -> &'static str {
    match r {
        Ok(()) => "ok",
        Err(OperationError::AccessDenied) => "accessDenied",
        Err(OperationError::NoMatchingEntries) => "noMatchingEntries",
        Err(OperationError::EmptyRequest) => "emptyRequest",
        Err(_) => "other-error",
    }
}

/// model op result vs real result class
fn op_agrees(model: &str, real: &str) -> bool {
    match model {
        "proceed" => real == "ok" || real == "other-error",
        "nothingToDo" => real == "ok",
        m => m == real,
    }
}

struct Ctx<'a> {
    w: &'a World,
    n: &'a mut Names,
    d: &'a mut Driver,
    rep: &'a mut Report,
    input: J,
}

impl<'a> Ctx<'a> {
    fn mismatch(&mut self, what: &str, line: &str, model: &str, real: &str) {
        self.rep.fail(Failure {
            kind: "impl-vs-model".into(),
            class: format!("c24-{what}-mismatch"),
            input: json!({"replay": self.input, "what": what, "model_request": line}),
            expected: format!("model: {model}"),
            observed: format!("implementation: {real}"),
        });
    }
    fn violation(&mut self, class: &str, msg: String) {
        self.rep.fail(Failure {
            kind: "impl-vs-oracle".into(),
            class: class.into(),
            input: json!({"replay": self.input}),
            expected: "the property (C24) holds for every allowed operation".into(),
            observed: msg,
        });
    }
}

fn prot_classes(v: &BTreeSet<String>) -> BTreeSet<String> {
    v.iter().filter(|c| PROTECTED.contains(&c.as_str())).cloned().collect()
}

/// Oracle for an allowed modify of one entry (decision level). `None` = fine.
fn oracle_modify(w: &World, spec: &IdentSpec, user: &Option<UserView>, v: &View, ml: &[ModSpec]) -> Option<(String, String)> {
    let user = match (spec, user) {
        (IdentSpec::Internal(..), _) => return None,
        (IdentSpec::Synch(..), _) => return Some(("c24-sync-identity-wrote".into(), "a synchronisation identity was allowed to modify".into())),
        (IdentSpec::User(_, sc), Some(u)) => {
            if *sc != 1 {
                return Some(("c24-readonly-wrote".into(), format!("a user with scope {sc} (not read-write) was allowed to modify")));
            }
            u
        }
        _ => return None,
    };
    if v.classes.contains("tombstone") {
        return Some(("c24-tombstone-modified".into(), "a tombstone was allowed to be modified".into()));
    }
    let matching: Vec<&AcpSpec> = w.acps.iter().filter(|a| a.kind == Kind::Modify && a.matches(user, v)).collect();
    let mut add_attr: BTreeSet<String> = BTreeSet::new();
    let mut rem_attr: BTreeSet<String> = BTreeSet::new();
    let mut add_cls: BTreeSet<String> = BTreeSet::new();
    let mut rem_cls: BTreeSet<String> = BTreeSet::new();
    for m in ml {
        let a = m.attr().as_str().to_string();
        match m {
            ModSpec::Present(_, s) => {
                add_attr.insert(a.clone());
                if a == "class" {
                    add_cls.insert(s.clone());
                }
            }
            ModSpec::Removed(_, s) => {
                rem_attr.insert(a.clone());
                if a == "class" {
                    rem_cls.insert(s.clone());
                }
            }
            ModSpec::Purged(_) => {
                if a == "class" {
                    return Some(("c24-class-purged".into(), "a purge of the class attribute was allowed".into()));
                }
                rem_attr.insert(a.clone());
            }
            ModSpec::Set(_, vs) => {
                add_attr.insert(a.clone());
                rem_attr.insert(a.clone());
                if a == "class" {
                    let new: BTreeSet<String> = vs.iter().cloned().collect();
                    for c in new.difference(&v.classes) {
                        add_cls.insert(c.clone());
                    }
                    for c in v.classes.difference(&new) {
                        rem_cls.insert(c.clone());
                    }
                }
            }
            ModSpec::Assert(..) => {}
        }
    }
    for a in &add_attr {
        if !matching.iter().any(|p| p.pres.contains(a)) {
            return Some(("c24-ungranted-attr-added".into(), format!("attribute {a} was added without a matching profile granting it")));
        }
    }
    for a in &rem_attr {
        if !matching.iter().any(|p| p.rem.contains(a)) {
            return Some(("c24-ungranted-attr-removed".into(), format!("attribute {a} was removed without a matching profile granting it")));
        }
    }
    for c in &add_cls {
        if PROTECTED.contains(&c.as_str()) {
            return Some(("c24-protected-class-added".into(), format!("protected class {c} was allowed to be added")));
        }
        if !matching.iter().any(|p| p.eff_pres_cls().contains(c)) {
            return Some(("c24-ungranted-class-added".into(), format!("class {c} was added without a matching profile granting it")));
        }
    }
    for c in &rem_cls {
        if PROTECTED.contains(&c.as_str()) && c != "recycled" {
            return Some(("c24-protected-class-removed".into(), format!("protected class {c} was allowed to be removed")));
        }
        if !matching.iter().any(|p| p.eff_rem_cls().contains(c)) {
            return Some(("c24-ungranted-class-removed".into(), format!("class {c} was removed without a matching profile granting it")));
        }
    }
    None
}

fn oracle_delete(w: &World, spec: &IdentSpec, user: &Option<UserView>, v: &View) -> Option<(String, String)> {
    let user = match (spec, user) {
        (IdentSpec::Internal(..), _) => return None,
        (IdentSpec::Synch(..), _) => return Some(("c24-sync-identity-wrote".into(), "a synchronisation identity was allowed to delete".into())),
        (IdentSpec::User(_, sc), Some(u)) => {
            if *sc != 1 {
                return Some(("c24-readonly-wrote".into(), format!("a user with scope {sc} was allowed to delete")));
            }
            u
        }
        _ => return None,
    };
    if v.uuid.map(|u| u.as_u128() <= ANON).unwrap_or(false) {
        return Some(("c24-builtin-deleted".into(), "a builtin entry was allowed to be deleted".into()));
    }
    if !prot_classes(&v.classes).is_empty() {
        return Some(("c24-protected-deleted".into(), format!("an entry with protected classes {:?} was allowed to be deleted", prot_classes(&v.classes))));
    }
    if !w.acps.iter().any(|a| a.kind == Kind::Delete && a.matches(user, v)) {
        return Some(("c24-ungranted-delete".into(), "delete allowed without a matching delete profile".into()));
    }
    None
}

fn oracle_create(w: &World, spec: &IdentSpec, user: &Option<UserView>, v: &View) -> Option<(String, String)> {
    let user = match (spec, user) {
        (IdentSpec::Internal(..), _) => return None,
        (IdentSpec::Synch(..), _) => return Some(("c24-sync-identity-wrote".into(), "a synchronisation identity was allowed to create".into())),
        (IdentSpec::User(_, sc), Some(u)) => {
            if *sc != 1 {
                return Some(("c24-readonly-wrote".into(), format!("a user with scope {sc} was allowed to create")));
            }
            u
        }
        _ => return None,
    };
    if !prot_classes(&v.classes).is_empty() {
        return Some(("c24-protected-class-added".into(), format!("an entry with protected classes {:?} was allowed to be created", prot_classes(&v.classes))));
    }
    let matching: Vec<&AcpSpec> = w.acps.iter().filter(|a| a.kind == Kind::Create && a.recv != Recv::EntryManager && a.matches(user, v)).collect();
    for a in &v.attrs {
        if !matching.iter().any(|p| p.c_attrs.contains(a)) {
            return Some(("c24-ungranted-attr-added".into(), format!("create: attribute {a} not granted by any matching profile")));
        }
    }
    for c in &v.classes {
        if !matching.iter().any(|p| p.c_classes.contains(c)) {
            return Some(("c24-ungranted-class-added".into(), format!("create: class {c} not granted by any matching profile")));
        }
    }
    None
}

async fn run_case(cx: &mut Ctx<'_>, case: &Case) {
    let w = cx.w;
    let mut txn = w.qs.write(w.ct).await.expect("op txn");
    let (ident, user, ident_txt) = make_ident(&mut txn, w, &case.ident);
    let ik = match &case.ident {
        IdentSpec::User(_, 1) => "user-rw",
        IdentSpec::User(_, 0) => "user-ro",
        IdentSpec::User(..) => "user-syncscope",
        IdentSpec::Synch(..) => "synch",
        IdentSpec::Internal(0, _) => "internal-system",
        IdentSpec::Internal(1, _) => "internal-migration",
        IdentSpec::Internal(..) => "internal-other",
    };
    cx.rep.count(&format!("ident:{ik}"));
    let ag = w.agreements_model(cx.n);
    let refer = w.users[1];
    let mut nontrivial: Option<String> = None;
    match &case.op {
        Op::Mod { targets, ml } => {
            let ents: Vec<Arc<Sealed>> = targets.iter().filter_map(|t| fetch(&mut txn, w.targets[*t].0)).collect();
            for t in targets {
                cx.rep.count(&format!("target:{}", w.targets[*t].1));
            }
            let acps = w.acps_model(cx.n, Kind::Modify);
            let filter: Filter<FilterInvalid> =
                Filter::new(f_or(ents.iter().map(|e| f_eq(Attribute::Uuid, PartialValue::Uuid(e.get_uuid()))).collect()));
            let rl = ModifyList::<ModifyInvalid>::new_list(ml.iter().map(|m| m.real(refer)).collect());
            let me = match ModifyEvent::from_internal_parts(ident.clone(), &rl, &filter, &txn) {
                Ok(me) => me,
                Err(_) => {
                    cx.rep.count("skipped:modlist-invalid");
                    cx.rep.case(None);
                    return;
                }
            };
            if ml.iter().any(|m| matches!(m, ModSpec::Purged(Attribute::Class))) {
                cx.rep.count("request:purge-class");
            }
            // decision level
            let real = txn.get_accesscontrols().modify_allow_operation(&me, &ents).expect("modify_allow_operation");
            let es_txt = if ents.is_empty() { "-".to_string() } else { ents.iter().map(|e| ent_model(cx.n, e)).collect::<Vec<_>>().join("^") };
            let line = format!("mod\t{ident_txt}\t{ag}\t{acps}\t{es_txt}\t{}", modlist_model(cx.n, ml));
            let model = cx.d.ask(&line);
            cx.rep.count(&format!("mod:{}", if real { "allowed" } else { "denied" }));
            if model != (if real { "1" } else { "0" }) {
                cx.mismatch("modify-decision", &line, &model, &real.to_string());
            }
            if real && !ents.is_empty() {
                for e in &ents {
                    if let Some((class, msg)) = oracle_modify(w, &case.ident, &user, &view_of(e), ml) {
                        cx.violation(&class, msg);
                    }
                }
            }
            if let Some(u) = &user {
                let any_match = ents.iter().any(|e| w.acps.iter().any(|a| a.kind == Kind::Modify && a.matches(u, &view_of(e))));
                if any_match && matches!(case.ident, IdentSpec::User(_, 1)) {
                    nontrivial = Some(line.clone());
                }
            }
            // operation level
            if let Ok(cands) = txn.impersonate_search_valid(me.filter.clone(), me.filter_orig.clone(), &me.ident) {
                let cs_txt = if cands.is_empty() { "-".to_string() } else { cands.iter().map(|e| ent_model(cx.n, e)).collect::<Vec<_>>().join("^") };
                let pre: Vec<(Uuid, BTreeSet<String>)> = cands.iter().map(|e| (e.get_uuid(), view_of(e).classes)).collect();
                let r = txn.modify(&me);
                let rc = op_class(&r);
                let line = format!("modop\t{ident_txt}\t{ag}\t{acps}\t{cs_txt}\t{}", modlist_model(cx.n, ml));
                let model = cx.d.ask(&line);
                cx.rep.count(&format!("modop:{rc}"));
                if !op_agrees(&model, rc) {
                    cx.mismatch("modify-operation", &line, &model, &format!("{rc} ({r:?})"));
                }
                if r.is_ok() && !matches!(case.ident, IdentSpec::Internal(..)) {
                    for (u, before) in &pre {
                        let after = fetch(&mut txn, *u).map(|e| view_of(&e).classes).unwrap_or_default();
                        if prot_classes(before) != prot_classes(&after) {
                            cx.violation(
                                "c24-protected-classes-changed",
                                format!("modify succeeded and changed the protected classes of {u}: {:?} -> {:?}", prot_classes(before), prot_classes(&after)),
                            );
                        }
                    }
                }
            }
        }
        Op::Batch { items } => {
            let mut ents = vec![];
            let mut modset = BTreeMap::new();
            let mut pairs = vec![];
            let mut kept: Vec<Option<Vec<ModSpec>>> = vec![];
            let mut ok = true;
            for (t, ml) in items {
                let fe = fetch(&mut txn, w.targets[*t].0);
                if fe.is_none() {
                    cx.rep.count(&format!("missing-target:{}", w.targets[*t].1));
                }
                if let Some(e) = fe {
                    if ents.iter().any(|x: &Arc<Sealed>| x.get_uuid() == e.get_uuid()) {
                        continue;
                    }
                    if let Some(ml) = ml {
                        let rl = ModifyList::<ModifyInvalid>::new_list(ml.iter().map(|m| m.real(refer)).collect());
                        match rl.validate(txn.get_schema()) {
                            Ok(v) => {
                                modset.insert(e.get_uuid(), v);
                            }
                            Err(_) => ok = false,
                        }
                    }
                    kept.push(ml.clone());
                    pairs.push(format!("{}@{}", ent_model(cx.n, &e), match ml { Some(ml) => modlist_model(cx.n, ml), None => "!".into() }));
                    ents.push(e);
                }
            }
            if !ok {
                cx.rep.count("skipped:modlist-invalid");
                cx.rep.case(None);
                return;
            }
            let be = BatchModifyEvent { ident: ident.clone(), modset };
            let real = txn.get_accesscontrols().batch_modify_allow_operation(&be, &ents).expect("batch allow");
            let acps = w.acps_model(cx.n, Kind::Modify);
            let line = format!("bat\t{ident_txt}\t{ag}\t{acps}\t{}", if pairs.is_empty() { "-".to_string() } else { pairs.join("^") });
            let model = cx.d.ask(&line);
            cx.rep.count(&format!("bat:{}", if real { "allowed" } else { "denied" }));
            if model != (if real { "1" } else { "0" }) {
                cx.mismatch("batch-decision", &line, &model, &real.to_string());
            }
            if real {
                for (e, ml) in ents.iter().zip(kept.iter()) {
                    if let Some(ml) = ml {
                        if let Some((class, msg)) = oracle_modify(w, &case.ident, &user, &view_of(e), ml) {
                            cx.violation(&class, msg);
                        }
                    }
                }
                if matches!(case.ident, IdentSpec::User(_, 1)) && !ents.is_empty() {
                    nontrivial = Some(line.clone());
                }
            }
        }
        Op::Create { ents } => {
            let real_ents: Vec<NewE> = ents.iter().map(|s| s.entry(refer)).collect();
            let acps = w.acps_model(cx.n, Kind::Create);
            let ce = CreateEvent::new_impersonate_identity(ident.clone(), real_ents.clone());
            let real = txn.get_accesscontrols().create_allow_operation(&ce, &real_ents).expect("create allow");
            let es_txt = ents.iter().zip(real_ents.iter()).map(|(s, e)| s.model(cx.n, e, refer)).collect::<Vec<_>>().join("^");
            let line = format!("cre\t{ident_txt}\t{acps}\t{es_txt}");
            let model = cx.d.ask(&line);
            cx.rep.count(&format!("cre:{}", if real { "allowed" } else { "denied" }));
            if model != (if real { "1" } else { "0" }) {
                cx.mismatch("create-decision", &line, &model, &real.to_string());
            }
            if real {
                for (s, e) in ents.iter().zip(real_ents.iter()) {
                    if let Some((class, msg)) = oracle_create(w, &case.ident, &user, &s.view(e)) {
                        cx.violation(&class, msg);
                    }
                }
            }
            if let Some(u) = &user {
                let any = ents.iter().zip(real_ents.iter()).any(|(s, e)| w.acps.iter().any(|a| a.kind == Kind::Create && a.matches(u, &s.view(e))));
                if any && matches!(case.ident, IdentSpec::User(_, 1)) {
                    nontrivial = Some(line.clone());
                }
            }
            let r = txn.create(&ce).map(|_| ());
            let rc = op_class(&r);
            let line = format!("creop\t{ident_txt}\t{acps}\t{es_txt}");
            let model = cx.d.ask(&line);
            cx.rep.count(&format!("creop:{rc}"));
            if !op_agrees(&model, rc) {
                cx.mismatch("create-operation", &line, &model, &format!("{rc} ({r:?})"));
            }
            if r.is_ok() && !matches!(case.ident, IdentSpec::Internal(..)) {
                for s in ents {
                    if let Some(u) = s.uuid {
                        if let Some(e) = fetch(&mut txn, u) {
                            let p = prot_classes(&view_of(&e).classes);
                            if !p.is_empty() {
                                cx.violation("c24-protected-class-added", format!("create succeeded and the stored entry {u} carries protected classes {p:?}"));
                            }
                        }
                    }
                }
            }
        }
        Op::Delete { targets } => {
            let ents: Vec<Arc<Sealed>> = targets.iter().filter_map(|t| fetch(&mut txn, w.targets[*t].0)).collect();
            for t in targets {
                cx.rep.count(&format!("target:{}", w.targets[*t].1));
            }
            let acps = w.acps_model(cx.n, Kind::Delete);
            let filter: Filter<FilterInvalid> =
                Filter::new(f_or(ents.iter().map(|e| f_eq(Attribute::Uuid, PartialValue::Uuid(e.get_uuid()))).collect()));
            let de = match DeleteEvent::from_parts(ident.clone(), &filter, &mut txn) {
                Ok(d) => d,
                Err(_) => {
                    cx.rep.case(None);
                    return;
                }
            };
            let real = txn.get_accesscontrols().delete_allow_operation(&de, &ents).expect("delete allow");
            let es_txt = if ents.is_empty() { "-".to_string() } else { ents.iter().map(|e| ent_model(cx.n, e)).collect::<Vec<_>>().join("^") };
            let line = format!("del\t{ident_txt}\t{acps}\t{es_txt}");
            let model = cx.d.ask(&line);
            cx.rep.count(&format!("del:{}", if real { "allowed" } else { "denied" }));
            if model != (if real { "1" } else { "0" }) {
                cx.mismatch("delete-decision", &line, &model, &real.to_string());
            }
            if real {
                for e in &ents {
                    if let Some((class, msg)) = oracle_delete(w, &case.ident, &user, &view_of(e)) {
                        cx.violation(&class, msg);
                    }
                }
            }
            if let Some(u) = &user {
                let any = ents.iter().any(|e| w.acps.iter().any(|a| a.kind == Kind::Delete && a.matches(u, &view_of(e))));
                if any && matches!(case.ident, IdentSpec::User(_, 1)) {
                    nontrivial = Some(line.clone());
                }
            }
            if let Ok(cands) = txn.impersonate_search_valid(de.filter.clone(), de.filter_orig.clone(), &de.ident) {
                let cs_txt = if cands.is_empty() { "-".to_string() } else { cands.iter().map(|e| ent_model(cx.n, e)).collect::<Vec<_>>().join("^") };
                let pre: Vec<View> = cands.iter().map(|e| view_of(e)).collect();
                let r = txn.delete(&de);
                let rc = op_class(&r);
                let line = format!("delop\t{ident_txt}\t{acps}\t{cs_txt}");
                let model = cx.d.ask(&line);
                cx.rep.count(&format!("delop:{rc}"));
                if !op_agrees(&model, rc) {
                    cx.mismatch("delete-operation", &line, &model, &format!("{rc} ({r:?})"));
                }
                if r.is_ok() && !matches!(case.ident, IdentSpec::Internal(..)) {
                    for v in &pre {
                        if let Some((class, msg)) = oracle_delete(w, &case.ident, &user, v) {
                            cx.violation(&class, format!("delete operation succeeded: {msg}"));
                        }
                    }
                }
            }
        }
        Op::Revive { targets } => {
            let ents: Vec<Arc<Sealed>> = targets.iter().filter_map(|t| fetch(&mut txn, w.targets[*t].0)).collect();
            for t in targets {
                cx.rep.count(&format!("target:{}", w.targets[*t].1));
            }
            let acps = w.acps_model(cx.n, Kind::Modify);
            let filter: Filter<FilterInvalid> =
                Filter::new(f_or(ents.iter().map(|e| f_eq(Attribute::Uuid, PartialValue::Uuid(e.get_uuid()))).collect()));
            let re = match ReviveRecycledEvent::from_parts(ident.clone(), &filter, &txn) {
                Ok(r) => r,
                Err(_) => {
                    cx.rep.case(None);
                    return;
                }
            };
            if let Ok(cands) = txn.impersonate_search_valid(re.filter.clone(), re.filter.clone(), &re.ident) {
                let cs_txt = if cands.is_empty() { "-".to_string() } else { cands.iter().map(|e| ent_model(cx.n, e)).collect::<Vec<_>>().join("^") };
                let pre: Vec<(Uuid, View)> = cands.iter().map(|e| (e.get_uuid(), view_of(e))).collect();
                let r = txn.revive_recycled(&re);
                let rc = op_class(&r);
                let line = format!("revop\t{ident_txt}\t{ag}\t{acps}\t{cs_txt}");
                let model = cx.d.ask(&line);
                cx.rep.count(&format!("revop:{rc}"));
                if !op_agrees(&model, rc) {
                    cx.mismatch("revive-operation", &line, &model, &format!("{rc} ({r:?})"));
                }
                if r.is_ok() && !matches!(case.ident, IdentSpec::Internal(..)) {
                    let ml = vec![ModSpec::Removed(Attribute::Class, "recycled".into())];
                    for (u, v) in &pre {
                        if !v.classes.contains("recycled") {
                            cx.violation("c24-revive-of-live-entry", format!("revive succeeded on {u} which was not recycled"));
                        }
                        if let Some((class, msg)) = oracle_modify(w, &case.ident, &user, v, &ml) {
                            cx.violation(&class, format!("revive succeeded: {msg}"));
                        }
                        let after = fetch(&mut txn, *u).map(|e| view_of(&e).classes).unwrap_or_default();
                        let mut want = prot_classes(&v.classes);
                        want.remove("recycled");
                        if prot_classes(&after) != want {
                            cx.violation("c24-protected-classes-changed", format!("revive of {u}: protected classes {:?} -> {:?}", prot_classes(&v.classes), prot_classes(&after)));
                        }
                    }
                }
                if matches!(case.ident, IdentSpec::User(_, 1)) && !cands.is_empty() {
                    nontrivial = Some(line.clone());
                }
            }
        }
    }
    cx.rep.case(nontrivial);
    // the transaction is dropped here: the world never changes
}

fn case_json(seed: u64, world: u64, idx: u64) -> J {
    json!({"seed": seed, "world": world, "case": idx})
}

#[tokio::main(flavor = "multi_thread", worker_threads = 2)]
async fn main() {
    let args = Args::parse();
    let mut rep = Report::new(
        "access-write",
        "read-write user identity and at least one enabled profile of the operation's kind whose receiver and target match the entry (distinct model requests)",
    );
    let mut d = Driver::spawn(&args.driver);
    let mut names = Names::from_driver(&mut d);

    if let Some(path) = &args.replay {
        let txt = std::fs::read_to_string(path).expect("replay file");
        let v: J = serde_json::from_str(&txt).expect("replay json");
        let inp = v.get("input").cloned().unwrap_or(v.clone());
        let inp = inp.get("replay").cloned().unwrap_or(inp);
        let seed = inp["seed"].as_u64().expect("seed");
        let world = inp["world"].as_u64().expect("world");
        let idx = inp["case"].as_u64().expect("case");
        let w = World::build(seed, world).await;
        let mut rng = Rng::for_case(seed, world * 1_000_000 + idx);
        let case = gen_case(&mut rng, &w);
        rep.note(format!("replay: {case:?}"));
        let mut cx = Ctx { w: &w, n: &mut names, d: &mut d, rep: &mut rep, input: case_json(seed, world, idx) };
        run_case(&mut cx, &case).await;
        rep.model_requests = d.requests;
        rep.write(&args.out);
        println!("c24 replay: {} failure(s)", rep.failures.len());
        return;
    }

    let worlds = args.cases(20, 120);
    let per_world = if args.thorough() { 700 } else { 450 };
    for wi in 0..worlds {
        let w = World::build(args.seed, wi).await;
        if wi == 0 {
            rep.sample(json!({"world": wi, "targets": w.targets.iter().map(|t| t.1).collect::<Vec<_>>(), "profiles": w.acps.iter().take(3).map(|a| format!("{a:?}")).collect::<Vec<_>>()}));
        }
        rep.count_n("profiles", w.acps.len() as u64);
        for ci in 0..per_world {
            let mut rng = Rng::for_case(args.seed, wi * 1_000_000 + ci);
            let case = gen_case(&mut rng, &w);
            if wi == 0 && ci < 3 {
                rep.sample(json!({"world": wi, "case": ci, "op": format!("{case:?}")}));
            }
            let mut cx = Ctx { w: &w, n: &mut names, d: &mut d, rep: &mut rep, input: case_json(args.seed, wi, ci) };
            run_case(&mut cx, &case).await;
        }
    }
    let _ = (&names.cls, &w_unused());
    rep.model_requests = d.requests;
    let nt = rep.nontrivial_keys.len() as u64;
    if nt * 10 < rep.evaluations {
        rep.note(format!("low non-trivial fraction: {nt} of {}", rep.evaluations));
    }
    rep.write(&args.out);
    println!(
        "c24 access-write: {} cases, {} non-trivial, {} model requests, {} failure(s)",
        rep.evaluations,
        nt,
        rep.model_requests,
        rep.failures.len()
    );
}

fn w_unused() -> u8 {
    let _ = (f_and(vec![]), f_andnot(f_pres(Attribute::Class)), f_self());
    let _: Option<FC> = None;
    0
}
