//! vtranslate — regenerates the table-like / operator-like parts of the Lean model from
//! /repo's source text (syn AST), on every check run.  It never guesses: a source shape
//! it does not recognise is an error (reported as broken obligation `translate:<item>`).
//!
//!   vtranslate --repo /repo --out lean/KanidmModel/Generated <item>
//!   vtranslate --repo /repo fingerprint <file>::<fn-spec> ...
mod items;
mod util;

fn main() {
    let args: Vec<String> = std::env::args().skip(1).collect();
    let mut repo = "/repo".to_string();
    let mut out = String::new();
    let mut rest = vec![];
    let mut i = 0;
    while i < args.len() {
        match args[i].as_str() {
            "--repo" => {
                repo = args[i + 1].clone();
                i += 2;
            }
            "--out" => {
                out = args[i + 1].clone();
                i += 2;
            }
            _ => {
                rest.push(args[i].clone());
                i += 1;
            }
        }
    }
    if rest.is_empty() {
        eprintln!("usage: vtranslate --repo R --out DIR <item> | fingerprint <file>::<fn>...");
        std::process::exit(2);
    }
    if rest[0] == "fingerprint" {
        let mut m = serde_json::Map::new();
        for spec in &rest[1..] {
            let (file, f) = match spec.split_once("::") {
                Some(x) => x,
                None => {
                    eprintln!("bad fingerprint spec {spec}");
                    std::process::exit(1);
                }
            };
            let r = util::parse_file(&repo, file).and_then(|ast| util::find_fn(&ast, f));
            match r {
                Ok(found) => {
                    m.insert(spec.clone(), serde_json::Value::String(util::fingerprint(&found)));
                }
                Err(e) => {
                    // a vanished function is itself a fingerprint change
                    m.insert(spec.clone(), serde_json::Value::String(format!("missing: {e}")));
                }
            }
        }
        println!("{}", serde_json::Value::Object(m));
        return;
    }
    let item = &rest[0];
    match items::run(item, &repo, &out) {
        Ok(msg) => println!("{msg}"),
        Err(e) => {
            eprintln!("vtranslate {item}: {e}");
            std::process::exit(1);
        }
    }
}
