//! C26 translator item `recycle-ops`: the two retention constants of a production build, the
//! comparison operators of both purge cut-offs and the attribute moves of the recycle-bin
//! lifecycle, re-read from the source for `KanidmModel/Recycle.lean`.  Everything else the
//! model assumes about the shape of `delete`, `revive_recycled`, `purge_recycled`,
//! `purge_tombstones`, `reap_tombstones`, `trim_up_to`, `can_delete`, `sub_secs`,
//! `to_recycled/to_revived/to_tombstone`, the hidden-entry filters and the purge callers is
//! checked token by token: an unrecognised shape is an error, never a guess.
use crate::util::*;
use quote::ToTokens;

pub fn run(item: &str, repo: &str, out: &str) -> Option<Result<String, String>> {
    match item {
        "recycle-ops" => Some(recycle_ops(repo, out)),
        _ => None,
    }
}

/// Token text without any whitespace (comments are not tokens).
fn squash<T: ToTokens>(t: &T) -> String {
    t.to_token_stream().to_string().chars().filter(|c| !c.is_whitespace()).collect()
}

fn count(hay: &str, needle: &str) -> usize {
    hay.matches(needle).count()
}

fn need(hay: &str, what: &str, needles: &[&str]) -> Result<(), String> {
    for n in needles {
        if count(hay, n) != 1 {
            return Err(format!("{what}: expected exactly one `{n}`, found {}", count(hay, n)));
        }
    }
    Ok(())
}

/// positions strictly increasing
fn in_order(hay: &str, what: &str, needles: &[&str]) -> Result<(), String> {
    let mut last = 0usize;
    for n in needles {
        match hay[last..].find(n) {
            Some(p) => last += p + n.len(),
            None => return Err(format!("{what}: `{n}` missing or out of order")),
        }
    }
    Ok(())
}

/// `#[cfg(not(test))] pub const NAME: u64 = <expr>;` (the production value) and the test twin.
fn prod_const(file: &syn::File, name: &str) -> Result<i128, String> {
    let mut prod = vec![];
    let mut others = 0;
    for it in &file.items {
        if let syn::Item::Const(c) = it {
            if c.ident == name {
                let cfgs: Vec<String> = c.attrs.iter().filter(|a| a.path().is_ident("cfg")).map(squash).collect();
                if cfgs.iter().any(|a| a == "#[cfg(not(test))]") {
                    prod.push(eval_int(&c.expr, &|_| None)?);
                } else if cfgs.iter().any(|a| a == "#[cfg(test)]") {
                    others += 1;
                } else {
                    return Err(format!("const {name}: unexpected cfg attributes {cfgs:?}"));
                }
            }
        }
    }
    match (prod.as_slice(), others) {
        ([v], 1) => Ok(*v),
        _ => Err(format!("const {name}: expected one cfg(not(test)) and one cfg(test) definition, found {} / {others}", prod.len())),
    }
}

/// the operator between `left` and `right` in `hay` (`left OP right`), OP ∈ {<, <=, >, >=}
fn op_between(hay: &str, what: &str, left: &str, right: &str) -> Result<&'static str, String> {
    let mut found = vec![];
    for (tok, lean) in [("<=", "le"), (">=", "ge"), ("<", "lt"), (">", "gt")] {
        if count(hay, &format!("{left}{tok}{right}")) == 1 {
            found.push(lean);
        }
    }
    match found.as_slice() {
        [one] => Ok(one),
        _ => Err(format!("{what}: expected exactly one comparison `{left} OP {right}`, found {found:?} in `{hay}`")),
    }
}

fn recycle_ops(repo: &str, out: &str) -> Result<String, String> {
    // ---- constants
    let consts = parse_file(repo, "server/lib/src/constants/mod.rs")?;
    let rb = prod_const(&consts, "RECYCLEBIN_MAX_AGE")?;
    let cl = prod_const(&consts, "CHANGELOG_MAX_AGE")?;
    if rb <= 0 || cl <= 0 {
        return Err(format!("retention constants must be positive: {rb} / {cl}"));
    }
    // ---- purge_recycled
    let recycle = parse_file(repo, "server/lib/src/server/recycle.rs")?;
    let pr = squash(&find_fn(&recycle, "QueryServerWriteTransaction::purge_recycled")?.block);
    need(
        &pr,
        "purge_recycled",
        &[
            "letcid=self.cid.sub_secs(RECYCLEBIN_MAX_AGE)",
            "f_eq(Attribute::Class,EntryClass::Recycled.into())",
            "e.to_tombstone(self.cid.clone())",
            "self.be_txn.modify(&self.cid,&rc,&tombstone_cand)",
            "lettouched=tombstone_cand.len();",
        ],
    )?;
    let mut pr_ops = vec![];
    for (f, lean) in [("f_lt", "lt"), ("f_gt", "gt")] {
        if count(&pr, &format!("{f}(Attribute::LastModifiedCid,PartialValue::new_cid(cid))")) == 1 {
            pr_ops.push(lean);
        }
    }
    let pr_op = match pr_ops.as_slice() {
        [one] => *one,
        _ => return Err(format!("purge_recycled: expected one ordering term on LastModifiedCid against the cut-off, found {pr_ops:?}")),
    };
    if count(&pr, "filter_all!(f_and!([f_eq(Attribute::Class,EntryClass::Recycled.into()),f_") != 1 {
        return Err("purge_recycled: the search is no longer filter_all!(f_and!([class = recycled, <cut-off term>]))".into());
    }
    // f_lt is FC::LessThan, evaluated by ValueSetCid::lessthan as `c1 < c2` on the derived order of Cid
    let filter = parse_file(repo, "server/lib/src/filter.rs")?;
    let flt = squash(&find_fn(&filter, "f_lt")?.block);
    if flt != "{FC::LessThan(a,v)}" {
        return Err(format!("f_lt is no longer FC::LessThan(a, v): {flt}"));
    }
    let vcid = parse_file(repo, "server/lib/src/valueset/cid.rs")?;
    let lessthan = squash(&find_fn(&vcid, "ValueSetCid::lessthan")?.block);
    if lessthan != "{matchpv{PartialValue::Cid(c2)=>self.set.iter().any(|c1|c1<c2),_=>false,}}" {
        return Err(format!("ValueSetCid::lessthan has an unexpected shape: {lessthan}"));
    }
    // ---- write(): trim_cid
    let server = parse_file(repo, "server/lib/src/server/mod.rs")?;
    let write = squash(&find_fn(&server, "QueryServer::write")?.block);
    need(&write, "QueryServer::write", &["lettrim_cid=cid.sub_secs(CHANGELOG_MAX_AGE)?;", "*cid=Cid::new_lamport(cid.s_uuid,curtime,&cid.ts);"])?;
    // ---- purge_tombstones / reap_tombstones / trim_up_to / can_delete
    let pt = squash(&find_fn(&recycle, "QueryServerWriteTransaction::purge_tombstones")?.block);
    need(&pt, "purge_tombstones", &["lettrim_cid=self.trim_cid().clone();", "letanchor_cid=self.get_txn_cid().clone();", ".reap_tombstones(&anchor_cid,&trim_cid)"])?;
    let be = parse_file(repo, "server/lib/src/be/mod.rs")?;
    let reap = squash(&find_fn(&be, "BackendWriteTransaction::reap_tombstones")?.block);
    in_order(
        &reap,
        "reap_tombstones",
        &[
            "letidl=self.get_ruv().trim_up_to(trim_cid)",
            ".get_identry(&IdList::Indexed(idl))",
            ".partition(|e|e.get_changestate().can_delete(trim_cid));",
            "letid_list:IDLBitRange=tombstones.iter().map(|e|e.get_id()).collect();",
            "self.get_idlayer().delete_identry(id_list.into_iter())?;",
        ],
    )?;
    let ruv = parse_file(repo, "server/lib/src/repl/ruv.rs")?;
    let trim = squash(&find_fn(&ruv, "ReplicationUpdateVectorWriteTransaction::trim_up_to")?.block);
    let range_op = match (count(&trim, "self.data.range((Unbounded,Excluded(cid)))"), count(&trim, "self.data.range((Unbounded,Included(cid)))")) {
        (1, 0) => "lt",
        (0, 1) => "le",
        _ => return Err("trim_up_to: the examined range is neither (Unbounded, Excluded(cid)) nor (Unbounded, Included(cid))".into()),
    };
    need(&trim, "trim_up_to", &["idl=ex_idlas&_|&idl;", "Ok(idl)"])?;
    let rentry = parse_file(repo, "server/lib/src/repl/entry.rs")?;
    let cd = squash(&find_fn(&rentry, "EntryChangeState::can_delete")?.block);
    let cd_op = op_between(&cd, "can_delete", "State::Tombstone{at}=>at", "cid")?;
    let cd_live = match (count(&cd, "State::Live{..}=>false"), count(&cd, "State::Live{..}=>true")) {
        (1, 0) => false,
        (0, 1) => true,
        _ => return Err(format!("can_delete: unexpected arm for live entries: {cd}")),
    };
    if !cd.starts_with("{match&self.st{") {
        return Err(format!("can_delete is no longer a match on the entry state: {cd}"));
    }
    // ---- Cid::sub_secs
    let cidf = parse_file(repo, "server/lib/src/repl/cid.rs")?;
    let ss = squash(&find_fn(&cidf, "Cid::sub_secs")?.block);
    need(&ss, "Cid::sub_secs", &["self.ts.checked_sub(Duration::from_secs(secs))", "s_uuid:uuid!(\"00000000-0000-0000-0000-000000000000\")", "ts:r", ".ok_or(OperationError::InvalidReplChangeId)"])?;
    // ---- entry state moves
    let entry = parse_file(repo, "server/lib/src/entry.rs")?;
    let to_rec = squash(&find_fn(&entry, "to_recycled")?.block);
    need(&to_rec, "to_recycled", &["self.add_ava(Attribute::Class,EntryClass::Recycled.into());"])?;
    let to_rev = squash(&find_fn(&entry, "to_revived")?.block);
    need(&to_rev, "to_revived", &["self.remove_ava(Attribute::Class,&EntryClass::Recycled.into());"])?;
    let purges_casc = count(&to_rev, "self.purge_ava(Attribute::CascadeDeleted);") == 1;
    let purges_rdmo = count(&to_rev, "self.purge_ava(Attribute::RecycledDirectMemberOf);") == 1;
    let to_tomb = squash(&find_fn(&entry, "to_tombstone")?.block);
    need(
        &to_tomb,
        "to_tombstone",
        &[
            "letmutattrs_new:Eattrs=Map::new();",
            "attrs_new.insert(Attribute::Uuid,vs_uuid![self.get_uuid()]);",
            "attrs_new.insert(Attribute::Class,class_ava);",
            "attrs_new.insert(Attribute::LastModifiedCid,last_mod_ava);",
            "attrs_new.insert(Attribute::CreatedAtCid,created_ava);",
            "letclass_ava=vs_iutf8![EntryClass::Object.into(),EntryClass::Tombstone.into()];",
            "letlast_mod_ava=vs_cid![cid.clone()];",
            "ecstate.tombstone(&cid);",
            "attrs:attrs_new,",
        ],
    )?;
    if count(&to_tomb, "attrs_new.insert(") != 4 {
        return Err("to_tombstone keeps more than uuid, class and the two cids".into());
    }
    // ---- the hidden-entry filters of normal and recycle-bin requests
    let nih = squash(&find_fn(&filter, "FilterComp::new_ignore_hidden")?.block);
    if nih != "{FilterComp::And(vec![FilterComp::AndNot(Box::new(FilterComp::Or(vec![FilterComp::Eq(Attribute::Class,EntryClass::Tombstone.into()),FilterComp::Eq(Attribute::Class,EntryClass::Recycled.into()),]))),fc,])}" {
        return Err(format!("FilterComp::new_ignore_hidden no longer excludes exactly tombstones and recycled entries: {nih}"));
    }
    let nrec = squash(&find_fn(&filter, "FilterComp::new_recycled")?.block);
    if nrec != "{FilterComp::And(vec![FilterComp::Eq(Attribute::Class,EntryClass::Recycled.into()),fc,])}" {
        return Err(format!("FilterComp::new_recycled is no longer `class = recycled AND fc`: {nrec}"));
    }
    let event = parse_file(repo, "server/lib/src/event.rs")?;
    let rfp = squash(&find_fn(&event, "ReviveRecycledEvent::from_parts")?.block);
    need(&rfp, "ReviveRecycledEvent::from_parts", &[".map(|f|f.into_recycled())"])?;
    // ---- revive_recycled
    let rv = squash(&find_fn(&recycle, "QueryServerWriteTransaction::revive_recycled")?.block);
    in_order(
        &rv,
        "revive_recycled",
        &[
            "self.impersonate_search_valid(re.filter.clone(),re.filter.clone(),&re.ident)?;",
            "returnErr(OperationError::NoMatchingEntries);",
            "letreferences_filt=filter_rec!(f_or(pre_candidates.iter().map(|entry|{f_eq(Attribute::CascadeDeleted,PartialValue::Uuid(entry.get_uuid()),)}).collect(),));",
            "pre_candidates.append(&mutpre_cascade_revive_candidates);",
            "ifletSome(refers_uuid)=entry.get_ava_single_uuid(Attribute::CascadeDeleted)",
            ".map(|er|er.to_revived())",
            "Plugins::run_pre_modify(self,&pre_candidates,&mutcandidates,&me)",
            "e.validate(&self.schema)",
            "forentryin&pre_candidates{",
            "ifletSome(riter)=entry.get_ava_as_refuuid(Attribute::RecycledDirectMemberOf)",
            "self.modify_apply(mp)?;",
            "for(g,mods)indm_mods{",
            "letf=filter_all!(f_eq(Attribute::Uuid,PartialValue::Uuid(g)));",
            "self.internal_modify(&f,&mods)?;",
        ],
    )?;
    let restores_refers = count(&rv, "entry.set_ava_set(&Attribute::Refers,ValueSetRefer::new(refers_uuid));") == 1;
    if count(&rv, "letm=Modify::Present(Attribute::Member,Value::Refer(u));") != 2 {
        return Err("revive_recycled: the membership mods are no longer Present(member, revived uuid)".into());
    }
    // ---- delete
    let delete = parse_file(repo, "server/lib/src/server/delete.rs")?;
    let dl = squash(&find_fn(&delete, "QueryServerWriteTransaction::delete")?.block);
    in_order(
        &dl,
        "delete",
        &[
            "returnErr(OperationError::NoMatchingEntries);",
            "ifpre_candidates.iter().any(|e|e.mask_tombstone().is_none()){",
            "letreferences_filt=filter!(f_or(pre_candidates.iter().map(|entry|{f_eq(Attribute::Refers,PartialValue::Refer(entry.get_uuid()))}).collect(),));",
            "assert!(candidate_uuids.is_disjoint(&ref_candidate_uuids));",
            "ifletSome(refer_uuid)=entry.get_ava_single_refer(Attribute::Refers){",
            "pre_candidates.append(&mutpre_cascade_delete_candidates);",
            "Plugins::run_pre_delete(self,&mutcandidates,de)",
            "e.to_recycled().validate(&self.schema)",
            "self.be_txn.modify(&self.cid,&pre_candidates,&del_cand)",
            "Plugins::run_post_delete(self,&del_cand,de)",
        ],
    )?;
    let marks_cascade = count(&dl, "entry.add_ava(Attribute::CascadeDeleted,Value::Uuid(refer_uuid));") == 1;
    let de = squash(&find_fn(&event, "DeleteEvent::from_parts")?.block);
    need(&de, "DeleteEvent::from_parts", &["letfilter=filter_orig.clone().into_ignore_hidden();"])?;
    // ---- memberof::pre_delete (stash of directmemberof) and refint::remove_references (all entries, recycled included)
    let mo = parse_file(repo, "server/lib/src/plugins/memberof.rs")?;
    let pd = squash(&find_fn(&mo, "MemberOf::pre_delete")?.block);
    let stash = count(&pd, "ifletSome(direct_mo_vs)=entry.pop_ava(Attribute::DirectMemberOf){entry.set_ava_set(&Attribute::RecycledDirectMemberOf,direct_mo_vs);}else{entry.purge_ava(Attribute::RecycledDirectMemberOf);}") == 1;
    let refint = parse_file(repo, "server/lib/src/plugins/refint.rs")?;
    let rr = squash(&find_fn(&refint, "ReferentialIntegrity::remove_references")?.block);
    in_order(
        &rr,
        "refint::remove_references",
        &[
            "letref_types=schema.get_reference_types();",
            "letfilt=filter_all!(f_or(uuids.into_iter().flat_map(|u|ref_types.values().map(move|r_type|{f_eq(r_type.name.clone(),PartialValue::Refer(u))})).collect(),));",
            "letmutwork_set=qs.internal_search_writeable(&filt)?;",
            "post.remove_avas(&schema_attribute.name,&removed_ids);",
            "qs.internal_apply_writable(work_set)",
        ],
    )?;
    // ---- callers: which purge commits when
    let actors = parse_file(repo, "server/core/src/actors/internal.rs")?;
    let hr = squash(&find_fn(&actors, "QueryServerWriteV1::handle_purgerecycledevent")?.block);
    let commit_if_touched = match (
        count(&hr, ".purge_recycled().and_then(|touched|{iftouched>0{idms_prox_write.commit()}else{Ok(())}})"),
        count(&hr, ".purge_recycled().and_then(|_"),
    ) {
        (1, 0) => true,
        (0, 1) => false,
        _ => return Err(format!("handle_purgerecycledevent: unexpected commit rule: {hr}")),
    };
    let ht = squash(&find_fn(&actors, "QueryServerWriteV1::handle_purgetombstoneevent")?.block);
    need(&ht, "handle_purgetombstoneevent", &[".purge_tombstones().and_then(|_changed|idms_prox_write.commit());"])?;

    let b = |x: bool| if x { "true" } else { "false" };
    let body = format!(
        "namespace Kanidm.Gen.Recycle\n\
inductive CmpOp where\n  | lt | le | gt | ge\nderiving DecidableEq, Repr\n\
/-- `#[cfg(not(test))] pub const RECYCLEBIN_MAX_AGE: u64` (seconds) -/\n\
def recyclebinMaxAge : Nat := {rb}\n\
/-- `#[cfg(not(test))] pub const CHANGELOG_MAX_AGE: u64` (seconds) -/\n\
def changelogMaxAge : Nat := {cl}\n\
/-- purge_recycled: `let cid = self.cid.sub_secs(RECYCLEBIN_MAX_AGE)` -/\n\
def purgeRecycledWindow : Nat := recyclebinMaxAge\n\
/-- purge_recycled: `f_{pr_op}(Attribute::LastModifiedCid, PartialValue::new_cid(cid))` -/\n\
def purgeRecycledOp : CmpOp := .{pr_op}\n\
/-- QueryServer::write: `let trim_cid = cid.sub_secs(CHANGELOG_MAX_AGE)` -/\n\
def trimWindow : Nat := changelogMaxAge\n\
/-- EntryChangeState::can_delete: `State::Tombstone {{ at }} => at OP cid` -/\n\
def canDeleteOp : CmpOp := .{cd_op}\n\
/-- EntryChangeState::can_delete: `State::Live {{ .. }} => {cd_live}` -/\n\
def canDeleteLive : Bool := {cd_live}\n\
/-- ReplicationUpdateVector::trim_up_to: `self.data.range((Unbounded, Excluded|Included(cid)))` -/\n\
def trimRangeOp : CmpOp := .{range_op}\n\
/-- Cid::sub_secs: the cut-off carries the nil server uuid -/\n\
def subSecsUuid : Nat := 0\n\
/-- Entry::to_revived purges cascade_deleted / recycled_directmemberof -/\n\
def revivePurgesCascadeDeleted : Bool := {pc}\n\
def revivePurgesRdmo : Bool := {prd}\n\
/-- revive_recycled: `entry.set_ava_set(&Attribute::Refers, ..)` from cascade_deleted before `to_revived` -/\n\
def reviveRestoresRefers : Bool := {rr}\n\
/-- delete: cascade candidates get `add_ava(Attribute::CascadeDeleted, Value::Uuid(refer_uuid))` -/\n\
def deleteMarksCascade : Bool := {mc}\n\
/-- MemberOf::pre_delete: directmemberof is moved to recycled_directmemberof -/\n\
def preDeleteStashesDmo : Bool := {st}\n\
/-- actors/internal.rs: the recycle purge commits only `if touched > 0`, the tombstone purge always -/\n\
def purgeRecycledCommitsOnlyIfTouched : Bool := {ct}\n\
end Kanidm.Gen.Recycle\n",
        rb = rb,
        cl = cl,
        pr_op = pr_op,
        cd_op = cd_op,
        cd_live = b(cd_live),
        range_op = range_op,
        pc = b(purges_casc),
        prd = b(purges_rdmo),
        rr = b(restores_refers),
        mc = b(marks_cascade),
        st = b(stash),
        ct = b(commit_if_touched),
    );
    write_generated(
        out,
        "RecycleOps",
        "server/lib/src/constants/mod.rs + server/recycle.rs + server/delete.rs + server/mod.rs + repl/cid.rs + repl/entry.rs + repl/ruv.rs + be/mod.rs + entry.rs + filter.rs + event.rs + plugins/memberof.rs + plugins/refint.rs + core/src/actors/internal.rs",
        &body,
    )?;
    Ok(format!(
        "RecycleOps: RECYCLEBIN_MAX_AGE {rb} s, CHANGELOG_MAX_AGE {cl} s, purge_recycled `{pr_op}`, can_delete `{cd_op}` (live {cd_live}), trim range `{range_op}`, revive purges {purges_casc}/{purges_rdmo}, restores refers {restores_refers}, cascade mark {marks_cascade}, stash {stash}, commit-if-touched {commit_if_touched}"
    ))
}
