//! C04 / C06 translator items.
//!
//! `commit-order`: the ordered step lists of the four nested commits
//!   IdmServerProxyWriteTransaction::commit → QueryServerWriteTransaction::commit →
//!   BackendWriteTransaction::commit → IdlArcSqliteWriteTransaction::commit,
//! each step classified as `stage` (fallible in-memory reload), `publish c` (commit of a
//! transactional cell = a field of the write-transaction struct), `dbWrite` (SQL statements inside
//! the open SQLite transaction), `dbCommit` (`db.commit()`), or `call` of the next level; with the
//! `fallible` flag read from the syntax (`?`, `.and_then`, head of a `Result` chain) *and* from the
//! callee's body where the callee is a `Result`-typed cell commit.  Also checks that every field of
//! the four write-transaction structs is a known transactional cell, a nested transaction or plain
//! data, and that every cell is published exactly once.
//!
//! `read-order` (C06): the order in which `QueryServer::read` → `Backend::read` →
//! `IdlArcSqlite::read` take their read snapshots, and how the SQLite read transaction is begun.
//!
//! `reload-dispatch` (C06): the top-level statements of `QueryServerWriteTransaction::reload` (first
//! statement of every commit): the list of `if self.changed_flags.intersects(FLAGS) { self.reload_x()?; … }`
//! checks — flags tested, reload functions called, and whether the check hangs on the `else` of the
//! previous one (`chained`) — and the flags cleared at the end.
use crate::util::*;
use quote::ToTokens;
use syn::{Expr, Stmt};

pub fn run(item: &str, repo: &str, out: &str) -> Option<Result<String, String>> {
    match item {
        "commit-order" => Some(commit_order(repo, out)),
        "read-order" => Some(read_order(repo, out)),
        "reload-dispatch" => Some(reload_dispatch(repo, out)),
        _ => None,
    }
}

fn toks<T: ToTokens>(t: &T) -> String {
    t.to_token_stream().to_string()
}

fn camel(s: &str) -> String {
    let mut out = String::new();
    let mut up = false;
    for ch in s.chars() {
        if ch == '_' {
            up = true;
        } else if up {
            out.extend(ch.to_uppercase());
            up = false;
        } else {
            out.push(ch);
        }
    }
    out
}

#[derive(Clone, Copy, PartialEq, Debug)]
enum FieldKind {
    /// a transactional cell: write copy private until `commit()`, drop discards
    Cell,
    /// the nested write transaction of the next level
    Nested,
    /// the SQLite write transaction (`Drop` = ROLLBACK)
    Sqlite,
    Plain,
}

/// Classify a field type of a write-transaction struct by its outermost type name.
fn field_kind(ty: &str) -> Option<FieldKind> {
    let head: String = ty.trim_start_matches('&').trim().chars().take_while(|c| c.is_alphanumeric() || *c == '_').collect();
    let head = if head == "a" || head.is_empty() {
        // `& 'a T`
        ty.split_whitespace().find(|w| w.chars().next().map(|c| c.is_uppercase()).unwrap_or(false)).unwrap_or("").to_string()
    } else {
        head
    };
    Some(match head.as_str() {
        "CowCellWriteTxn" | "ARCacheWriteTxn" | "BptreeMapWriteTxn" | "HashMapWriteTxn" => FieldKind::Cell,
        // wrappers around CowCell / BptreeMap write transactions
        "SchemaWriteTransaction"
        | "AccessControlsWriteTransaction"
        | "KeyProvidersWriteTransaction"
        | "Oauth2ResourceServersWriteTransaction"
        | "LdapApplicationsWriteTransaction"
        | "ReplicationUpdateVectorWriteTransaction" => FieldKind::Cell,
        "QueryServerWriteTransaction" | "BackendWriteTransaction" | "IdlArcSqliteWriteTransaction" => FieldKind::Nested,
        "IdlSqliteWriteTransaction" => FieldKind::Sqlite,
        "bool" | "Duration" | "Cid" | "ChangeFlag" | "HashSet" | "BTreeMap" | "SemaphorePermit" | "Sid" | "CryptoPolicy"
        | "Webauthn" | "Url" | "ARCacheReadTxn" => FieldKind::Plain,
        _ => return None,
    })
}

fn struct_fields(ast: &syn::File, name: &str) -> Result<Vec<(String, String)>, String> {
    for it in &ast.items {
        if let syn::Item::Struct(s) = it {
            if s.ident == name {
                return Ok(s
                    .fields
                    .iter()
                    .map(|f| (f.ident.as_ref().map(|i| i.to_string()).unwrap_or_default(), toks(&f.ty)))
                    .collect());
            }
        }
    }
    Err(format!("struct {name} not found"))
}

#[derive(Debug, Clone)]
enum Kind {
    Stage,
    Publish(String),
    DbWrite,
    DbCommit,
    Call(&'static str),
}

#[derive(Debug, Clone)]
struct Step {
    kind: Kind,
    fallible: bool,
    cond: bool,
    src: String,
}

struct LevelCtx<'a> {
    level: &'static str,
    /// receiver prefix stripped from field accesses (`self.` where the body does not destructure)
    fields: &'a [(String, String)],
    /// Result-typed cell commits whose body cannot fail (cell name → reason)
    infallible_commits: &'a [(String, bool)],
}

fn root_path(e: &Expr) -> Option<String> {
    match e {
        Expr::MethodCall(m) => root_path(&m.receiver),
        Expr::Try(t) => root_path(&t.expr),
        Expr::Paren(p) => root_path(&p.expr),
        Expr::Field(_) | Expr::Path(_) => path_string(e),
        _ => None,
    }
}

fn strip_self(p: &str) -> &str {
    p.strip_prefix("self.").unwrap_or(p)
}

impl LevelCtx<'_> {
    fn field(&self, name: &str) -> Option<FieldKind> {
        self.fields.iter().find(|(n, _)| n == name).and_then(|(_, t)| field_kind(t))
    }

    /// Classify one call expression (`recv.method(args)` possibly a longer chain).
    fn classify(&self, e: &Expr, syn_fallible: bool, cond: bool) -> Result<Option<Step>, String> {
        let src = toks(e);
        let mk = |kind: Kind, fallible: bool| Ok(Some(Step { kind, fallible, cond, src: src.clone() }));
        if let Expr::MethodCall(m) = e {
            let recv = path_string(&m.receiver).map(|p| strip_self(&p).to_string());
            let meth = m.method.to_string();
            if meth == "commit" && m.args.is_empty() {
                let recv = recv.ok_or_else(|| format!("commit on a non-path receiver: `{src}`"))?;
                let fname = recv.trim_start_matches("qs_write.").to_string();
                // `self.qs_write.commit()` → recv = "qs_write"
                return match self.field(&fname) {
                    Some(FieldKind::Nested) => {
                        let l = match fname.as_str() {
                            "qs_write" => "qs",
                            "be_txn" => "be",
                            "idlayer" => "idl",
                            o => return Err(format!("unknown nested transaction `{o}`")),
                        };
                        if !syn_fallible {
                            return Err(format!("result of nested commit ignored: `{src}`"));
                        }
                        mk(Kind::Call(l), true)
                    }
                    Some(FieldKind::Sqlite) => {
                        if !syn_fallible {
                            return Err(format!("result of the SQLite commit ignored: `{src}`"));
                        }
                        mk(Kind::DbCommit, true)
                    }
                    Some(FieldKind::Cell) => {
                        if cond {
                            return Err(format!("publication under a condition: `{src}`"));
                        }
                        let can_fail = match self.infallible_commits.iter().find(|(n, _)| *n == fname) {
                            Some((_, infallible)) => !*infallible,
                            None => false,
                        };
                        if syn_fallible && self.infallible_commits.iter().all(|(n, _)| *n != fname) {
                            return Err(format!("`{src}` is used as a Result but its commit body was not inspected"));
                        }
                        mk(Kind::Publish(camel(&fname)), syn_fallible && can_fail)
                    }
                    Some(FieldKind::Plain) | None => Err(format!("`{src}`: `{fname}` is not a transactional field of the {} write transaction", self.level)),
                };
            }
            // fallible, non-publishing steps
            let recv_s = recv.clone().unwrap_or_default();
            let is_reload = (recv_s == "self" || recv_s == "qs_write" || recv_s.is_empty()) && meth.starts_with("reload");
            if is_reload {
                if !syn_fallible {
                    return Err(format!("result of reload ignored: `{src}`"));
                }
                return mk(Kind::Stage, true);
            }
            if recv_s == "be_txn" && meth == "set_db_ts_max" {
                let args: Vec<String> = m.args.iter().map(|a| toks(a)).collect();
                if args != ["cid . ts"] || !syn_fallible {
                    return Err(format!("unexpected shape `{src}`"));
                }
                return mk(Kind::DbWrite, true);
            }
            if recv_s == "idlayer" && meth == "write_db_ruv" {
                if !syn_fallible {
                    return Err(format!("result ignored: `{src}`"));
                }
                return mk(Kind::DbWrite, true);
            }
        }
        // a longer chain: `<cache>.iter_mut_mark_clean().try_for_each(|..| db.write_..).map_err(..)`
        if src.contains("db . write_") || src.contains("db . delete_") {
            let root = root_path(e).unwrap_or_default();
            if !syn_fallible || !src.contains("try_for_each") || self.field(&root) != Some(FieldKind::Cell) {
                return Err(format!("unrecognised storage flush `{}`", src.chars().take(120).collect::<String>()));
            }
            return Ok(Some(Step { kind: Kind::DbWrite, fallible: true, cond, src: format!("{root} . iter_mut_mark_clean () . try_for_each (db.write_*/delete_*)") }));
        }
        if src.contains(". commit (") {
            return Err(format!("commit hidden in an unrecognised expression: `{src}`"));
        }
        if syn_fallible {
            return Err(format!("unrecognised fallible step in {} commit: `{src}`", self.level));
        }
        // an infallible, non-publishing call (`x.clear()`, …)
        Ok(None)
    }

    /// `a.map(|_| b).and_then(|_| c)` → [(a, true), (b, false), (c, true)]; closure bodies may be blocks.
    fn flatten_chain(&self, e: &Expr, acc: &mut Vec<(Expr, bool)>) -> Result<(), String> {
        if let Expr::MethodCall(m) = e {
            let name = m.method.to_string();
            if (name == "map" || name == "and_then") && m.args.len() == 1 {
                if let Expr::Closure(c) = &m.args[0] {
                    self.flatten_chain(&m.receiver, acc)?;
                    let p = c.inputs.iter().map(|i| toks(i)).collect::<Vec<_>>().join(",");
                    if p != "_" && p != "()" {
                        return Err(format!("commit chain closure takes `{p}`"));
                    }
                    match &*c.body {
                        Expr::Block(b) => {
                            if name == "and_then" {
                                return Err("and_then with a block body".into());
                            }
                            for st in &b.block.stmts {
                                match st {
                                    Stmt::Expr(x, Some(_)) => acc.push((x.clone(), false)),
                                    o => return Err(format!("unrecognised statement in commit closure: `{}`", toks(o))),
                                }
                            }
                        }
                        body => acc.push((body.clone(), name == "and_then")),
                    }
                    return Ok(());
                }
            }
        }
        acc.push((e.clone(), true));
        Ok(())
    }

    fn walk(&self, stmts: &[Stmt], cond: bool, is_fn_body: bool, steps: &mut Vec<Step>) -> Result<(), String> {
        let n = stmts.len();
        for (i, st) in stmts.iter().enumerate() {
            match st {
                Stmt::Local(l) => {
                    let s = toks(l);
                    if s.contains(". commit (") || s.contains('?') {
                        return Err(format!("step hidden in a let: `{s}`"));
                    }
                }
                Stmt::Macro(m) => {
                    let s = toks(m);
                    // (`?` inside tracing macros is the Debug sigil; a try operator follows a `)`)
                    if s.contains(". commit (") || s.contains(") ?") {
                        return Err(format!("step hidden in a macro: `{s}`"));
                    }
                }
                Stmt::Item(_) => {}
                Stmt::Expr(e, semi) => {
                    let is_tail = is_fn_body && i + 1 == n && semi.is_none();
                    if is_tail {
                        if toks(e) == "Ok (())" {
                            continue;
                        }
                        let mut chain = vec![];
                        self.flatten_chain(e, &mut chain)?;
                        for (c, fallible) in chain {
                            if let Some(s) = self.classify(&c, fallible, cond)? {
                                steps.push(s);
                            }
                        }
                        continue;
                    }
                    match e {
                        Expr::Try(t) => {
                            if let Some(s) = self.classify(&t.expr, true, cond)? {
                                steps.push(s);
                            }
                        }
                        Expr::MethodCall(_) => {
                            if let Some(s) = self.classify(e, false, cond)? {
                                steps.push(s);
                            }
                        }
                        Expr::If(ife) => {
                            if ife.else_branch.is_some() {
                                return Err(format!("if/else in commit: `{}`", toks(e)));
                            }
                            let c = toks(&ife.cond);
                            if c.contains(". commit (") || c.contains('?') {
                                return Err(format!("step hidden in a condition: `{c}`"));
                            }
                            self.walk(&ife.then_branch.stmts, true, false, steps)?;
                        }
                        Expr::Macro(m) => {
                            let s = toks(m);
                            // (`?` inside tracing macros is the Debug sigil; a try operator follows a `)`)
                            if s.contains(". commit (") || s.contains(") ?") {
                                return Err(format!("step hidden in a macro: `{s}`"));
                            }
                        }
                        o => return Err(format!("unrecognised statement in {} commit: `{}`", self.level, toks(o))),
                    }
                }
            }
        }
        Ok(())
    }
}

/// Does a `Result`-typed `commit(self)` of a wrapper cell have a body that cannot fail:
/// destructuring lets, `x.commit();` statements and a final `Ok(())`?
fn commit_body_infallible(f: &FoundFn) -> Result<bool, String> {
    let n = f.block.stmts.len();
    let mut publishes = 0;
    for (i, st) in f.block.stmts.iter().enumerate() {
        match st {
            Stmt::Local(l) => {
                let s = toks(l);
                if s.contains('?') || s.contains("Err") || s.contains(". commit (") {
                    return Ok(false);
                }
            }
            Stmt::Expr(Expr::MethodCall(m), Some(_)) if m.method == "commit" && m.args.is_empty() => publishes += 1,
            Stmt::Expr(e, None) if i + 1 == n && toks(e) == "Ok (())" => {}
            _ => return Ok(false),
        }
    }
    if publishes == 0 {
        return Err("wrapper commit publishes nothing".into());
    }
    Ok(true)
}

fn kind_lean(k: &Kind) -> String {
    match k {
        Kind::Stage => ".stage".into(),
        Kind::Publish(c) => format!(".publish .{c}"),
        Kind::DbWrite => ".dbWrite".into(),
        Kind::DbCommit => ".dbCommit".into(),
        Kind::Call(l) => format!(".call .{l}"),
    }
}

fn commit_order(repo: &str, out: &str) -> Result<String, String> {
    let f_idm = parse_file(repo, "server/lib/src/idm/server.rs")?;
    let f_qs = parse_file(repo, "server/lib/src/server/mod.rs")?;
    let f_be = parse_file(repo, "server/lib/src/be/mod.rs")?;
    let f_idl = parse_file(repo, "server/lib/src/be/idl_arc_sqlite.rs")?;
    let f_sql = parse_file(repo, "server/lib/src/be/idl_sqlite.rs")?;
    let f_schema = parse_file(repo, "server/lib/src/schema.rs")?;
    let f_keys = parse_file(repo, "server/lib/src/server/keys/provider.rs")?;
    let f_acp = parse_file(repo, "server/lib/src/server/access/mod.rs")?;

    // Result-typed wrapper commits used in the qs chain: can their body fail?
    let wrappers = vec![
        ("schema".to_string(), commit_body_infallible(&find_fn(&f_schema, "SchemaWriteTransaction::commit")?)?),
        ("key_providers".to_string(), commit_body_infallible(&find_fn(&f_keys, "KeyProvidersWriteTransaction::commit")?)?),
        ("accesscontrols".to_string(), commit_body_infallible(&find_fn(&f_acp, "AccessControlsWriteTransaction::commit")?)?),
    ];

    let levels: [(&'static str, &syn::File, &str, &str); 4] = [
        ("idm", &f_idm, "IdmServerProxyWriteTransaction", "IdmServerProxyWriteTransaction::commit"),
        ("qs", &f_qs, "QueryServerWriteTransaction", "QueryServerWriteTransaction::commit"),
        ("be", &f_be, "BackendWriteTransaction", "BackendWriteTransaction::commit"),
        ("idl", &f_idl, "IdlArcSqliteWriteTransaction", "IdlArcSqliteWriteTransaction::commit"),
    ];
    let mut all: Vec<(&'static str, Vec<Step>, Vec<String>)> = vec![];
    for (level, ast, sname, fname) in levels {
        let fields = struct_fields(ast, sname)?;
        let mut cells = vec![];
        for (n, t) in &fields {
            match field_kind(t) {
                None => return Err(format!("{sname}.{n}: `{t}` is not a known transactional cell, nested transaction or plain data type")),
                Some(FieldKind::Cell) => cells.push(n.clone()),
                _ => {}
            }
        }
        let f = find_fn(ast, fname)?;
        let ctx = LevelCtx { level, fields: &fields, infallible_commits: &wrappers };
        let mut steps = vec![];
        ctx.walk(&f.block.stmts, false, true, &mut steps)?;
        // every cell exactly once
        for c in &cells {
            let k = steps.iter().filter(|s| matches!(&s.kind, Kind::Publish(x) if *x == camel(c))).count();
            if k != 1 {
                return Err(format!("{fname}: cell `{c}` is published {k} times (expected exactly once)"));
            }
        }
        let expect_call = match level {
            "idm" => Some("qs"),
            "qs" => Some("be"),
            "be" => Some("idl"),
            _ => None,
        };
        let calls: Vec<&'static str> = steps.iter().filter_map(|s| if let Kind::Call(l) = s.kind { Some(l) } else { None }).collect();
        if calls != expect_call.into_iter().collect::<Vec<_>>() {
            return Err(format!("{fname}: nested commits {calls:?}, expected {expect_call:?}"));
        }
        let dbc = steps.iter().filter(|s| matches!(s.kind, Kind::DbCommit)).count();
        if dbc != if level == "idl" { 1 } else { 0 } {
            return Err(format!("{fname}: {dbc} SQLite commits"));
        }
        all.push((level, steps, cells.iter().map(|c| camel(c)).collect()));
    }

    // IdlSqliteWriteTransaction: COMMIT in commit(), ROLLBACK in Drop, BEGIN EXCLUSIVE in new()
    let sc = toks(&find_fn(&f_sql, "IdlSqliteWriteTransaction::commit")?.block);
    if !sc.contains("\"COMMIT TRANSACTION\"") {
        return Err("IdlSqliteWriteTransaction::commit does not execute COMMIT TRANSACTION".into());
    }
    let sn = toks(&find_fn(&f_sql, "IdlSqliteWriteTransaction::new")?.block);
    if !sn.contains("\"BEGIN EXCLUSIVE TRANSACTION\"") {
        return Err("IdlSqliteWriteTransaction::new does not execute BEGIN EXCLUSIVE TRANSACTION".into());
    }
    let sd = toks(&find_fn(&f_sql, "Drop@IdlSqliteWriteTransaction::drop")?.block);
    if !sd.contains("\"ROLLBACK TRANSACTION\"") {
        return Err("Drop for IdlSqliteWriteTransaction does not ROLLBACK".into());
    }

    let mut body = String::from("namespace Kanidm.Gen.CommitOrder\n/-- Transactional cells: the fields of the four write-transaction structs that hold a private write\ncopy until their `commit()` (concread CowCell / ARCache / BptreeMap / HashMap write transactions and\nwrappers around them). -/\ninductive Cell where\n");
    let mut cell_names = vec![];
    for (_, _, cells) in &all {
        for c in cells {
            body += &format!("  | {c}\n");
            cell_names.push(c.clone());
        }
    }
    body += "deriving DecidableEq, Repr\n";
    body += &format!("def Cell.all : List Cell := [{}]\n", cell_names.iter().map(|c| format!(".{c}")).collect::<Vec<_>>().join(", "));
    body += &format!("def Cell.name : Cell → String\n{}", cell_names.iter().map(|c| format!("  | .{c} => \"{c}\"\n")).collect::<String>());
    body += "inductive Level where\n  | idm\n  | qs\n  | be\n  | idl\nderiving DecidableEq, Repr\n";
    body += "inductive Kind where\n  /-- fallible in-memory reload into the private write copies -/\n  | stage\n  /-- `x.commit()` of a transactional cell -/\n  | publish (c : Cell)\n  /-- SQL statements inside the open SQLite write transaction -/\n  | dbWrite\n  /-- `COMMIT TRANSACTION` -/\n  | dbCommit\n  /-- `commit()` of the nested write transaction -/\n  | call (l : Level)\nderiving DecidableEq, Repr\n";
    body += "structure CStep where\n  /-- unique id, see `stepName` -/\n  id : Nat\n  kind : Kind\n  /-- the step can return `Err`, which skips every later step -/\n  fallible : Bool\nderiving DecidableEq, Repr\n";
    let mut id = 0;
    let mut names: Vec<(usize, String)> = vec![];
    let mut summary = vec![];
    for (level, steps, _) in &all {
        body += &format!("/-- steps of the `{level}` commit in source order -/\ndef {level}Commit : List CStep := [\n");
        let mut ss = vec![];
        for (i, s) in steps.iter().enumerate() {
            body += &format!(
                "  ⟨{id}, {}, {}⟩{} -- `{}`{}\n",
                kind_lean(&s.kind),
                s.fallible,
                if i + 1 == steps.len() { "" } else { "," },
                s.src.chars().take(100).collect::<String>(),
                if s.cond { " (conditional)" } else { "" }
            );
            let short = match &s.kind {
                Kind::Stage => format!("{level}:stage:{}", s.src.replace(' ', "").replace("self.", "").replace("()", "")),
                Kind::Publish(c) => format!("{level}:publish:{c}"),
                Kind::DbWrite => {
                    let what = if s.src.contains("set_db_ts_max") {
                        "set_db_ts_max".to_string()
                    } else if s.src.contains("write_db_ruv") {
                        "write_db_ruv".to_string()
                    } else {
                        camel(s.src.split_whitespace().next().unwrap_or("x"))
                    };
                    format!("{level}:dbWrite:{what}")
                }
                Kind::DbCommit => format!("{level}:dbCommit"),
                Kind::Call(l) => format!("{level}:call:{l}"),
            };
            ss.push(format!("{}{}", short.splitn(2, ':').nth(1).unwrap_or(""), if s.fallible { "?" } else { "" }));
            names.push((id, short));
            id += 1;
        }
        body += "]\n";
        summary.push(format!("{level}[{}]", ss.join(", ")));
    }
    body += "def levelSteps : Level → List CStep\n  | .idm => idmCommit\n  | .qs => qsCommit\n  | .be => beCommit\n  | .idl => idlCommit\n";
    body += "def stepName : Nat → String\n";
    for (i, n) in &names {
        body += &format!("  | {i} => \"{n}\"\n");
    }
    body += "  | _ => \"?\"\n";
    body += "/-- `Result`-typed wrapper commits in the qs chain and whether their body can fail -/\n";
    body += &format!(
        "def wrapperCommitsInfallible : List (String × Bool) := [{}]\n",
        wrappers.iter().map(|(n, b)| format!("(\"{n}\", {b})")).collect::<Vec<_>>().join(", ")
    );
    body += "end Kanidm.Gen.CommitOrder\n";
    write_generated(
        out,
        "CommitOrder",
        "server/lib/src/idm/server.rs, server/mod.rs, be/mod.rs, be/idl_arc_sqlite.rs, be/idl_sqlite.rs (the four nested commit fns and their write-transaction structs), schema.rs, server/keys/provider.rs, server/access/mod.rs (wrapper commits)",
        &body,
    )?;
    Ok(format!("CommitOrder: {}", summary.join(" ")))
}

// ------------------------------------------------------------------------------------------------
// C06: read order
// ------------------------------------------------------------------------------------------------

/// `recv.read()` / `recv.read()?` with `recv = self.<field>` → the field name.
fn read_of_self_field(e: &Expr) -> Option<(String, bool)> {
    let (e, tried) = match e {
        Expr::Try(t) => (&*t.expr, true),
        o => (o, false),
    };
    if let Expr::MethodCall(m) = e {
        if m.method == "read" && m.args.is_empty() {
            if let Some(p) = path_string(&m.receiver) {
                if let Some(f) = p.strip_prefix("self.") {
                    if !f.contains('.') {
                        return Some((f.to_string(), tried));
                    }
                }
            }
        }
    }
    None
}

/// Acquisitions of one `read()` constructor in evaluation order: `let x = self.f.read();` statements,
/// then the fields of the returned struct literal in written order (Rust evaluates them in that
/// order); a field initialised from a local refers back to its `let`.
fn acquisitions(f: &FoundFn, what: &str) -> Result<Vec<String>, String> {
    let mut out: Vec<String> = vec![];
    let mut locals: Vec<String> = vec![];
    let n = f.block.stmts.len();
    for (i, st) in f.block.stmts.iter().enumerate() {
        match st {
            Stmt::Local(l) => {
                let init = match &l.init {
                    Some(i) => &*i.expr,
                    None => return Err(format!("{what}: let without initialiser")),
                };
                if let Some((field, _)) = read_of_self_field(init) {
                    out.push(field);
                    locals.push(toks(&l.pat));
                } else {
                    let s = toks(init);
                    // (`self.qs.read().await?` is the nested reader of proxy_read, checked by the caller)
                    if s.contains(". read (") && s != "self . qs . read () . await ?" {
                        return Err(format!("{what}: unrecognised acquisition `{s}`"));
                    }
                }
            }
            Stmt::Expr(e, None) if i + 1 == n => {
                // Ok(Struct { .. })
                let inner = match e {
                    Expr::Call(c) if path_string(&c.func).as_deref() == Some("Ok") && c.args.len() == 1 => &c.args[0],
                    o => return Err(format!("{what}: tail is not `Ok(Struct {{..}})`: `{}`", toks(o).chars().take(80).collect::<String>())),
                };
                let lit = match inner {
                    Expr::Struct(s) => s,
                    o => return Err(format!("{what}: tail is not a struct literal: `{}`", toks(o).chars().take(80).collect::<String>())),
                };
                for fv in &lit.fields {
                    if let Some((field, _)) = read_of_self_field(&fv.expr) {
                        out.push(field);
                    } else {
                        let s = toks(&fv.expr);
                        if s.contains(". read (") {
                            return Err(format!("{what}: unrecognised acquisition `{s}`"));
                        }
                    }
                }
            }
            Stmt::Expr(e, _) => {
                let s = toks(e);
                if s.contains(". read (") {
                    return Err(format!("{what}: acquisition in an unrecognised statement `{s}`"));
                }
            }
            Stmt::Macro(_) | Stmt::Item(_) => {}
        }
    }
    Ok(out)
}

/// server field read by a reader → the write-side cell (`Gen.CommitOrder.Cell`) it is a snapshot of
fn read_cell(level: &str, field: &str) -> Option<&'static str> {
    Some(match (level, field) {
        ("idm", "oauth2rs") => "oauth2rs",
        ("qs", "schema") => "schema",
        ("qs", "cid_max") => "cid",
        ("qs", "d_info") => "dInfo",
        ("qs", "system_config") => "systemConfig",
        ("qs", "feature_config") => "featureConfig",
        ("qs", "accesscontrols") => "accesscontrols",
        ("qs", "key_providers") => "keyProviders",
        ("qs", "resolve_filter_cache") => "resolveFilterCacheWrite",
        ("be", "idxmeta") => "idxmetaWr",
        ("be", "ruv") => "ruv",
        ("idl", "entry_cache") => "entryCache",
        ("idl", "idl_cache") => "idlCache",
        ("idl", "name_cache") => "nameCache",
        ("idl", "idx_exists_cache") => "idxExistsCache",
        ("idl", "allids") => "allids",
        _ => return None,
    })
}

fn read_order(repo: &str, out: &str) -> Result<String, String> {
    let f_idm = parse_file(repo, "server/lib/src/idm/server.rs")?;
    let f_qs = parse_file(repo, "server/lib/src/server/mod.rs")?;
    let f_be = parse_file(repo, "server/lib/src/be/mod.rs")?;
    let f_idl = parse_file(repo, "server/lib/src/be/idl_arc_sqlite.rs")?;
    let f_sql = parse_file(repo, "server/lib/src/be/idl_sqlite.rs")?;

    // IdmServer::proxy_read: `let qs_read = self.qs.read().await?;` then the struct literal
    let pr = find_fn(&f_idm, "IdmServer::proxy_read")?;
    let pr_src = toks(&pr.block);
    if !pr_src.starts_with("{ let qs_read = self . qs . read () . await ? ;") {
        return Err(format!("IdmServer::proxy_read does not begin with `let qs_read = self.qs.read().await?;`: `{}`", pr_src.chars().take(90).collect::<String>()));
    }
    let idm = acquisitions(&pr, "IdmServer::proxy_read")?;
    let qs = acquisitions(&find_fn(&f_qs, "QueryServer::read")?, "QueryServer::read")?;
    let be = acquisitions(&find_fn(&f_be, "Backend::read")?, "Backend::read")?;
    let idl = acquisitions(&find_fn(&f_idl, "IdlArcSqlite::read")?, "IdlArcSqlite::read")?;

    // how the SQLite read transaction begins
    let rn = toks(&find_fn(&f_sql, "IdlSqliteReadTransaction::new")?.block);
    let deferred = if rn.contains("\"BEGIN DEFERRED TRANSACTION\"") {
        // a statement that reads the database inside `new` would pin the snapshot
        if rn.contains("SELECT") || rn.contains("query") || rn.contains("prepare") {
            return Err("IdlSqliteReadTransaction::new: BEGIN DEFERRED followed by other statements — shape not recognised".into());
        }
        true
    } else if rn.contains("\"BEGIN IMMEDIATE TRANSACTION\"") || rn.contains("\"BEGIN EXCLUSIVE TRANSACTION\"") {
        false
    } else {
        return Err(format!("IdlSqliteReadTransaction::new: unrecognised BEGIN: `{}`", rn.chars().take(120).collect::<String>()));
    };
    let sr = toks(&find_fn(&f_sql, "IdlSqlite::read")?.block);
    if !sr.contains("IdlSqliteReadTransaction :: new (") {
        return Err("IdlSqlite::read does not construct IdlSqliteReadTransaction::new".into());
    }

    // flatten: idm = [qs.., oauth2rs]; qs = [.., be, ..]; be = [idlayer, ..]; idl = [.., db, ..]
    let mut flat: Vec<(String, String)> = vec![]; // (lean term, source)
    let mut push_cell = |level: &str, field: &str, flat: &mut Vec<(String, String)>| -> Result<(), String> {
        match read_cell(level, field) {
            Some(c) => {
                flat.push((format!(".cell .{c}"), format!("{level}: self.{field}.read()")));
                Ok(())
            }
            None => Err(format!("{level} read(): `self.{field}.read()` is not a known snapshot of a transactional cell")),
        }
    };
    let mut n_be = 0;
    let mut n_idl = 0;
    let mut n_db = 0;
    for q in &qs {
        if q == "be" {
            n_be += 1;
            for b in &be {
                if b == "idlayer" {
                    n_idl += 1;
                    for i in &idl {
                        if i == "db" {
                            n_db += 1;
                            flat.push((".dbBegin".into(), "idl: self.db.read()? = BEGIN on a pooled connection".into()));
                        } else {
                            push_cell("idl", i, &mut flat)?;
                        }
                    }
                } else {
                    push_cell("be", b, &mut flat)?;
                }
            }
        } else {
            push_cell("qs", q, &mut flat)?;
        }
    }
    for i in &idm {
        push_cell("idm", i, &mut flat)?;
    }
    if (n_be, n_idl, n_db) != (1, 1, 1) {
        return Err(format!("expected exactly one be.read(), idlayer.read(), db.read(); found {n_be}/{n_idl}/{n_db}"));
    }
    let mut body = String::from("import KanidmModel.Generated.CommitOrder\nnamespace Kanidm.Gen.ReadOrder\nopen Kanidm.Gen.CommitOrder\n");
    body += "/-- One snapshot acquisition of a read transaction. -/\ninductive Acq where\n  /-- read transaction of a transactional cell: the committed value at this instant, immutable afterwards -/\n  | cell (c : Cell)\n  /-- `BEGIN … TRANSACTION` of the SQLite read transaction -/\n  | dbBegin\nderiving DecidableEq, Repr\n";
    body += "/-- `IdmServer::proxy_read` → `QueryServer::read` → `Backend::read` → `IdlArcSqlite::read`, flattened, in evaluation order. -/\ndef readSteps : List Acq := [\n";
    for (i, (t, src)) in flat.iter().enumerate() {
        body += &format!("  {t}{} -- `{src}`\n", if i + 1 == flat.len() { "" } else { "," });
    }
    body += "]\n";
    body += &format!("/-- `IdlSqliteReadTransaction::new` executes `BEGIN DEFERRED TRANSACTION` and nothing else: the database\nsnapshot is taken by the first statement that reads, not by `read()`. -/\ndef dbSnapshotDeferred : Bool := {deferred}\n");
    body += "end Kanidm.Gen.ReadOrder\n";
    // own writer: the generated module imports the generated cell type, and `import` must come first
    let path = format!("{out}/ReadOrder.lean");
    let text = format!(
        "-- GENERATED by vtranslate from server/lib/src/idm/server.rs (IdmServer::proxy_read), server/mod.rs (QueryServer::read), be/mod.rs (Backend::read), be/idl_arc_sqlite.rs (IdlArcSqlite::read), be/idl_sqlite.rs (IdlSqlite::read, IdlSqliteReadTransaction::new). Do not edit: rewritten on every check run.\n{}",
        body.replacen("import KanidmModel.Generated.CommitOrder\n", "import KanidmModel.Generated.CommitOrder\nset_option linter.unusedVariables false\n", 1)
    );
    if !std::fs::read_to_string(&path).map(|old| old == text).unwrap_or(false) {
        std::fs::write(&path, text).map_err(|e| format!("{path}: {e}"))?;
    }
    Ok(format!(
        "ReadOrder: [{}] deferred={deferred}",
        flat.iter().map(|(t, _)| t.trim_start_matches(".cell .").trim_start_matches('.').to_string()).collect::<Vec<_>>().join(", ")
    ))
}

// ------------------------------------------------------------------------------------------------
// reload-dispatch
// ------------------------------------------------------------------------------------------------

/// `ChangeFlag::A | ChangeFlag::B | …` → ["A", "B", …]
fn change_flags(e: &Expr, out: &mut Vec<String>) -> Result<(), String> {
    match e {
        Expr::Paren(p) => change_flags(&p.expr, out),
        Expr::Binary(b) if matches!(b.op, syn::BinOp::BitOr(_)) => {
            change_flags(&b.left, out)?;
            change_flags(&b.right, out)
        }
        Expr::Path(_) => match path_string(e) {
            Some(p) if p.starts_with("ChangeFlag::") => {
                out.push(p.trim_start_matches("ChangeFlag::").to_string());
                Ok(())
            }
            _ => Err(format!("reload(): `{}` is not a ChangeFlag constant", toks(e))),
        },
        _ => Err(format!("reload(): flag expression `{}` not recognised", toks(e))),
    }
}

/// `self.changed_flags.<method>(FLAGS)` → FLAGS
fn changed_flags_call(e: &Expr, method: &str) -> Option<Result<Vec<String>, String>> {
    if let Expr::MethodCall(m) = e {
        if m.method == method && toks(&m.receiver) == "self . changed_flags" && m.args.len() == 1 {
            let mut v = vec![];
            return Some(change_flags(&m.args[0], &mut v).map(|_| v));
        }
    }
    None
}

/// every `self.<name>(…)` call inside a block, in source order
fn self_calls(b: &syn::Block) -> Vec<String> {
    struct V(Vec<String>);
    impl<'ast> syn::visit::Visit<'ast> for V {
        fn visit_expr_method_call(&mut self, m: &'ast syn::ExprMethodCall) {
            syn::visit::visit_expr_method_call(self, m);
            if toks(&m.receiver) == "self" {
                self.0.push(m.method.to_string());
            }
        }
    }
    let mut v = V(vec![]);
    syn::visit::Visit::visit_block(&mut v, b);
    v.0
}

struct ReloadCheck {
    flags: Vec<String>,
    calls: Vec<String>,
    chained: bool,
}

fn reload_if(i: &syn::ExprIf, chained: bool, out: &mut Vec<ReloadCheck>) -> Result<(), String> {
    let flags = match changed_flags_call(&i.cond, "intersects") {
        Some(r) => r?,
        None => return Err(format!("reload(): top-level `if {}` is not `self.changed_flags.intersects(…)`", toks(&i.cond))),
    };
    let calls = self_calls(&i.then_branch);
    if calls.is_empty() || !calls.iter().all(|c| c.starts_with("reload_") || c == "reindex") {
        return Err(format!("reload(): check of {flags:?} calls {calls:?}; expected reload_* functions"));
    }
    out.push(ReloadCheck { flags, calls, chained });
    match &i.else_branch {
        None => Ok(()),
        Some((_, e)) => match &**e {
            // `else if …`: the next check runs only when this one did not
            Expr::If(n) => reload_if(n, true, out),
            // an `else` block without statements (comments only) changes nothing
            Expr::Block(b) if b.block.stmts.is_empty() => Ok(()),
            o => Err(format!("reload(): `else` branch with statements after the check of {:?}: `{}`", out.last().map(|c| c.flags.clone()), toks(o).chars().take(80).collect::<String>())),
        },
    }
}

fn reload_dispatch(repo: &str, out: &str) -> Result<String, String> {
    let f_qs = parse_file(repo, "server/lib/src/server/mod.rs")?;
    let f = find_fn(&f_qs, "QueryServerWriteTransaction::reload")?;
    let mut checks: Vec<ReloadCheck> = vec![];
    let mut cleared: Vec<String> = vec![];
    let n = f.block.stmts.len();
    for (k, st) in f.block.stmts.iter().enumerate() {
        match st {
            Stmt::Expr(Expr::If(i), _) => reload_if(i, false, &mut checks)?,
            Stmt::Expr(e, Some(_)) => match changed_flags_call(e, "remove") {
                Some(r) => cleared.extend(r?),
                None => return Err(format!("reload(): statement `{}` not recognised", toks(e).chars().take(80).collect::<String>())),
            },
            Stmt::Expr(e, None) if k + 1 == n && toks(e) == "Ok (())" => {}
            o => return Err(format!("reload(): statement `{}` not recognised", toks(o).chars().take(80).collect::<String>())),
        }
    }
    if checks.is_empty() || cleared.is_empty() {
        return Err("reload(): no checks or no cleared flags found".into());
    }
    // the commit must start with it
    let cm = toks(&find_fn(&f_qs, "QueryServerWriteTransaction::commit")?.block);
    if !cm.starts_with("{ self . reload () ? ;") {
        return Err("QueryServerWriteTransaction::commit does not begin with `self.reload()?;`".into());
    }
    let mut flags: Vec<String> = vec![];
    let mut fns: Vec<String> = vec![];
    for c in &checks {
        for x in &c.flags {
            if !flags.contains(x) {
                flags.push(x.clone());
            }
        }
        for x in &c.calls {
            if !fns.contains(x) {
                fns.push(x.clone());
            }
        }
    }
    for x in &cleared {
        if !flags.contains(x) {
            flags.push(x.clone());
        }
    }
    let lf = |x: &String| camel(&x.to_lowercase());
    let mut body = String::from("namespace Kanidm.Gen.ReloadDispatch\n");
    body += "/-- `ChangeFlag` constants named in `QueryServerWriteTransaction::reload`. -/\ninductive Flag where\n";
    for x in &flags {
        body += &format!("  | {}\n", lf(x));
    }
    body += "deriving DecidableEq, Repr\n/-- The functions `reload()` calls. -/\ninductive Reload where\n";
    for x in &fns {
        body += &format!("  | {}\n", camel(x));
    }
    body += "deriving DecidableEq, Repr\n";
    body += "/-- One `if self.changed_flags.intersects(flags) { calls }` of `reload()`; `chained`: it is the `else if` of the\nprevious check, i.e. skipped whenever the previous check ran. -/\nstructure Check where\n  flags : List Flag\n  calls : List Reload\n  chained : Bool\nderiving DecidableEq, Repr\n";
    body += "/-- The checks of `reload()` in source order. -/\ndef checks : List Check := [\n";
    for (i, c) in checks.iter().enumerate() {
        body += &format!(
            "  ⟨[{}], [{}], {}⟩{}\n",
            c.flags.iter().map(|x| format!(".{}", lf(x))).collect::<Vec<_>>().join(", "),
            c.calls.iter().map(|x| format!(".{}", camel(x))).collect::<Vec<_>>().join(", "),
            c.chained,
            if i + 1 == checks.len() { "" } else { "," }
        );
    }
    body += "]\n/-- The flags `reload()` clears at its end (`self.changed_flags.remove(…)`). -/\ndef cleared : List Flag := [";
    body += &cleared.iter().map(|x| format!(".{}", lf(x))).collect::<Vec<_>>().join(", ");
    body += "]\nend Kanidm.Gen.ReloadDispatch\n";
    write_generated(out, "ReloadDispatch", "server/lib/src/server/mod.rs (QueryServerWriteTransaction::reload)", &body)?;
    Ok(format!(
        "ReloadDispatch: {} checks [{}], cleared {:?}",
        checks.len(),
        checks.iter().map(|c| format!("{}{}→{}", if c.chained { "else " } else { "" }, c.flags.join("|"), c.calls.join("+"))).collect::<Vec<_>>().join("; "),
        cleared
    ))
}
