//! C25 translator item `default-access`.
//!
//! The default access control profiles and groups are **not** parsed from the text of
//! `migration_data/*/access.rs` (DESIGN §4.1): they are dumped from a server booted on the current
//! tree by the harness binary `c25 --dump-lean`, which this item builds and runs, so that
//! `KanidmModel/Generated/DefaultAccess.lean` — and with it every theorem of `KanidmProofs/C25.lean`
//! — is re-stated before `lake build` runs.
//!
//! What *is* read from the source text here: the shape of `FILTER_HP` and of
//! `FILTER_HP_OR_RECYCLED_OR_TOMBSTONE` in the `latest` migration data (the mechanism the property
//! is anchored on) — an unrecognised shape is an `Err`.
//!
//! If the harness cannot be built within the time budget of a translate step (cold cache after an
//! edit under /repo), the committed snapshot is kept and the harness stage compares the compiled
//! tables with the booted server (`c25-default-table-stale:*`) and rewrites the file for the next run.
use crate::util::*;
use quote::ToTokens;
use std::process::{Command, Stdio};
use std::time::{Duration, Instant};

pub fn run(item: &str, repo: &str, out: &str) -> Option<Result<String, String>> {
    match item {
        "default-access" => Some(default_access(repo, out)),
        _ => None,
    }
}

fn norm(s: &str) -> String {
    s.split_whitespace().collect::<Vec<_>>().join(" ")
}

/// `pub(crate) use <dir> as latest;` in migration_data/mod.rs
fn latest_dir(repo: &str) -> Result<String, String> {
    let ast = parse_file(repo, "server/lib/src/migration_data/mod.rs")?;
    for it in &ast.items {
        if let syn::Item::Use(u) = it {
            let t = norm(&u.tree.to_token_stream().to_string());
            if let Some(d) = t.strip_suffix(" as latest") {
                return Ok(d.trim().to_string());
            }
        }
    }
    Err("migration_data/mod.rs: no `use <dir> as latest`".into())
}

fn static_init(ast: &syn::File, name: &str) -> Result<String, String> {
    for it in &ast.items {
        if let syn::Item::Static(s) = it {
            if s.ident == name {
                return Ok(norm(&s.expr.to_token_stream().to_string()));
            }
        }
    }
    Err(format!("static {name} not found"))
}

fn shape_checks(repo: &str) -> Result<String, String> {
    let dir = latest_dir(repo)?;
    let rel = format!("server/lib/src/migration_data/{dir}/access.rs");
    let ast = parse_file(repo, &rel)?;
    let hp = static_init(&ast, "FILTER_HP")?;
    let want_hp = norm("LazyLock :: new (| | { ProtoFilter :: Eq (Attribute :: MemberOf . to_string () , UUID_IDM_HIGH_PRIVILEGE . to_string () ,) })");
    if hp != want_hp {
        return Err(format!("{rel}: FILTER_HP is no longer `Eq(memberof, UUID_IDM_HIGH_PRIVILEGE)`: {hp}"));
    }
    let or = static_init(&ast, "FILTER_HP_OR_RECYCLED_OR_TOMBSTONE")?;
    let want_or = norm(
        "LazyLock :: new (| | { ProtoFilter :: Or (vec ! [FILTER_HP . clone () , match_class_filter ! (EntryClass :: Recycled) , match_class_filter ! (EntryClass :: Tombstone) ,]) })",
    );
    if or != want_or {
        return Err(format!("{rel}: FILTER_HP_OR_RECYCLED_OR_TOMBSTONE has an unrecognised shape: {or}"));
    }
    let andnot = static_init(&ast, "FILTER_ANDNOT_HP_OR_RECYCLED_OR_TOMBSTONE")?;
    let want_andnot = norm("LazyLock :: new (| | ProtoFilter :: AndNot (Box :: new (FILTER_HP_OR_RECYCLED_OR_TOMBSTONE . clone ())))");
    if andnot != want_andnot {
        return Err(format!("{rel}: FILTER_ANDNOT_HP_OR_RECYCLED_OR_TOMBSTONE has an unrecognised shape: {andnot}"));
    }
    Ok(dir)
}

/// run a command with a deadline; `Ok(None)` = not finished in time (killed). Output goes to
/// temporary files (a full pipe would block the child while we poll).
fn run_deadline(mut cmd: Command, deadline: Instant, tag: &str) -> Result<Option<(bool, String)>, String> {
    let base = std::env::temp_dir().join(format!("vtranslate-c25-{tag}-{}", std::process::id()));
    let out_p = base.with_extension("out");
    let err_p = base.with_extension("err");
    let out_f = std::fs::File::create(&out_p).map_err(|e| format!("{out_p:?}: {e}"))?;
    let err_f = std::fs::File::create(&err_p).map_err(|e| format!("{err_p:?}: {e}"))?;
    let mut child = cmd.stdin(Stdio::null()).stdout(Stdio::from(out_f)).stderr(Stdio::from(err_f)).spawn().map_err(|e| format!("spawn: {e}"))?;
    let status = loop {
        match child.try_wait().map_err(|e| format!("wait: {e}"))? {
            Some(st) => break Some(st),
            None => {
                if Instant::now() >= deadline {
                    let _ = child.kill();
                    let _ = child.wait();
                    break None;
                }
                std::thread::sleep(Duration::from_millis(200));
            }
        }
    };
    let stdout = std::fs::read_to_string(&out_p).unwrap_or_default();
    let stderr = std::fs::read_to_string(&err_p).unwrap_or_default();
    let _ = std::fs::remove_file(&out_p);
    let _ = std::fs::remove_file(&err_p);
    Ok(status.map(|st| {
        // on success only stdout matters (the summary line); on failure show stderr too
        if st.success() {
            (true, stdout)
        } else {
            (false, format!("{stdout}{stderr}"))
        }
    }))
}

fn default_access(repo: &str, out: &str) -> Result<String, String> {
    let dir = shape_checks(repo)?;
    // harness workspace = two levels above target/debug/vtranslate
    let exe = std::env::current_exe().map_err(|e| format!("current_exe: {e}"))?;
    let harness = exe
        .parent()
        .and_then(|p| p.parent())
        .and_then(|p| p.parent())
        .ok_or("cannot locate the harness workspace from the vtranslate binary")?
        .to_path_buf();
    // the whole translate step has 120 s (./check); leave room for the dump itself
    let start = Instant::now();
    let build_deadline = start + Duration::from_secs(85);
    let mut build = Command::new("cargo");
    build.args(["build", "-q", "-p", "hlib", "--bin", "c25"]).current_dir(&harness);
    match run_deadline(build, build_deadline, "build")? {
        None => {
            return Ok(format!(
                "DefaultAccess: shapes of FILTER_HP* ok ({dir}); harness build exceeded the translate budget — committed snapshot kept, the harness stage compares the tables"
            ))
        }
        Some((false, text)) => return Err(format!("cargo build -p hlib --bin c25 failed:\n{}", text.chars().rev().take(1500).collect::<String>().chars().rev().collect::<String>())),
        Some((true, _)) => {}
    }
    let bin = harness.join("target").join("debug").join("c25");
    let mut dump = Command::new(&bin);
    dump.args(["--dump-lean", &format!("{out}/DefaultAccess.lean")]);
    match run_deadline(dump, start + Duration::from_secs(112), "dump")? {
        None => Ok(format!("DefaultAccess: shapes ok ({dir}); dump exceeded the translate budget — committed snapshot kept")),
        Some((false, text)) => Err(format!("c25 --dump-lean failed: {}", text.chars().rev().take(1500).collect::<String>().chars().rev().collect::<String>())),
        Some((true, text)) => Ok(format!("DefaultAccess ({dir}): {}", text.lines().last().unwrap_or("").trim())),
    }
}
