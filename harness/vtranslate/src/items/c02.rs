//! C02 translator item `filter-ord-eq`: regenerates, from `server/lib/src/filter.rs`,
//!   * `impl Ord for FilterResolved::cmp`  → `slopeCmp` (the 4-arm slope match) and `F.kindCmp`
//!     (the arm list used when the slopes are equal, in source order), and checks the frame around
//!     them (`let left_slopey/right_slopey = …get_slopeyness_factor()`, `if r == Ordering::Equal
//!     { match (self, rhs) … } else { r }`);
//!   * `impl PartialEq for FilterResolved::eq` → `F.beq` (arm by arm; which fields are compared).
//! Output: `KanidmModel/Generated/FilterOrd.lean`. Any unrecognised shape is an error.
use crate::util::*;
use quote::ToTokens;
use syn::visit::Visit;

pub fn run(item: &str, repo: &str, out: &str) -> Option<Result<String, String>> {
    match item {
        "filter-ord-eq" => Some(filter_ord_eq(repo, out)),
        _ => None,
    }
}

#[derive(Clone, Copy, PartialEq, Debug)]
enum Ty {
    Attr,
    Val,
    Slope,
    List,
    Filt,
}

/// variant → (Lean constructor, field types)
fn variant(name: &str) -> Option<(&'static str, Vec<Ty>)> {
    Some(match name {
        "Eq" => ("eq", vec![Ty::Attr, Ty::Val, Ty::Slope]),
        "Cnt" => ("cnt", vec![Ty::Attr, Ty::Val, Ty::Slope]),
        "Stw" => ("stw", vec![Ty::Attr, Ty::Val, Ty::Slope]),
        "Enw" => ("enw", vec![Ty::Attr, Ty::Val, Ty::Slope]),
        "Pres" => ("pres", vec![Ty::Attr, Ty::Slope]),
        "LessThan" => ("lessThan", vec![Ty::Attr, Ty::Val, Ty::Slope]),
        "Or" => ("or", vec![Ty::List, Ty::Slope]),
        "And" => ("and", vec![Ty::List, Ty::Slope]),
        "Invalid" => ("invalid", vec![Ty::Attr]),
        "Inclusion" => ("inclusion", vec![Ty::List, Ty::Slope]),
        "AndNot" => ("andnot", vec![Ty::Filt, Ty::Slope]),
        _ => return None,
    })
}

fn toks<T: ToTokens>(t: &T) -> String {
    t.to_token_stream().to_string()
}

/// one side of a `(self, rhs)` tuple pattern → Lean pattern text + variable types
fn side(p: &syn::Pat, vars: &mut Vec<(String, Ty)>) -> Result<String, String> {
    match p {
        syn::Pat::Wild(_) => Ok("_".into()),
        syn::Pat::TupleStruct(ts) => {
            let vname = ts.path.segments.last().map(|s| s.ident.to_string()).unwrap_or_default();
            if ts.path.segments.len() != 2 || ts.path.segments[0].ident != "FilterResolved" {
                return Err(format!("unexpected pattern path {}", toks(&ts.path)));
            }
            let (ctor, tys) = variant(&vname).ok_or(format!("unknown variant {vname}"))?;
            if ts.elems.len() != tys.len() {
                return Err(format!("variant {vname}: {} fields in pattern, model has {}", ts.elems.len(), tys.len()));
            }
            let mut s = format!(".{ctor}");
            for (e, ty) in ts.elems.iter().zip(tys.iter()) {
                match e {
                    syn::Pat::Wild(_) => s += " _",
                    syn::Pat::Ident(id) if id.subpat.is_none() => {
                        vars.push((id.ident.to_string(), *ty));
                        s += &format!(" {}", id.ident);
                    }
                    other => return Err(format!("unsupported sub-pattern {}", toks(other))),
                }
            }
            Ok(s)
        }
        other => Err(format!("unsupported pattern {}", toks(other))),
    }
}

/// `(L, R)` or `(L, R) | (L, R) | …` → list of (lean pattern, vars)
fn alternatives(p: &syn::Pat) -> Result<Vec<(String, Vec<(String, Ty)>)>, String> {
    let alts: Vec<&syn::Pat> = match p {
        syn::Pat::Or(o) => o.cases.iter().collect(),
        other => vec![other],
    };
    let mut out = vec![];
    for a in alts {
        let syn::Pat::Tuple(t) = a else { return Err(format!("arm pattern is not a pair: {}", toks(a))) };
        if t.elems.len() != 2 {
            return Err(format!("arm pattern is not a pair: {}", toks(a)));
        }
        let mut vars = vec![];
        let l = side(&t.elems[0], &mut vars)?;
        let r = side(&t.elems[1], &mut vars)?;
        out.push((format!("{l}, {r}"), vars));
    }
    Ok(out)
}

fn ty_of(vars: &[(String, Ty)], name: &str) -> Result<Ty, String> {
    vars.iter().find(|(n, _)| n == name).map(|(_, t)| *t).ok_or(format!("unbound variable {name}"))
}

fn ident_of(e: &syn::Expr) -> Result<String, String> {
    match e {
        syn::Expr::Path(p) if p.path.segments.len() == 1 => Ok(p.path.segments[0].ident.to_string()),
        syn::Expr::Reference(r) => ident_of(&r.expr),
        syn::Expr::Paren(p) => ident_of(&p.expr),
        other => Err(format!("expected a variable, found {}", toks(other))),
    }
}

fn ordering_const(e: &syn::Expr) -> Option<&'static str> {
    match toks(e).replace(' ', "").as_str() {
        "Ordering::Less" => Some(".lt"),
        "Ordering::Greater" => Some(".gt"),
        "Ordering::Equal" => Some(".eq"),
        _ => None,
    }
}

/// `x.cmp(y)` / `x.cmp(&y)` → (x, y)
fn cmp_call(e: &syn::Expr) -> Result<(String, String), String> {
    match e {
        syn::Expr::MethodCall(m) if m.method == "cmp" && m.args.len() == 1 => Ok((ident_of(&m.receiver)?, ident_of(&m.args[0])?)),
        other => Err(format!("expected x.cmp(y), found {}", toks(other))),
    }
}

fn unblock(e: &syn::Expr) -> &syn::Expr {
    match e {
        syn::Expr::Block(b) if b.block.stmts.len() == 1 => match &b.block.stmts[0] {
            syn::Stmt::Expr(inner, None) => unblock(inner),
            _ => e,
        },
        _ => e,
    }
}

/// body of a `cmp` arm → Lean term of type Ordering
fn cmp_body(e: &syn::Expr, vars: &[(String, Ty)]) -> Result<String, String> {
    let e = unblock(e);
    if let Some(c) = ordering_const(e) {
        return Ok(c.into());
    }
    let typed_cmp = |x: &str, y: &str| -> Result<String, String> {
        match (ty_of(vars, x)?, ty_of(vars, y)?) {
            (Ty::Attr, Ty::Attr) | (Ty::Slope, Ty::Slope) => Ok(format!("natCmp {x} {y}")),
            (Ty::Val, Ty::Val) => Ok(format!("Val.cmp {x} {y}")),
            (a, b) => Err(format!("cmp between {a:?} and {b:?} ({x}, {y}) is not modelled")),
        }
    };
    match e {
        syn::Expr::MethodCall(_) => {
            let (x, y) = cmp_call(e)?;
            typed_cmp(&x, &y)
        }
        syn::Expr::Match(m) => {
            // match x.cmp(y) { Ordering::Equal => u.cmp(v), o => o }
            let (x, y) = cmp_call(&m.expr)?;
            if m.arms.len() != 2 {
                return Err(format!("nested match with {} arms", m.arms.len()));
            }
            if toks(&m.arms[0].pat).replace(' ', "") != "Ordering::Equal" {
                return Err(format!("nested match: first arm is {}", toks(&m.arms[0].pat)));
            }
            let (u, v) = cmp_call(unblock(&m.arms[0].body))?;
            let syn::Pat::Ident(o) = &m.arms[1].pat else { return Err("nested match: second arm is not a binding".into()) };
            if ident_of(unblock(&m.arms[1].body))? != o.ident.to_string() {
                return Err("nested match: second arm does not return its binding".into());
            }
            if let (Ty::Attr, Ty::Attr, Ty::Val, Ty::Val) = (ty_of(vars, &x)?, ty_of(vars, &y)?, ty_of(vars, &u)?, ty_of(vars, &v)?) {
                // attribute first, then value: the helper `avCmp x u y v` of the generated prelude
                return Ok(format!("avCmp {x} {u} {y} {v}"));
            }
            Ok(format!("(match {} with | .eq => {} | o => o)", typed_cmp(&x, &y)?, typed_cmp(&u, &v)?))
        }
        other => Err(format!("unrecognised cmp arm body {}", toks(other))),
    }
}

/// body of an `eq` arm → Lean term of type Bool
fn eq_body(e: &syn::Expr, vars: &[(String, Ty)]) -> Result<String, String> {
    let e = unblock(e);
    match e {
        syn::Expr::Lit(l) => match toks(l).as_str() {
            "false" => Ok("false".into()),
            "true" => Ok("true".into()),
            o => Err(format!("literal {o}")),
        },
        syn::Expr::Binary(b) => match b.op {
            syn::BinOp::And(_) => Ok(format!("({} && {})", eq_body(&b.left, vars)?, eq_body(&b.right, vars)?)),
            syn::BinOp::Or(_) => Ok(format!("({} || {})", eq_body(&b.left, vars)?, eq_body(&b.right, vars)?)),
            syn::BinOp::Eq(_) | syn::BinOp::Ne(_) => {
                let (x, y) = (ident_of(&b.left)?, ident_of(&b.right)?);
                let t = match (ty_of(vars, &x)?, ty_of(vars, &y)?) {
                    (Ty::Attr, Ty::Attr) | (Ty::Val, Ty::Val) | (Ty::Slope, Ty::Slope) => format!("({x} == {y})"),
                    (Ty::List, Ty::List) => format!("F.beqList {x} {y}"),
                    (Ty::Filt, Ty::Filt) => format!("F.beq {x} {y}"),
                    (a, c) => return Err(format!("== between {a:?} and {c:?}")),
                };
                Ok(if matches!(b.op, syn::BinOp::Ne(_)) { format!("(!{t})") } else { t })
            }
            _ => Err(format!("operator in {}", toks(e))),
        },
        other => Err(format!("unrecognised eq arm body {}", toks(other))),
    }
}

struct Matches(Vec<syn::ExprMatch>);
impl<'ast> Visit<'ast> for Matches {
    fn visit_expr_match(&mut self, m: &'ast syn::ExprMatch) {
        self.0.push(m.clone());
        syn::visit::visit_expr_match(self, m);
    }
}

fn filter_ord_eq(repo: &str, out: &str) -> Result<String, String> {
    let rel = "server/lib/src/filter.rs";
    let ast = parse_file(repo, rel)?;
    // ---- Ord::cmp
    let f = find_fn(&ast, "Ord@FilterResolved::cmp")?;
    let body = toks(&f.block);
    for needle in [
        "let left_slopey = self . get_slopeyness_factor () ;",
        "let right_slopey = rhs . get_slopeyness_factor () ;",
        "if r == Ordering :: Equal {",
        "} else { r }",
    ] {
        if !body.contains(needle) {
            return Err(format!("cmp: expected `{needle}` in the body"));
        }
    }
    let mut ms = Matches(vec![]);
    ms.visit_block(&f.block);
    let slope_m = ms.0.iter().find(|m| toks(&m.expr).replace(' ', "") == "(left_slopey,right_slopey)").ok_or("cmp: no match on (left_slopey, right_slopey)")?;
    let kind_m = ms.0.iter().find(|m| toks(&m.expr).replace(' ', "") == "(self,rhs)").ok_or("cmp: no match on (self, rhs)")?;
    if ms.0.len() != 3 {
        return Err(format!("cmp: expected 3 match expressions (slopes, kinds, nested attr/value), found {}", ms.0.len()));
    }
    let mut lean = String::from("import KanidmModel.Filter.Syntax\n-- GENERATED by vtranslate (item filter-ord-eq) from server/lib/src/filter.rs\n-- (impl Ord / impl PartialEq for FilterResolved). Do not edit: rewritten on every check run.\nset_option linter.unusedVariables false\nnamespace Kanidm.Filter\n\n");
    lean += "def natCmp (a b : Nat) : Ordering := if a < b then .lt else if b < a then .gt else .eq\n\n";
    lean += "/-- `match x.cmp(y) { Ordering::Equal => u.cmp(v), o => o }` for attributes x y and values u v -/\ndef avCmp (x : Nat) (u : Val) (y : Nat) (v : Val) : Ordering :=\n  match natCmp x y with\n  | .eq => u.cmp v\n  | o => o\n\n";
    lean += "/-- the slope part of `cmp`: `match (left_slopey, right_slopey)` -/\ndef slopeCmp : Option Nat → Option Nat → Ordering\n";
    let mut n_slope = 0;
    for arm in &slope_m.arms {
        let syn::Pat::Tuple(t) = &arm.pat else { return Err("slope arm is not a pair".into()) };
        if t.elems.len() != 2 {
            return Err("slope arm is not a pair".into());
        }
        let mut vars = vec![];
        let mut sides = vec![];
        for e in &t.elems {
            let txt = toks(e).replace(' ', "");
            if txt == "None" {
                sides.push("none".to_string());
            } else if let Some(inner) = txt.strip_prefix("Some(").and_then(|x| x.strip_suffix(')')) {
                if inner != "_" {
                    vars.push((inner.to_string(), Ty::Slope));
                }
                sides.push(format!("some {inner}"));
            } else {
                return Err(format!("slope pattern {txt}"));
            }
        }
        lean += &format!("  | {}, {} => {}\n", sides[0], sides[1], cmp_body(&arm.body, &vars)?);
        n_slope += 1;
    }
    lean += "\n/-- the arm list of `cmp` when the slopes are equal: `match (self, rhs)`, in source order -/\ndef F.kindCmp : F → F → Ordering\n";
    let mut n_kind = 0;
    for arm in &kind_m.arms {
        if arm.guard.is_some() {
            return Err("cmp: guarded arm".into());
        }
        for (pat, vars) in alternatives(&arm.pat)? {
            lean += &format!("  | {pat} => {}\n", cmp_body(&arm.body, &vars)?);
            n_kind += 1;
        }
    }
    // ---- PartialEq::eq
    let f = find_fn(&ast, "PartialEq@FilterResolved::eq")?;
    let mut ms = Matches(vec![]);
    ms.visit_block(&f.block);
    if ms.0.len() != 1 || toks(&ms.0[0].expr).replace(' ', "") != "(self,rhs)" || f.block.stmts.len() != 1 {
        return Err("eq: expected the body to be a single match on (self, rhs)".into());
    }
    lean += "\nmutual\n/-- `impl PartialEq for FilterResolved`, arm by arm -/\ndef F.beq : F → F → Bool\n";
    let mut n_eq = 0;
    for arm in &ms.0[0].arms {
        if arm.guard.is_some() {
            return Err("eq: guarded arm".into());
        }
        for (pat, vars) in alternatives(&arm.pat)? {
            lean += &format!("  | {pat} => {}\n", eq_body(&arm.body, &vars)?);
            n_eq += 1;
        }
    }
    lean += "/-- `Vec<FilterResolved> == Vec<FilterResolved>`: same length, element-wise `==` -/\ndef F.beqList : List F → List F → Bool\n  | [], [] => true\n  | x :: xs, y :: ys => F.beq x y && F.beqList xs ys\n  | _, _ => false\nend\n\nend Kanidm.Filter\n";
    let path = format!("{out}/FilterOrd.lean");
    if !std::fs::read_to_string(&path).map(|old| old == lean).unwrap_or(false) {
        std::fs::write(&path, &lean).map_err(|e| format!("{path}: {e}"))?;
    }
    Ok(format!("FilterOrd: {n_slope} slope arms, {n_kind} kind arms, {n_eq} eq arms"))
}
