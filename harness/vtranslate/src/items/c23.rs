//! C23 translator item `access-search-tables`: the table-like and shape-like parts of the search
//! access path, regenerated from
//!   server/lib/src/server/access/search.rs   (modules called by `apply_search_access`, their match
//!       arms, the final decision chain, the attribute sets the three built-in visibility rules
//!       release, the classes they test, the anonymous exclusion)
//!   server/lib/src/server/access/migration.rs (MIGRATION_ENTRY_CLASSES / MIGRATION_IGNORE_CLASSES)
//!   server/lib/src/server/access/mod.rs       (`filter_entries` decision per result,
//!       `search_filter_entry_attributes` reduction per result, the related-acp trim)
//!   server/lib/src/filter.rs                  (`new_ignore_hidden` / `new_recycled` wrappers,
//!       `get_attr_set`'s `SelfUuid` arm)
//!   server/lib/src/constants/{entries,uuids}.rs, proto/src/constants.rs (names behind the enums)
//! Anything not of the recognised shape is an `Err` (never a guess).
use crate::util::*;
use quote::ToTokens;
use std::collections::BTreeMap;
use syn::visit::Visit;

pub fn run(item: &str, repo: &str, out: &str) -> Option<Result<String, String>> {
    match item {
        "access-search-tables" => Some(access_search_tables(repo, out)),
        _ => None,
    }
}

fn toks<T: ToTokens>(t: &T) -> String {
    t.to_token_stream().to_string()
}

/// `pub const NAME: &str = "literal";` of a file.
fn str_consts(file: &syn::File) -> BTreeMap<String, String> {
    let mut m = BTreeMap::new();
    for it in &file.items {
        if let syn::Item::Const(c) = it {
            if let syn::Expr::Lit(l) = &*c.expr {
                if let syn::Lit::Str(s) = &l.lit {
                    m.insert(c.ident.to_string(), s.value());
                }
            }
        }
    }
    m
}

/// `EntryClass::X => CONST` arms of `impl From<EntryClass> for &'static str`, resolved to strings.
fn entry_class_names(repo: &str) -> Result<BTreeMap<String, String>, String> {
    let proto = str_consts(&parse_file(repo, "proto/src/constants.rs")?);
    let ents = parse_file(repo, "server/lib/src/constants/entries.rs")?;
    let mut found = vec![];
    for it in &ents.items {
        if let syn::Item::Impl(i) = it {
            let tr = i.trait_.as_ref().map(|(_, p, _)| toks(p)).unwrap_or_default();
            if tr == "From < EntryClass >" && toks(&i.self_ty) == "& 'static str" {
                for ii in &i.items {
                    if let syn::ImplItem::Fn(f) = ii {
                        if f.sig.ident == "from" {
                            found.push(f.block.clone());
                        }
                    }
                }
            }
        }
    }
    if found.len() != 1 {
        return Err(format!("impl From<EntryClass> for &'static str: {} matches", found.len()));
    }
    let fblock = found.remove(0);
    let m = match fblock.stmts.as_slice() {
        [syn::Stmt::Expr(syn::Expr::Match(m), None)] => m.clone(),
        _ => return Err("From<EntryClass> for &str: body is not a single match".into()),
    };
    let mut out = BTreeMap::new();
    for arm in &m.arms {
        let pat = toks(&arm.pat);
        let var = pat
            .strip_prefix("EntryClass :: ")
            .ok_or_else(|| format!("From<EntryClass> for &str: unexpected arm `{pat}`"))?;
        let c = path_string(&arm.body).ok_or_else(|| format!("EntryClass::{var}: body is not a constant"))?;
        let c = c.rsplit("::").next().unwrap_or("").to_string();
        let s = proto
            .get(&c)
            .ok_or_else(|| format!("EntryClass::{var}: constant {c} not found in proto/src/constants.rs"))?;
        out.insert(var.to_string(), s.clone());
    }
    Ok(out)
}

/// `pub const NAME: Uuid = uuid!("…");` ↦ the 128-bit number.
fn uuid_const(file: &syn::File, name: &str) -> Result<u128, String> {
    let e = find_const(file, name).ok_or_else(|| format!("const {name} not found"))?;
    let t = toks(&e);
    let lit = t
        .strip_prefix("uuid ! (\"")
        .and_then(|r| r.strip_suffix("\")"))
        .ok_or_else(|| format!("const {name}: not a uuid!(\"…\") literal: `{t}`"))?;
    let hex: String = lit.chars().filter(|c| *c != '-').collect();
    if hex.len() != 32 {
        return Err(format!("const {name}: bad uuid literal {lit}"));
    }
    u128::from_str_radix(&hex, 16).map_err(|e| format!("const {name}: {e}"))
}

fn lean_str_val(s: &str) -> String {
    format!(".str [{}]", s.bytes().map(|b| b.to_string()).collect::<Vec<_>>().join(", "))
}

/// All `btreeset!( … )` macro invocations of a block, as lists of `Attribute::X` variant names.
fn btreeset_attr_lists(block: &syn::Block) -> Result<Vec<Vec<String>>, String> {
    struct V(Vec<String>);
    impl<'ast> Visit<'ast> for V {
        fn visit_macro(&mut self, m: &'ast syn::Macro) {
            if m.path.is_ident("btreeset") {
                self.0.push(m.tokens.to_string());
            }
        }
    }
    let mut v = V(vec![]);
    v.visit_block(block);
    v.0.iter()
        .map(|t| {
            t.split(',')
                .map(|p| p.trim())
                .filter(|p| !p.is_empty())
                .map(|p| {
                    p.strip_prefix("Attribute :: ")
                        .filter(|x| x.chars().all(|c| c.is_alphanumeric()))
                        .map(|x| x.to_string())
                        .ok_or_else(|| format!("btreeset! element is not `Attribute::X`: `{p}`"))
                })
                .collect()
        })
        .collect()
}

/// Every `EntryClass::X` path mentioned in a block, in source order.
fn entry_classes_in(block: &syn::Block) -> Vec<String> {
    struct V(Vec<String>);
    impl<'ast> Visit<'ast> for V {
        fn visit_expr_path(&mut self, p: &'ast syn::ExprPath) {
            let segs: Vec<String> = p.path.segments.iter().map(|s| s.ident.to_string()).collect();
            if segs.len() == 2 && segs[0] == "EntryClass" {
                self.0.push(segs[1].clone());
            }
        }
    }
    let mut v = V(vec![]);
    v.visit_block(block);
    v.0
}

/// The `vec![EntryClass::A, …]` of `pub static NAME: LazyLock<…> = LazyLock::new(|| { … })`.
fn static_class_list(file: &syn::File, name: &str) -> Result<Vec<String>, String> {
    for it in &file.items {
        if let syn::Item::Static(s) = it {
            if s.ident == name {
                let t = toks(&s.expr);
                let start = t.find("vec ! [").ok_or_else(|| format!("{name}: no vec![…]"))? + "vec ! [".len();
                let end = t[start..].find(']').ok_or_else(|| format!("{name}: unterminated vec!"))? + start;
                if t[end..].matches("vec !").count() != 0 {
                    return Err(format!("{name}: more than one vec!"));
                }
                let want_tail = "] ; BTreeSet :: from_iter (classes . into_iter () . map (| ec | ec . into ())) })";
                if &t[end..] != want_tail {
                    return Err(format!("{name}: unexpected construction after the class list: `{}`", &t[end..]));
                }
                return t[start..end]
                    .split(',')
                    .map(|p| p.trim())
                    .filter(|p| !p.is_empty())
                    .map(|p| {
                        p.strip_prefix("EntryClass :: ")
                            .map(|x| x.to_string())
                            .ok_or_else(|| format!("{name}: element is not EntryClass::X: `{p}`"))
                    })
                    .collect();
            }
        }
    }
    Err(format!("static {name} not found"))
}

fn expect_eq(what: &str, got: &str, want: &str) -> Result<(), String> {
    if got == want {
        Ok(())
    } else {
        Err(format!("{what}: source shape changed.\n  found:    `{got}`\n  expected: `{want}`"))
    }
}

/// All `match` expressions of a block (pre-order).
fn matches_in(block: &syn::Block) -> Vec<syn::ExprMatch> {
    struct V(Vec<syn::ExprMatch>);
    impl<'ast> Visit<'ast> for V {
        fn visit_expr_match(&mut self, m: &'ast syn::ExprMatch) {
            self.0.push(m.clone());
            syn::visit::visit_expr_match(self, m);
        }
    }
    let mut v = V(vec![]);
    v.visit_block(block);
    v.0
}

/// Default method `name` of `trait tr` (util::find_fn covers impls and free fns only).
fn find_trait_fn(file: &syn::File, tr: &str, name: &str) -> Result<FoundFn, String> {
    for it in &file.items {
        if let syn::Item::Trait(t) = it {
            if t.ident == tr {
                for ti in &t.items {
                    if let syn::TraitItem::Fn(f) = ti {
                        if f.sig.ident == name {
                            let block = f.default.clone().ok_or_else(|| format!("{tr}::{name} has no default body"))?;
                            return Ok(FoundFn { sig: f.sig.clone(), block });
                        }
                    }
                }
            }
        }
    }
    Err(format!("trait method {tr}::{name} not found"))
}

fn lean_attr(a: &str) -> String {
    format!("Attr.{a}")
}

fn access_search_tables(repo: &str, out: &str) -> Result<String, String> {
    let classes = entry_class_names(repo)?;
    let cls = |v: &str| -> Result<String, String> {
        classes.get(v).cloned().ok_or_else(|| format!("EntryClass::{v} has no name"))
    };
    let uuids = parse_file(repo, "server/lib/src/constants/uuids.rs")?;
    let anon = uuid_const(&uuids, "UUID_ANONYMOUS")?;

    let srch = parse_file(repo, "server/lib/src/server/access/search.rs")?;

    // ---- apply_search_access: modules, arms, final chain ------------------------------------
    let asa = find_fn(&srch, "apply_search_access")?;
    let ms = matches_in(&asa.block);
    let mut modules = vec![];
    let want_arms = "AccessSrchResult :: Deny => denied = true , AccessSrchResult :: Grant => grant = true , AccessSrchResult :: Ignore => { } AccessSrchResult :: Allow { mut attr } => allow . append (& mut attr) ,";
    for m in &ms {
        let call = match &*m.expr {
            syn::Expr::Call(c) => c,
            other => return Err(format!("apply_search_access: match on a non-call `{}`", toks(other))),
        };
        let name = path_string(&call.func).unwrap_or_default();
        let args = toks(&call.args);
        let arms: String = m.arms.iter().map(toks).collect::<Vec<_>>().join(" ");
        expect_eq(&format!("apply_search_access: arms of `match {name}(..)`"), &arms, want_arms)?;
        modules.push((name, args));
    }
    let want_modules = [
        ("search_filter_entry", "ident , related_acp , entry"),
        ("search_oauth2_filter_entry", "ident , entry"),
        ("search_applications_filter_entry", "ident , entry"),
        ("search_sync_account_filter_entry", "ident , entry"),
    ];
    let got: Vec<(String, String)> = modules.clone();
    let want: Vec<(String, String)> = want_modules.iter().map(|(a, b)| (a.to_string(), b.to_string())).collect();
    if got != want {
        return Err(format!("apply_search_access: module calls changed: {got:?} (expected {want:?})"));
    }
    // locals and the final chain
    let stmts: Vec<String> = asa.block.stmts.iter().map(toks).collect();
    let locals: Vec<&String> = stmts.iter().filter(|s| s.starts_with("let ")).collect();
    let want_locals = [
        "let mut denied = false ;",
        "let mut grant = false ;",
        "let constrain = BTreeSet :: default () ;",
        "let mut allow = BTreeSet :: default () ;",
    ];
    if locals.iter().map(|s| s.as_str()).collect::<Vec<_>>() != want_locals {
        return Err(format!("apply_search_access: locals changed: {locals:?}"));
    }
    let last = stmts.last().cloned().unwrap_or_default();
    let want_last = "if denied { SearchResult :: Deny } else if grant { SearchResult :: Grant } else { let allowed_attrs = if ! constrain . is_empty () { & constrain & & allow } else { allow } ; SearchResult :: Allow (allowed_attrs) }";
    expect_eq("apply_search_access: final decision", &last, want_last)?;
    if stmts.len() != want_locals.len() + want_modules.len() + 1 {
        return Err(format!("apply_search_access: {} statements, expected {}", stmts.len(), want_locals.len() + want_modules.len() + 1));
    }

    // ---- built-in visibility rules --------------------------------------------------------------
    let mut body = String::new();
    body += "namespace Kanidm.Gen.AccessSearch\nopen Kanidm.Filter Kanidm.Access\n\n";
    body += &format!("/-- `UUID_ANONYMOUS` (constants/uuids.rs) -/\ndef uuidAnonymous : Val := .num 0x{anon:x}\n\n");

    let anon_guard = "iuser . entry . get_uuid () == UUID_ANONYMOUS";
    let mut summary = vec![];
    for (fname, lname, want_classes, excl) in [
        ("search_oauth2_filter_entry", "oauth2", vec!["OAuth2ResourceServer"], true),
        ("search_applications_filter_entry", "application", vec!["Application"], true),
        ("search_sync_account_filter_entry", "syncAccount", vec!["SyncObject", "Account", "SyncAccount"], false),
    ] {
        let f = find_fn(&srch, fname)?;
        let sets = btreeset_attr_lists(&f.block)?;
        if sets.len() != 1 {
            return Err(format!("{fname}: expected exactly one btreeset!(…), found {}", sets.len()));
        }
        let got_classes = entry_classes_in(&f.block);
        if got_classes != want_classes {
            return Err(format!("{fname}: classes tested changed: {got_classes:?} (expected {want_classes:?})"));
        }
        // anonymous exclusion: `if iuser.entry.get_uuid() == UUID_ANONYMOUS { …; return Ignore; }`
        struct IfV(Vec<(String, String)>);
        impl<'ast> Visit<'ast> for IfV {
            fn visit_expr_if(&mut self, i: &'ast syn::ExprIf) {
                let last = i.then_branch.stmts.last().map(|s| s.to_token_stream().to_string()).unwrap_or_default();
                self.0.push((i.cond.to_token_stream().to_string(), last));
                syn::visit::visit_expr_if(self, i);
            }
        }
        let mut iv = IfV(vec![]);
        iv.visit_block(&f.block);
        let guards: Vec<&(String, String)> = iv.0.iter().filter(|(c, _)| c.contains("UUID_ANONYMOUS")).collect();
        let excludes = match guards.as_slice() {
            [] => false,
            [(c, last)] if c == anon_guard && last == "return AccessSrchResult :: Ignore ;" => {
                // must be the first statement of the User arm
                true
            }
            other => return Err(format!("{fname}: unrecognised anonymous guard {other:?}")),
        };
        if excludes != excl {
            // not an error of shape: the generated flag carries it to the theorems
        }
        body += &format!("/-- `{fname}`: attributes released (`btreeset!`), in source order -/\n");
        body += &format!(
            "def {lname}Released : List Nat := [{}]\n",
            sets[0].iter().map(|a| lean_attr(a)).collect::<Vec<_>>().join(", ")
        );
        body += &format!("/-- `{fname}`: returns `Ignore` for the anonymous account before anything else -/\n");
        body += &format!("def {lname}ExcludesAnonymous : Bool := {excludes}\n");
        for (i, c) in got_classes.iter().enumerate() {
            body += &format!("/-- `EntryClass::{c}` = \"{}\" -/\ndef {lname}Class{i} : Val := {}\n", cls(c)?, lean_str_val(&cls(c)?));
        }
        body += "\n";
        summary.push(format!("{lname}:{}", sets[0].len()));
    }

    // ---- search_filter_entry: internal roles ----------------------------------------------------
    let sfe = find_fn(&srch, "search_filter_entry")?;
    let sfe_classes = entry_classes_in(&sfe.block);
    if sfe_classes != ["Account"] {
        return Err(format!("search_filter_entry: classes tested changed: {sfe_classes:?}"));
    }
    body += &format!("/-- `search_filter_entry`, AccountRequest arm: `EntryClass::Account` = \"{}\" -/\ndef accountRequestClass : Val := {}\n", cls("Account")?, lean_str_val(&cls("Account")?));
    // the outer `match &ident.origin` arms, in order, with what each returns unconditionally
    let outer = matches_in(&sfe.block)
        .into_iter()
        .find(|m| toks(&m.expr) == "& ident . origin")
        .ok_or("search_filter_entry: no `match &ident.origin`")?;
    let arm_pats: Vec<String> = outer.arms.iter().map(|a| toks(&a.pat)).collect();
    let want_pats = [
        "IdentType :: Internal (InternalRole :: System)",
        "IdentType :: Internal (InternalRole :: AccountRequest)",
        "IdentType :: Internal (InternalRole :: Migration)",
        "IdentType :: Internal (InternalRole :: MessageQueue)",
        "IdentType :: Synch (_)",
        "IdentType :: User (_)",
    ];
    if arm_pats != want_pats {
        return Err(format!("search_filter_entry: origin arms changed: {arm_pats:?}"));
    }
    // returns inside each arm, in order
    struct RetV(Vec<String>);
    impl<'ast> Visit<'ast> for RetV {
        fn visit_expr_return(&mut self, r: &'ast syn::ExprReturn) {
            self.0.push(r.expr.as_ref().map(|e| e.to_token_stream().to_string()).unwrap_or_default());
        }
    }
    let mut arm_returns = vec![];
    for a in &outer.arms {
        let mut rv = RetV(vec![]);
        rv.visit_expr(&a.body);
        arm_returns.push(rv.0);
    }
    let g = "AccessSrchResult :: Grant".to_string();
    let d = "AccessSrchResult :: Deny".to_string();
    let want_returns = vec![vec![g.clone()], vec![g.clone(), d.clone()], vec![g.clone(), d.clone()], vec![d.clone()], vec![d.clone()], vec![]];
    if arm_returns != want_returns {
        return Err(format!("search_filter_entry: returns of the origin arms changed: {arm_returns:?}"));
    }
    body += "-- verified shape of `search_filter_entry`: origin arms System => Grant, AccountRequest => Grant|Deny,\n-- Migration => Grant|Deny, MessageQueue => Deny, Synch(_) => Deny, User(_) => falls through\n";
    // scope match
    let scope = matches_in(&sfe.block)
        .into_iter()
        .find(|m| toks(&m.expr) == "ident . access_scope ()")
        .ok_or("search_filter_entry: no `match ident.access_scope()`")?;
    let scope_pats: Vec<String> = scope.arms.iter().map(|a| toks(&a.pat)).collect();
    if scope_pats != ["AccessScope :: Synchronise", "AccessScope :: ReadOnly | AccessScope :: ReadWrite"] {
        return Err(format!("search_filter_entry: scope arms changed: {scope_pats:?}"));
    }
    let mut rv = RetV(vec![]);
    rv.visit_expr(&scope.arms[0].body);
    let mut rv2 = RetV(vec![]);
    rv2.visit_expr(&scope.arms[1].body);
    if rv.0 != vec![d.clone()] || !rv2.0.is_empty() {
        return Err(format!("search_filter_entry: scope arm results changed: {:?} / {:?}", rv.0, rv2.0));
    }
    body += "-- verified shape of `search_filter_entry`: scope Synchronise => Deny, ReadOnly | ReadWrite continue\n\n";

    // ---- migration classes ----------------------------------------------------------------------
    let mig = parse_file(repo, "server/lib/src/server/access/migration.rs")?;
    for (sname, lname) in [("MIGRATION_ENTRY_CLASSES", "migrationEntryClasses"), ("MIGRATION_IGNORE_CLASSES", "migrationIgnoreClasses")] {
        let l = static_class_list(&mig, sname)?;
        let mut items = vec![];
        for c in &l {
            items.push(format!("{} /- {} -/", lean_str_val(&cls(c)?), cls(c)?));
        }
        body += &format!("/-- `{sname}` (access/migration.rs) -/\ndef {lname} : List Val := [\n  {}]\n", items.join(",\n  "));
        summary.push(format!("{lname}:{}", l.len()));
    }
    body += "\n";

    // ---- filter_entries / search_filter_entry_attributes / search_related_acp (access/mod.rs) ---
    let acc = parse_file(repo, "server/lib/src/server/access/mod.rs")?;
    let fe = find_trait_fn(&acc, "AccessControlsTransaction", "filter_entries")?;
    let fe_m = matches_in(&fe.block)
        .into_iter()
        .find(|m| toks(&m.expr) == "apply_search_access (ident , related_acp . as_slice () , e)")
        .ok_or("filter_entries: no `match apply_search_access(ident, related_acp.as_slice(), e)`")?;
    let pats: Vec<String> = fe_m.arms.iter().map(|a| toks(&a.pat)).collect();
    if pats != ["SearchResult :: Deny", "SearchResult :: Grant", "SearchResult :: Allow (allowed_attrs)"] {
        return Err(format!("filter_entries: arms changed: {pats:?}"));
    }
    let deny_b = toks(&fe_m.arms[0].body);
    let grant_b = toks(&fe_m.arms[1].body);
    if !(deny_b == "false" || deny_b == "true") || !(grant_b == "false" || grant_b == "true") {
        return Err(format!("filter_entries: Deny/Grant arms are not boolean literals: `{deny_b}` / `{grant_b}`"));
    }
    // Allow arm: `let decision = requested_attrs.is_subset(&allowed_attrs); …; decision`
    let allow_stmts: Vec<String> = match &*fe_m.arms[2].body {
        syn::Expr::Block(b) => b.block.stmts.iter().map(toks).collect(),
        other => vec![toks(other)],
    };
    let first = allow_stmts.first().cloned().unwrap_or_default();
    let lastst = allow_stmts.last().cloned().unwrap_or_default();
    let allow_lean = match first.as_str() {
        "let decision = requested_attrs . is_subset (& allowed_attrs) ;" => "subset requested allowed",
        other => return Err(format!("filter_entries: Allow decision changed: `{other}`")),
    };
    if lastst != "decision" || allow_stmts.len() != 3 {
        return Err(format!("filter_entries: Allow arm changed: {allow_stmts:?}"));
    }
    // requested attrs and the empty-request barrier
    let fe_stmts: Vec<String> = fe.block.stmts.iter().map(toks).collect();
    let want0 = "let requested_attrs : BTreeSet < Attribute > = filter_orig . get_attr_set () ;";
    expect_eq("filter_entries: requested attribute set", &fe_stmts[0], want0)?;
    if !fe_stmts[1].starts_with("if requested_attrs . is_empty () {") || !fe_stmts[1].ends_with("return Ok (Vec :: with_capacity (0)) ; }") {
        return Err(format!("filter_entries: empty-request barrier changed: `{}`", fe_stmts[1]));
    }
    expect_eq("filter_entries: related acps", &fe_stmts[2], "let related_acp = self . search_related_acp (ident , None) ;")?;
    body += "/-- `filter_entries` (access/mod.rs): the per-entry decision for each `SearchResult` -/\n";
    body += &format!("def filterEntriesDeny : Bool := {deny_b}\ndef filterEntriesGrant : Bool := {grant_b}\n");
    body += &format!("def filterEntriesAllow (requested allowed : List Nat) : Bool := {allow_lean}\n\n");

    let red = find_trait_fn(&acc, "AccessControlsTransaction", "search_filter_entry_attributes")?;
    let red_m = matches_in(&red.block)
        .into_iter()
        .find(|m| toks(&m.expr) == "apply_search_access (& se . ident , & search_related_acp , & entry)")
        .ok_or("search_filter_entry_attributes: no `match apply_search_access(&se.ident, &search_related_acp, &entry)`")?;
    let pats: Vec<String> = red_m.arms.iter().map(|a| toks(&a.pat)).collect();
    if pats != ["SearchResult :: Deny", "SearchResult :: Grant", "SearchResult :: Allow (allowed_attrs)"] {
        return Err(format!("search_filter_entry_attributes: arms changed: {pats:?}"));
    }
    let tail = |e: &syn::Expr| -> String {
        match e {
            syn::Expr::Block(b) => b.block.stmts.last().map(toks).unwrap_or_default(),
            o => toks(o),
        }
    };
    if tail(&red_m.arms[0].body) != "None" || tail(&red_m.arms[1].body) != "None" {
        return Err("search_filter_entry_attributes: Deny / Grant no longer release nothing".into());
    }
    let red_allow = toks(&red_m.arms[2].body);
    let want_reduce = "let reduced_attrs = if let Some (requested) = se . attrs . as_ref () { requested & & allowed_attrs } else { allowed_attrs } ;";
    if !red_allow.contains(want_reduce) {
        return Err(format!("search_filter_entry_attributes: reduction changed (expected `{want_reduce}`)"));
    }
    if !red_allow.ends_with("Some (entry . reduce_attributes (& reduced_attrs , effective_permissions)) }") {
        return Err("search_filter_entry_attributes: Allow arm no longer ends in reduce_attributes(&reduced_attrs, …)".into());
    }
    let origin_m = matches_in(&red.block)
        .into_iter()
        .find(|m| toks(&m.expr) == "& se . ident . origin")
        .ok_or("search_filter_entry_attributes: no `match &se.ident.origin`")?;
    let opats: Vec<String> = origin_m.arms.iter().map(|a| toks(&a.pat)).collect();
    if opats != ["IdentType :: Internal (_)", "IdentType :: Synch (_)", "IdentType :: User (u)"] {
        return Err(format!("search_filter_entry_attributes: origin arms changed: {opats:?}"));
    }
    let mut r0 = RetV(vec![]);
    r0.visit_expr(&origin_m.arms[0].body);
    let mut r1 = RetV(vec![]);
    r1.visit_expr(&origin_m.arms[1].body);
    let inv = vec!["Err (OperationError :: InvalidState)".to_string()];
    if r0.0 != inv || r1.0 != inv {
        return Err("search_filter_entry_attributes: Internal / Synch no longer rejected with InvalidState".into());
    }
    if !toks(&red.block).contains("let search_related_acp = self . search_related_acp (& se . ident , se . attrs . as_ref ()) ;") {
        return Err("search_filter_entry_attributes: related acps no longer `search_related_acp(&se.ident, se.attrs.as_ref())`".into());
    }
    body += "/-- `search_filter_entry_attributes`: `requested & &allowed_attrs` when attributes were requested -/\n";
    body += "def reduceAttrs (requested : Option (List Nat)) (allowed : List Nat) : List Nat :=\n  match requested with\n  | some r => inter r allowed\n  | none => allowed\n";
    body += "-- verified shape of `search_filter_entry_attributes`: Deny => None, Grant => None (releases nothing),\n-- origin Internal(_) / Synch(_) => Err(InvalidState), related acps = search_related_acp(&se.ident, se.attrs.as_ref())\n\n";

    let rel = find_trait_fn(&acc, "AccessControlsTransaction", "search_related_acp")?;
    let relt = toks(&rel.block);
    if !relt.contains("let related_acp = if let Some (r_attrs) = attrs . as_ref () { related_acp . into_iter () . filter (| acs | ! acs . acp . attrs . is_disjoint (r_attrs)) . collect () } else { related_acp } ;") {
        return Err("search_related_acp: the requested-attribute trim changed".into());
    }
    if !relt.contains("resolve_access_conditions (ident , ident_memberof , & acs . acp . receiver , & acs . acp . target , acp_resolve_filter_cache ,) ?") {
        return Err("search_related_acp: resolve_access_conditions call changed".into());
    }
    body += "/-- `search_related_acp`: a profile is kept iff its attrs are not disjoint from the request -/\ndef relatedKeeps (acpAttrs requested : List Nat) : Bool := !(disjoint acpAttrs requested)\n\n";

    // ---- filter.rs wrappers --------------------------------------------------------------------
    let flt = parse_file(repo, "server/lib/src/filter.rs")?;
    let ih = find_fn(&flt, "FilterComp::new_ignore_hidden")?;
    expect_eq(
        "FilterComp::new_ignore_hidden",
        &toks(&ih.block),
        "{ FilterComp :: And (vec ! [FilterComp :: AndNot (Box :: new (FilterComp :: Or (vec ! [FilterComp :: Eq (Attribute :: Class , EntryClass :: Tombstone . into ()) , FilterComp :: Eq (Attribute :: Class , EntryClass :: Recycled . into ()) ,]))) , fc ,]) }",
    )?;
    let rc = find_fn(&flt, "FilterComp::new_recycled")?;
    expect_eq(
        "FilterComp::new_recycled",
        &toks(&rc.block),
        "{ FilterComp :: And (vec ! [FilterComp :: Eq (Attribute :: Class , EntryClass :: Recycled . into ()) , fc ,]) }",
    )?;
    body += &format!("/-- `EntryClass::Tombstone` / `EntryClass::Recycled` -/\ndef clsTombstone : Val := {}\ndef clsRecycled : Val := {}\n", lean_str_val(&cls("Tombstone")?), lean_str_val(&cls("Recycled")?));
    body += "/-- `FilterComp::new_ignore_hidden` (filter.rs) -/\ndef ignoreHidden (fc : FC) : FC :=\n  .and [.andnot (.or [.eq Attr.Class clsTombstone, .eq Attr.Class clsRecycled]), fc]\n";
    body += "/-- `FilterComp::new_recycled` (filter.rs) -/\ndef recycledOnly (fc : FC) : FC :=\n  .and [.eq Attr.Class clsRecycled, fc]\n\n";
    let gas = find_fn(&flt, "FilterComp::get_attr_set")?;
    let gas_m = matches_in(&gas.block).into_iter().next().ok_or("get_attr_set: no match")?;
    let gas_arms: Vec<String> = gas_m.arms.iter().map(toks).collect();
    let want_gas = [
        "FilterComp :: Eq (attr , _) | FilterComp :: Cnt (attr , _) | FilterComp :: Stw (attr , _) | FilterComp :: Enw (attr , _) | FilterComp :: Pres (attr) | FilterComp :: LessThan (attr , _) | FilterComp :: Invalid (attr) => { r_set . insert (attr . clone ()) ; }",
        "FilterComp :: Or (vs) => vs . iter () . for_each (| f | f . get_attr_set (r_set)) ,",
        "FilterComp :: And (vs) => vs . iter () . for_each (| f | f . get_attr_set (r_set)) ,",
        "FilterComp :: Inclusion (vs) => vs . iter () . for_each (| f | f . get_attr_set (r_set)) ,",
        "FilterComp :: AndNot (f) => f . get_attr_set (r_set) ,",
        "FilterComp :: SelfUuid => { r_set . insert (Attribute :: Uuid) ; }",
    ];
    if gas_arms != want_gas {
        return Err(format!("FilterComp::get_attr_set: arms changed: {gas_arms:?}"));
    }
    body += "/-- `FilterComp::get_attr_set`: the attribute a `SelfUuid` term counts as -/\ndef selfUuidAttr : Nat := Attr.Uuid\n";
    body += "end Kanidm.Gen.AccessSearch\n";

    let header = "-- GENERATED by vtranslate (item access-search-tables) from server/lib/src/server/access/{search,migration,mod}.rs,\n-- server/lib/src/filter.rs, server/lib/src/constants/{entries,uuids}.rs, proto/src/constants.rs.\n-- Do not edit: rewritten on every check run.\nimport KanidmModel.Access.Types\nset_option linter.unusedVariables false\n";
    let text = format!("{header}{body}");
    let path = format!("{out}/AccessSearchTables.lean");
    if !std::fs::read_to_string(&path).map(|old| old == text).unwrap_or(false) {
        std::fs::write(&path, text).map_err(|e| format!("{path}: {e}"))?;
    }
    Ok(format!("AccessSearchTables: {}", summary.join(" ")))
}
