//! C49 translator item `validity-surfaces` → `Generated/ValidityOps.lean`.
//!
//! Part A — the two validity gates, operator by operator:
//!  * idm/account.rs `Account::check_within_valid_time` (`cot`, both `if let Some(..)` comparisons,
//!    both defaults, the conjunction) and `Account::is_within_valid_time` (argument order), the
//!    `try_from_entry!` macro's `valid_from` / `expire` attribute reads (text shape);
//!  * idm/radius.rs `RadiusAccount::is_within_valid_time` (same shape, its own operators) and
//!    `RadiusAccount::try_from_entry_reduced`: which entry the two attributes are read from
//!    (`stored` = `qs.internal_search_uuid(uuid)?`  vs the access-reduced `value`).
//!
//! Part B — the surface table. Every function of the IDM transaction types that takes the request
//! time (`ct: Duration`) is *discovered* from the source and must be classified below as an
//! authentication / credential-release surface (with the gate it must contain, where, and what it
//! answers when the gate fails) or as a non-surface with a reason. A new function with a time
//! parameter, a classified function that vanished, a gate that is missing, reads another entry,
//! is not an early return placed before every success expression, or answers something else on
//! failure is an `Err` (broken obligation `translate:validity-surfaces`).
use crate::util::*;
use quote::ToTokens;
use std::collections::{BTreeMap, BTreeSet};
use syn::visit::Visit;

pub fn run(item: &str, repo: &str, out: &str) -> Option<Result<String, String>> {
    match item {
        "validity-surfaces" => Some(generate(repo, out)),
        _ => None,
    }
}

fn toks<T: ToTokens>(t: &T) -> String {
    t.to_token_stream().to_string()
}
fn nsp<T: ToTokens>(t: &T) -> String {
    toks(t).chars().filter(|c| !c.is_whitespace()).collect()
}

const SERVER: &str = "server/lib/src/idm/server.rs";
const OAUTH2: &str = "server/lib/src/idm/oauth2.rs";
const ACCOUNT: &str = "server/lib/src/idm/account.rs";
const RADIUS: &str = "server/lib/src/idm/radius.rs";
const SERVICE: &str = "server/lib/src/idm/serviceaccount.rs";
const APPLICATION: &str = "server/lib/src/idm/application.rs";
const REAUTH: &str = "server/lib/src/idm/reauth.rs";
const AUTHSESSION: &str = "server/lib/src/idm/authsession/mod.rs";

// ------------------------------------------------------------------------------------------------
// Part A: gates

fn find_local(block: &syn::Block, name: &str) -> Result<syn::Expr, String> {
    struct V<'n>(&'n str, Vec<syn::Expr>);
    impl<'ast, 'n> Visit<'ast> for V<'n> {
        fn visit_local(&mut self, l: &'ast syn::Local) {
            if let syn::Pat::Ident(i) = &l.pat {
                if i.ident == self.0 {
                    if let Some(init) = &l.init {
                        self.1.push((*init.expr).clone());
                    }
                }
            }
            syn::visit::visit_local(self, l);
        }
    }
    let mut v = V(name, vec![]);
    v.visit_block(block);
    match v.1.len() {
        1 => Ok(v.1.remove(0)),
        0 => Err(format!("no `let {name} = ..`")),
        n => Err(format!("`let {name} = ..` occurs {n} times")),
    }
}

fn is_cmp(e: &syn::Expr) -> bool {
    use syn::BinOp::*;
    matches!(e, syn::Expr::Binary(b) if matches!(b.op, Lt(_) | Le(_) | Gt(_) | Ge(_) | Eq(_) | Ne(_)))
}

fn lit_bool(e: &syn::Expr) -> Result<bool, String> {
    match e {
        syn::Expr::Lit(l) => match &l.lit {
            syn::Lit::Bool(b) => Ok(b.value),
            _ => Err(format!("`{}` is not a boolean literal", toks(e))),
        },
        syn::Expr::Block(b) if b.block.stmts.len() == 1 => match &b.block.stmts[0] {
            syn::Stmt::Expr(e, None) => lit_bool(e),
            s => Err(format!("`{}` is not a boolean literal", toks(s))),
        },
        _ => Err(format!("`{}` is not a boolean literal", toks(e))),
    }
}

struct Gate {
    cot: String,
    vf_src: String,
    vf_cmp: String,
    vf_none: bool,
    ex_src: String,
    ex_cmp: String,
    ex_none: bool,
    mix_src: String,
    mix: String,
}

/// `let <name> = if let Some(<x>) = <opt> { <cmp> } else { <bool> };`
fn opt_cmp(fname: &str, block: &syn::Block, name: &str, opt_name: &str, must: &str) -> Result<(String, String, bool), String> {
    let e = find_local(block, name).map_err(|e| format!("{fname}: {e}"))?;
    let syn::Expr::If(i) = &e else { return Err(format!("{fname}: `{name}` is not an `if let`: `{}`", toks(&e))) };
    let syn::Expr::Let(l) = &*i.cond else { return Err(format!("{fname}: `{name}`: condition `{}` is not `let Some(..) = {opt_name}`", toks(&*i.cond))) };
    if nsp(&*l.expr) != opt_name {
        return Err(format!("{fname}: `{name}` destructures `{}`, expected `{opt_name}`", toks(&*l.expr)));
    }
    let bound = match &*l.pat {
        syn::Pat::TupleStruct(ts) if nsp(&ts.path) == "Some" && ts.elems.len() == 1 => match &ts.elems[0] {
            syn::Pat::Ident(id) => id.ident.to_string(),
            p => return Err(format!("{fname}: `{name}`: unsupported pattern `{}`", toks(p))),
        },
        p => return Err(format!("{fname}: `{name}`: unsupported pattern `{}`", toks(p))),
    };
    if i.then_branch.stmts.len() != 1 {
        return Err(format!("{fname}: `{name}`: then-branch is not a single comparison"));
    }
    let cmp = match &i.then_branch.stmts[0] {
        syn::Stmt::Expr(c, None) if is_cmp(c) => c.clone(),
        o => return Err(format!("{fname}: `{name}`: then-branch `{}` is not a comparison", toks(o))),
    };
    let dflt = match &i.else_branch {
        Some((_, e)) => lit_bool(e).map_err(|e| format!("{fname}: `{name}` else: {e}"))?,
        None => return Err(format!("{fname}: `{name}` has no else branch")),
    };
    // the comparison must be between the bound datetime and `cot`, nothing else
    let vs = super::vars(&[(bound.as_str(), must), ("cot", "cot")]);
    let lean = lean_expr(&cmp, &vs).map_err(|e| format!("{fname}: `{name}`: {e}"))?;
    if !(lean.contains(must) && lean.contains("cot")) {
        return Err(format!("{fname}: `{name}`: comparison `{}` is not between the attribute and `cot`", toks(&cmp)));
    }
    Ok((toks(&cmp), lean, dflt))
}

fn gate(fname: &str, f: &FoundFn, vf_opt: &str, ex_opt: &str) -> Result<Gate, String> {
    let cot = find_local(&f.block, "cot").map_err(|e| format!("{fname}: {e}"))?;
    let vs = super::vars(&[("OffsetDateTime::UNIX_EPOCH", "0"), ("time::OffsetDateTime::UNIX_EPOCH", "0"), ("ct", "ct")]);
    let cot_l = lean_expr(&cot, &vs).map_err(|e| format!("{fname}: cot: {e}"))?;
    let (vf_src, vf_cmp, vf_none) = opt_cmp(fname, &f.block, "vmin", vf_opt, "vft")?;
    let (ex_src, ex_cmp, ex_none) = opt_cmp(fname, &f.block, "vmax", ex_opt, "ext")?;
    let tail = match f.block.stmts.last() {
        Some(syn::Stmt::Expr(e, None)) => e.clone(),
        _ => return Err(format!("{fname}: no tail expression")),
    };
    let vs = super::vars(&[("vmin", "vmin"), ("vmax", "vmax")]);
    let mix = lean_expr(&tail, &vs).map_err(|e| format!("{fname}: result: {e}"))?;
    Ok(Gate { cot: cot_l, vf_src, vf_cmp, vf_none, ex_src, ex_cmp, ex_none, mix_src: toks(&tail), mix })
}

fn lb(b: bool) -> &'static str {
    if b {
        "true"
    } else {
        "false"
    }
}

fn gate_lean(prefix: &str, origin: &str, g: &Gate) -> String {
    let mut b = String::new();
    b += &format!("/-- `{origin}`: `cot = EPOCH + ct` -/\ndef {prefix}Cot (ct : Nat) : Nat := {}\n", g.cot);
    b += &format!(
        "/-- `{origin}`: `{}`, absent ⇒ `{}` -/\ndef {prefix}VfOk (valid_from : Option Nat) (cot : Nat) : Bool :=\n  match valid_from with\n  | some vft => {}\n  | none => {}\n",
        g.vf_src,
        lb(g.vf_none),
        g.vf_cmp,
        lb(g.vf_none)
    );
    b += &format!(
        "/-- `{origin}`: `{}`, absent ⇒ `{}` -/\ndef {prefix}ExOk (expire : Option Nat) (cot : Nat) : Bool :=\n  match expire with\n  | some ext => {}\n  | none => {}\n",
        g.ex_src,
        lb(g.ex_none),
        g.ex_cmp,
        lb(g.ex_none)
    );
    b += &format!("/-- `{origin}`: `{}` -/\ndef {prefix}Mix (vmin vmax : Bool) : Bool := {}\n", g.mix_src, g.mix);
    b
}

// ------------------------------------------------------------------------------------------------
// Part B: discovery of entry points

/// (file, impl-or-trait type) pairs that are searched for functions taking `ct: Duration`.
const SCOPES: &[(&str, &str)] = &[
    (SERVER, "IdmServerTransaction"),
    (SERVER, "IdmServerAuthTransaction"),
    (SERVER, "IdmServerProxyReadTransaction"),
    (APPLICATION, "IdmServerAuthTransaction"),
    (REAUTH, "IdmServerAuthTransaction"),
    (OAUTH2, "IdmServerProxyReadTransaction"),
    (OAUTH2, "IdmServerProxyWriteTransaction"),
    (ACCOUNT, "IdmServerProxyReadTransaction"),
    (SERVICE, "IdmServerProxyReadTransaction"),
];

fn has_ct(sig: &syn::Signature) -> bool {
    sig.inputs.iter().any(|a| match a {
        syn::FnArg::Typed(t) => nsp(&*t.pat) == "ct" || nsp(&*t.pat) == "_ct",
        _ => false,
    })
}

fn discover(repo: &str) -> Result<BTreeSet<(String, String)>, String> {
    let mut out = BTreeSet::new();
    let mut files: BTreeMap<&str, syn::File> = BTreeMap::new();
    for (file, _) in SCOPES {
        if !files.contains_key(file) {
            files.insert(file, parse_file(repo, file)?);
        }
    }
    for (file, ty) in SCOPES {
        let ast = &files[file];
        for it in &ast.items {
            match it {
                syn::Item::Impl(i) if i.trait_.is_none() => {
                    let name = match &*i.self_ty {
                        syn::Type::Path(p) => p.path.segments.last().map(|s| s.ident.to_string()).unwrap_or_default(),
                        _ => String::new(),
                    };
                    if name != *ty {
                        continue;
                    }
                    for ii in &i.items {
                        if let syn::ImplItem::Fn(f) = ii {
                            if has_ct(&f.sig) {
                                out.insert((file.to_string(), format!("{ty}::{}", f.sig.ident)));
                            }
                        }
                    }
                }
                syn::Item::Trait(t) if t.ident == ty => {
                    for ti in &t.items {
                        if let syn::TraitItem::Fn(f) = ti {
                            if has_ct(&f.sig) && f.default.is_some() {
                                out.insert((file.to_string(), format!("{ty}::{}", f.sig.ident)));
                            }
                        }
                    }
                }
                _ => {}
            }
        }
    }
    Ok(out)
}

// ------------------------------------------------------------------------------------------------
// Part B: the classification

#[derive(Clone, Copy, PartialEq)]
enum GateKind {
    Account,
    Radius,
}

#[derive(Clone)]
enum Rule {
    /// A top-level early return `if !<cond> { <log>* <refusal> }` of the function body (or of the
    /// then-block of the top-level `if <scope>`), before every occurrence of each success marker.
    /// `pre`: whitespace-free snippets that must occur, in this order, before the gate (the
    /// entry lookup and the account construction — they fix which view of the entry is judged).
    IfNot { scope: Option<&'static str>, cond: &'static str, refusal: &'static str, pre: &'static [&'static str], success: &'static [&'static str], kind: GateKind },
    /// `let state = if <cond> { .. } else { <log>* <else_tail> };` as a top-level statement.
    StateIf { cond: &'static str, else_tail: &'static str, denied_arm: &'static str },
    /// A struct field `<field>: <expr>` in the success value.
    Field { field: &'static str, expr: &'static str },
    /// No gate of its own: never builds `success` itself except through the listed calls.
    /// `any` = alternatives (a dispatcher), otherwise every call is on every success path.
    Calls { calls: &'static [(&'static str, &'static str)], any: bool, forbid: &'static [&'static str] },
}

struct Surface {
    sid: &'static str,
    file: &'static str,
    func: &'static str,
    /// is this a public entry point (true) or an inner gated function (false)
    entry: bool,
    rule: Rule,
    what: &'static str,
}

const WINDOW_CALL_ENTRY: &str = "letwithin_valid_window=Account::check_within_valid_time(ct,entry.get_ava_single_datetime(Attribute::AccountValidFrom).as_ref(),entry.get_ava_single_datetime(Attribute::AccountExpire).as_ref(),);";
const WINDOW_CALL_ACCOUNT_ENTRY: &str = "letwithin_valid_window=Account::check_within_valid_time(ct,account_entry.get_ava_single_datetime(Attribute::AccountValidFrom).as_ref(),account_entry.get_ava_single_datetime(Attribute::AccountExpire).as_ref(),);";

fn surfaces() -> Vec<Surface> {
    use GateKind::*;
    use Rule::*;
    vec![
        // ---- inner gated functions
        Surface {
            sid: "authsession_new", file: AUTHSESSION, func: "AuthSession::new", entry: false,
            rule: StateIf { cond: "asd.account.is_within_valid_time(asd.ct)", else_tail: "AuthSessionState::Denied(ACCOUNT_EXPIRED)", denied_arm: "ifletSome(reason)=state.is_denied(){(None,AuthState::Denied(reason.to_string()))}" },
            what: "interactive login: session construction",
        },
        Surface {
            sid: "authsession_new_reauth", file: AUTHSESSION, func: "AuthSession::new_reauth", entry: false,
            rule: StateIf { cond: "asd.account.is_within_valid_time(asd.ct)", else_tail: "State::Expired", denied_arm: "State::Expired=>{security_info!(\"accountexpired\");(None,AuthState::Denied(ACCOUNT_EXPIRED.to_string()))}" },
            what: "re-authentication: session construction",
        },
        Surface {
            sid: "auth_with_unix_pass", file: SERVER, func: "IdmServerAuthTransaction::auth_with_unix_pass", entry: true,
            rule: IfNot { scope: None, cond: "account.is_within_valid_time(ct)", refusal: "returnOk(None);",
                pre: &["self.qs_read.internal_search_uuid(id)", "let(account,acp)=Account::try_from_entry_with_policy(entry.as_ref(),&mutself.qs_read)?;"],
                success: &["Ok(Some(account))"], kind: Account },
            what: "POSIX password check",
        },
        Surface {
            sid: "check_user_auth_token_valid", file: ACCOUNT, func: "Account::check_user_auth_token_valid", entry: false,
            rule: IfNot { scope: None, cond: "within_valid_window", refusal: "returnfalse;", pre: &[WINDOW_CALL_ENTRY], success: &["true"], kind: Account },
            what: "login token: account part of the session check",
        },
        Surface {
            sid: "check_api_token_valid", file: SERVICE, func: "ServiceAccount::check_api_token_valid", entry: false,
            rule: IfNot { scope: None, cond: "within_valid_window", refusal: "returnfalse;", pre: &[WINDOW_CALL_ENTRY], success: &["true"], kind: Account },
            what: "api token: account part of the session check",
        },
        Surface {
            sid: "process_uat_to_identity", file: SERVER, func: "IdmServerTransaction::process_uat_to_identity", entry: true,
            rule: Calls { calls: &[("letvalid=Account::check_user_auth_token_valid(ct,uat,&entry);if!valid{returnErr(OperationError::SessionExpired);}", "check_user_auth_token_valid")], any: false, forbid: &[] },
            what: "login token → identity",
        },
        Surface {
            sid: "process_apit_to_identity", file: SERVER, func: "IdmServerTransaction::process_apit_to_identity", entry: true,
            rule: Calls { calls: &[("letvalid=ServiceAccount::check_api_token_valid(ct,apit,&entry);if!valid{returnErr(OperationError::SessionExpired);}", "check_api_token_valid")], any: false, forbid: &[] },
            what: "api token → identity",
        },
        Surface {
            sid: "client_certificate_to_identity", file: SERVER, func: "IdmServerTransaction::client_certificate_to_identity", entry: true,
            rule: IfNot { scope: None, cond: "account.is_within_valid_time(ct)", refusal: "returnErr(OperationError::SessionExpired);",
                pre: &["letentry=self.get_qs_txn().internal_search_uuid(refers_uuid)?;", "let(account,account_policy)=Account::try_from_entry_with_policy(entry.as_ref(),self.get_qs_txn())?;"],
                success: &["Ok(Identity::new("], kind: Account },
            what: "client certificate → identity",
        },
        Surface {
            sid: "client_certificate_to_user_auth_token", file: SERVER, func: "IdmServerTransaction::client_certificate_to_user_auth_token", entry: true,
            rule: IfNot { scope: None, cond: "account.is_within_valid_time(ct)", refusal: "returnErr(OperationError::SessionExpired);",
                pre: &["letentry=self.get_qs_txn().internal_search_uuid(refers_uuid)?;", "let(account,account_policy)=Account::try_from_entry_with_policy(entry.as_ref(),self.get_qs_txn())?;"],
                success: &["account.client_cert_info_to_userauthtoken("], kind: Account },
            what: "client certificate → session token",
        },
        Surface {
            sid: "process_ldap_uuid_to_identity", file: SERVER, func: "IdmServerTransaction::process_ldap_uuid_to_identity", entry: true,
            rule: IfNot { scope: None, cond: "account.is_within_valid_time(ct)", refusal: "returnErr(OperationError::SessionExpired);",
                pre: &["letentry=self.get_qs_txn().internal_search_uuid(*uuid)", "let(account,account_policy)=Account::try_from_entry_with_policy(entry.as_ref(),self.get_qs_txn())?;"],
                success: &["Ok(Identity::new("], kind: Account },
            what: "use of an LDAP password bind",
        },
        Surface {
            sid: "check_oauth2_account_uuid_valid", file: SERVER, func: "IdmServerTransaction::check_oauth2_account_uuid_valid", entry: true,
            rule: IfNot { scope: None, cond: "within_valid_window", refusal: "returnOk(None);",
                pre: &["letentry=self.get_qs_txn().internal_search_uuid(uuid)", WINDOW_CALL_ENTRY],
                success: &["Ok(Some(entry))"], kind: Account },
            what: "OAuth2 token use: account and session check",
        },
        // ---- dispatchers of the token front end
        Surface {
            sid: "validate_client_auth_info_to_ident", file: SERVER, func: "IdmServerTransaction::validate_client_auth_info_to_ident", entry: true,
            rule: Calls { calls: &[
                    ("self.process_uat_to_identity(&uat,ct,source)", "process_uat_to_identity"),
                    ("self.client_certificate_to_identity(&client_cert_info,ct,source)", "client_certificate_to_identity"),
                    ("self.process_apit_to_identity(&apit,source,entry,ct)", "process_apit_to_identity"),
                ], any: true, forbid: &["Ok("] },
            what: "bearer token / client certificate → identity (every authenticated request)",
        },
        Surface {
            sid: "validate_ldap_session", file: SERVER, func: "IdmServerTransaction::validate_ldap_session", entry: true,
            rule: Calls { calls: &[
                    ("self.process_ldap_uuid_to_identity(uuid,ct,source)", "process_ldap_uuid_to_identity"),
                    ("self.process_uat_to_identity(uat,ct,source)", "process_uat_to_identity"),
                    ("self.process_apit_to_identity(apit,source,entry,ct)", "process_apit_to_identity"),
                ], any: true, forbid: &["Ok("] },
            what: "every LDAP operation after a bind",
        },
        // ---- interactive login
        Surface {
            sid: "auth", file: SERVER, func: "IdmServerAuthTransaction::auth", entry: true,
            rule: Calls { calls: &[("let(auth_session,state)=AuthSession::new(asd,init.privileged,domain_keys);", "authsession_new")], any: false, forbid: &["AuthSession{"] },
            what: "interactive login (Init step; later steps need the stored session)",
        },
        Surface {
            sid: "reauth_init", file: REAUTH, func: "IdmServerAuthTransaction::reauth_init", entry: true,
            rule: Calls { calls: &[("AuthSession::new_reauth(asd,ident.session_id,session,session_cred_id,domain_keys,&reauth_req,)", "authsession_new_reauth")], any: false, forbid: &["AuthSession{"] },
            what: "re-authentication of a privilege-capable session",
        },
        // ---- POSIX / LDAP
        Surface {
            sid: "auth_unix", file: SERVER, func: "IdmServerAuthTransaction::auth_unix", entry: true,
            rule: Calls { calls: &[("self.auth_with_unix_pass(uae.target,&uae.cleartext,ct).await?", "auth_with_unix_pass")], any: false, forbid: &["Some("] },
            what: "POSIX password check (unix daemon)",
        },
        Surface {
            sid: "auth_ldap_anonymous", file: SERVER, func: "IdmServerAuthTransaction::auth_ldap", entry: true,
            rule: IfNot { scope: Some("lae.target==UUID_ANONYMOUS"), cond: "account.is_within_valid_time(ct)", refusal: "returnOk(None);",
                pre: &["letaccount_entry=self.qs_read.internal_search_uuid(lae.target)", "letaccount=Account::try_from_entry_ro(account_entry.as_ref(),&mutself.qs_read)?;"],
                success: &["Ok(Some(LdapBoundToken{"], kind: Account },
            what: "LDAP anonymous bind",
        },
        Surface {
            sid: "auth_ldap_password", file: SERVER, func: "IdmServerAuthTransaction::auth_ldap", entry: true,
            rule: Calls { calls: &[("letauth=self.auth_with_unix_pass(lae.target,&lae.cleartext,ct).await?;matchauth{Some(account)=>", "auth_with_unix_pass")], any: false, forbid: &[] },
            what: "LDAP simple bind with the POSIX password",
        },
        Surface {
            sid: "application_auth_ldap", file: APPLICATION, func: "IdmServerAuthTransaction::application_auth_ldap", entry: true,
            rule: IfNot { scope: None, cond: "account.is_within_valid_time(ct)", refusal: "returnErr(OperationError::SessionExpired);",
                pre: &["letusr_entry=self.get_qs_txn().internal_search_uuid(lae.target)?;", "letaccount:Account=Account::try_from_entry_ro(&usr_entry,&mutself.qs_read)"],
                success: &["Ok(Some(LdapBoundToken{"], kind: Account },
            what: "LDAP bind with an application password",
        },
        Surface {
            sid: "token_auth_ldap", file: SERVER, func: "IdmServerAuthTransaction::token_auth_ldap", entry: true,
            rule: Calls { calls: &[
                    ("Token::UserAuthToken(uat)=>{self.process_uat_to_identity(&uat,ct,Source::Internal)?;", "process_uat_to_identity"),
                    ("Token::ApiToken(apit,entry)=>{self.process_apit_to_identity(&apit,Source::Internal,entry.clone(),ct)?;", "process_apit_to_identity"),
                ], any: true, forbid: &[] },
            what: "LDAP bind with a login token or api token as the password",
        },
        // ---- credential release
        Surface {
            sid: "to_radiusauthtoken", file: RADIUS, func: "RadiusAccount::to_radiusauthtoken", entry: false,
            rule: IfNot { scope: None, cond: "self.is_within_valid_time(ct)", refusal: "returnErr(OperationError::InvalidAccountState(\"AccountExpired\".to_string(),));",
                pre: &[], success: &["Ok(RadiusAuthToken{"], kind: Radius },
            what: "RADIUS secret release: token construction",
        },
        Surface {
            sid: "get_radiusauthtoken", file: SERVER, func: "IdmServerProxyReadTransaction::get_radiusauthtoken", entry: true,
            rule: Calls { calls: &[("RadiusAccount::try_from_entry_reduced(&account_entry,&mutself.qs_read)", "to_radiusauthtoken"), ("account.to_radiusauthtoken(ct)", "to_radiusauthtoken")], any: false, forbid: &["Ok("] },
            what: "RADIUS secret release",
        },
        Surface {
            sid: "to_unixusertoken", file: ACCOUNT, func: "Account::to_unixusertoken", entry: false,
            rule: Field { field: "valid", expr: "self.is_within_valid_time(ct)" },
            what: "POSIX user token: the `valid` flag",
        },
        Surface {
            sid: "get_unixusertoken", file: SERVER, func: "IdmServerProxyReadTransaction::get_unixusertoken", entry: true,
            rule: Calls { calls: &[(".impersonate_search_uuid(uute.target,&uute.ident).and_then(|account_entry|Account::try_from_entry_ro(&account_entry,&mutself.qs_read))", "to_unixusertoken"), ("account.to_unixusertoken(ct)", "to_unixusertoken")], any: false, forbid: &["Ok("] },
            what: "POSIX user token release (its `valid` flag is the decision)",
        },
        // ---- OAuth2
        Surface {
            sid: "oauth2_code_exchange", file: OAUTH2, func: "IdmServerProxyWriteTransaction::check_oauth2_token_exchange_authorization_code", entry: true,
            rule: IfNot { scope: None, cond: "within_valid_window", refusal: "returnErr(Oauth2Error::InvalidGrant);",
                pre: &["letaccount_entry=self.qs_write.internal_search_uuid(code_xchg.account_uuid)", WINDOW_CALL_ACCOUNT_ENTRY],
                success: &["self.generate_access_token_response("], kind: Account },
            what: "OAuth2 authorisation code → tokens",
        },
        Surface {
            sid: "oauth2_refresh", file: OAUTH2, func: "IdmServerProxyWriteTransaction::check_oauth2_token_refresh", entry: true,
            rule: Calls { calls: &[("letvalid=self.check_oauth2_account_uuid_valid(uuid,session_id,parent_session_id,iat,ct).map_err(|_|admin_error!(\"Accountisnotvalid\"));letOk(Some(entry))=validelse{", "check_oauth2_account_uuid_valid")], any: false, forbid: &[] },
            what: "OAuth2 refresh",
        },
        Surface {
            sid: "oauth2_service_account_exchange", file: OAUTH2, func: "IdmServerProxyWriteTransaction::check_oauth2_token_exchange_service_account", entry: true,
            rule: Calls { calls: &[("letident=self.process_apit_to_identity(&apit,Source::Internal,entry,ct).map_err(", "process_apit_to_identity")], any: false, forbid: &[] },
            what: "OAuth2 token exchange of a service account api token",
        },
        Surface {
            sid: "oauth2_token_exchange", file: OAUTH2, func: "IdmServerProxyWriteTransaction::check_oauth2_token_exchange", entry: true,
            rule: Calls { calls: &[
                    ("self.check_oauth2_token_exchange_authorization_code(&o2rs,code,redirect_uri,code_verifier.as_deref(),ct,)", "oauth2_code_exchange"),
                    ("self.check_oauth2_token_refresh(&o2rs,refresh_token,scope.as_ref(),ct)", "oauth2_refresh"),
                    ("self.check_oauth2_token_exchange_service_account(&o2rs,subject_token,subject_token_type,requested_token_type.as_deref(),audience.as_deref(),resource.as_deref(),scope.as_ref(),ct,)", "oauth2_service_account_exchange"),
                ], any: true, forbid: &["Ok("] },
            what: "OAuth2 token endpoint (account-bound grants; client_credentials and device code are not account-bound)",
        },
        Surface {
            sid: "oauth2_introspect_jwt", file: OAUTH2, func: "IdmServerProxyReadTransaction::oauth2_token_introspect_jwt", entry: true,
            rule: Calls { calls: &[("letvalid=self.check_oauth2_account_uuid_valid(sub,session_id,parent_session_id,iat,ct).map_err(|_|admin_error!(\"Accountisnotvalid\"));letOk(Some(entry))=validelse{security_info!(?sub,\"accesstokenaccountisnotvalid,returninginactive\");returnOk(AccessTokenIntrospectResponse::inactive(jti));};", "check_oauth2_account_uuid_valid")], any: false, forbid: &[] },
            what: "OAuth2 introspection of an access token (`active`)",
        },
        Surface {
            sid: "oauth2_introspect_jwe", file: OAUTH2, func: "IdmServerProxyReadTransaction::oauth2_token_introspect_jwe", entry: true,
            rule: Calls { calls: &[("letvalid=self.check_oauth2_account_uuid_valid(uuid,session_id,None,iat,ct).map_err(|_|admin_error!(\"Accountisnotvalid\"));letOk(Some(entry))=validelse{security_info!(?uuid,\"accesstokenaccountisnotvalid,returninginactive\");returnOk(AccessTokenIntrospectResponse::inactive(session_id));};", "check_oauth2_account_uuid_valid")], any: false, forbid: &[] },
            what: "OAuth2 introspection of a client access token (`active`)",
        },
        Surface {
            sid: "oauth2_introspect", file: OAUTH2, func: "IdmServerProxyReadTransaction::check_oauth2_token_introspect", entry: true,
            rule: Calls { calls: &[("self.oauth2_token_introspect_jwt(&jwsc,ct)", "oauth2_introspect_jwt"), ("self.oauth2_token_introspect_jwe(&jwec,ct)", "oauth2_introspect_jwe")], any: true, forbid: &["AccessTokenIntrospectResponse"] },
            what: "OAuth2 introspection endpoint",
        },
        Surface {
            sid: "oauth2_userinfo", file: OAUTH2, func: "IdmServerProxyReadTransaction::oauth2_openid_userinfo", entry: true,
            rule: Calls { calls: &[("letvalid=self.check_oauth2_account_uuid_valid(sub,session_id,parent_session_id,iat,ct).map_err(|_|admin_error!(\"Accountisnotvalid\"));letOk(Some(entry))=validelse{security_info!(?sub,\"accesstokenhasaccountnotvalid,returninginactive\");returnErr(Oauth2Error::InvalidToken);};", "check_oauth2_account_uuid_valid")], any: false, forbid: &[] },
            what: "OIDC userinfo",
        },
    ]
}

/// Discovered functions with a time parameter that are *not* authentication surfaces, with the reason.
const NON_SURFACES: &[(&str, &str, &str)] = &[
    (SERVER, "IdmServerTransaction::pre_validate_client_auth_info", "caches the parse of a login token; validate_client_auth_info_to_ident re-runs process_uat_to_identity on it (C32 prevalidated_same_decision)"),
    (SERVER, "IdmServerTransaction::validate_client_auth_info_to_uat", "whoami reflector: returns the presented token's own content, no identity and no credential (bearer branch judges the token's expiry only)"),
    (SERVER, "IdmServerTransaction::validate_and_parse_token_to_identity_token", "signature + token expiry parse; every caller passes the result to a gated process_*_to_identity (checked per caller)"),
    (SERVER, "IdmServerTransaction::validate_sync_client_auth_info_to_ident", "scim sync tokens belong to sync_account entries, which carry no validity window (class sync_account has neither attribute)"),
    (SERVER, "IdmServerAuthTransaction::expire_auth_sessions", "housekeeping"),
    (OAUTH2, "IdmServerProxyWriteTransaction::oauth2_token_revoke", "revocation, grants nothing"),
    (OAUTH2, "IdmServerProxyWriteTransaction::check_oauth2_authorise_permit", "takes an Identity that validate_client_auth_info_to_ident produced at the same instant"),
    (OAUTH2, "IdmServerProxyWriteTransaction::check_oauth2_token_client_credentials", "client_credentials grant: the subject is the OAuth2 client itself, not an account with a window"),
    (OAUTH2, "IdmServerProxyWriteTransaction::generate_access_token_response", "token minting, reached only through the gated grants (checked per caller)"),
    (OAUTH2, "IdmServerProxyReadTransaction::check_oauth2_authorise_reject", "rejection of a consent request, grants nothing"),
    (OAUTH2, "IdmServerProxyReadTransaction::check_oauth2_authorisation", "takes an Identity that validate_client_auth_info_to_ident produced at the same instant"),
];

// ------------------------------------------------------------------------------------------------
// Part B: rule checking

const LOG_MACROS: &[&str] = &[
    "error", "warn", "info", "debug", "trace", "admin_error", "admin_warn", "admin_info",
    "admin_debug", "security_info", "security_error", "security_debug", "request_error",
];

fn is_log(s: &syn::Stmt) -> bool {
    match s {
        syn::Stmt::Macro(m) => m.mac.path.segments.last().map(|x| LOG_MACROS.contains(&x.ident.to_string().as_str())).unwrap_or(false),
        _ => false,
    }
}

/// `{ <logging>* <tail> }` → whitespace-free tail statement.
fn block_tail_nsp(b: &syn::Block) -> Result<String, String> {
    let n = b.stmts.len();
    if n == 0 {
        return Err("empty block".into());
    }
    for s in &b.stmts[..n - 1] {
        if !is_log(s) {
            return Err(format!("unexpected statement `{}` before the block's result", toks(s)));
        }
    }
    Ok(nsp(&b.stmts[n - 1]))
}

/// Index and expression of the top-level `if` statement of `block` whose condition is `cond`.
fn top_level_if<'a>(block: &'a syn::Block, cond: &str) -> Vec<(usize, &'a syn::ExprIf)> {
    let mut out = vec![];
    for (k, s) in block.stmts.iter().enumerate() {
        let e = match s {
            syn::Stmt::Expr(e, _) => e,
            _ => continue,
        };
        if let syn::Expr::If(i) = e {
            if nsp(&*i.cond) == cond {
                out.push((k, i));
            }
        }
    }
    out
}

fn check_ifnot(s: &Surface, f: &FoundFn, scope: Option<&str>, cond: &str, refusal: &str, pre: &[&str], success: &[&str]) -> Result<(), String> {
    let name = s.func;
    // the block the gate has to be a top-level statement of
    let (block, outer_prefix): (&syn::Block, String) = match scope {
        None => (&f.block, String::new()),
        Some(sc) => {
            let v = top_level_if(&f.block, sc);
            if v.len() != 1 {
                return Err(format!("{name}: expected one top-level `if {sc}`, found {}", v.len()));
            }
            (&v[0].1.then_branch, String::new())
        }
    };
    let want = format!("!{cond}");
    let v = top_level_if(block, &want);
    if v.len() != 1 {
        // is it anywhere at all?
        let anywhere = nsp(&f.block).contains(&format!("if{want}{{"));
        return Err(format!(
            "{name}: validity gate `if !{cond} {{ .. }}` {} (surface `{}`: {})",
            if anywhere { "is no longer a top-level early return of the expected block" } else { "is missing" },
            s.sid,
            s.what
        ));
    }
    let (k, gate) = v[0];
    if gate.else_branch.is_some() {
        return Err(format!("{name}: the validity gate has an else branch"));
    }
    let tail = block_tail_nsp(&gate.then_branch).map_err(|e| format!("{name}: validity gate body: {e}"))?;
    if tail != refusal {
        return Err(format!("{name}: a failed validity gate answers `{tail}`, expected `{refusal}`"));
    }
    // everything before the gate: the required snippets in order, and no success marker / `return Ok`
    let before: String = outer_prefix + &block.stmts[..k].iter().map(|s| nsp(s)).collect::<Vec<_>>().join("");
    let mut pos = 0usize;
    for p in pre {
        match before[pos..].find(p) {
            Some(o) => pos += o + p.len(),
            None => return Err(format!("{name}: before the validity gate, expected `{p}` (which entry / which attributes the gate judges)")),
        }
    }
    for m in success {
        if *m != "true" && before.contains(m) {
            return Err(format!("{name}: success expression `{m}` occurs before the validity gate"));
        }
    }
    if before.contains("returnOk(") || before.contains("returntrue") {
        return Err(format!("{name}: a success return occurs before the validity gate"));
    }
    // and the success markers exist after it
    let after: String = block.stmts[k + 1..].iter().map(|s| nsp(s)).collect::<Vec<_>>().join("");
    for m in success {
        if !after.contains(m) {
            return Err(format!("{name}: success expression `{m}` not found after the validity gate"));
        }
    }
    Ok(())
}

fn check_stateif(s: &Surface, f: &FoundFn, cond: &str, else_tail: &str, denied_arm: &str) -> Result<(), String> {
    let name = s.func;
    let mut found = None;
    for st in &f.block.stmts {
        if let syn::Stmt::Local(l) = st {
            if nsp(&l.pat) == "state" {
                found = l.init.as_ref().map(|i| (*i.expr).clone());
            }
        }
    }
    let e = found.ok_or_else(|| format!("{name}: no top-level `let state = ..`"))?;
    let syn::Expr::If(i) = &e else { return Err(format!("{name}: `state` is not an `if`")) };
    if nsp(&*i.cond) != cond {
        return Err(format!("{name}: `state` is decided by `{}`, expected `{cond}` (validity gate missing or moved)", toks(&*i.cond)));
    }
    let eb = match &i.else_branch {
        Some((_, e)) => match &**e {
            syn::Expr::Block(b) => block_tail_nsp(&b.block).map_err(|e| format!("{name}: else branch: {e}"))?,
            o => nsp(o),
        },
        None => return Err(format!("{name}: the validity gate has no else branch")),
    };
    if eb != else_tail {
        return Err(format!("{name}: outside the window `state` is `{eb}`, expected `{else_tail}`"));
    }
    if !nsp(&f.block).contains(denied_arm) {
        return Err(format!("{name}: expected the expired state to be answered by `{denied_arm}`"));
    }
    // exactly one construction of a session, and it is after the gate (textually)
    let body = nsp(&f.block);
    let gate_at = body.find(&format!("letstate=if{cond}")).ok_or_else(|| format!("{name}: gate text not found"))?;
    match body.find("AuthSession{") {
        Some(p) if p > gate_at => Ok(()),
        Some(_) => Err(format!("{name}: a session is constructed before the validity gate")),
        None => Err(format!("{name}: no session construction found")),
    }
}

fn check_field(s: &Surface, f: &FoundFn, field: &str, expr: &str) -> Result<(), String> {
    let want = format!("{field}:{expr},");
    let body = nsp(&f.block);
    if body.matches(&format!("{field}:")).count() != 1 || !body.contains(&want) {
        return Err(format!("{}: expected exactly one `{field}: {expr}` in the token", s.func));
    }
    Ok(())
}

fn check_calls(s: &Surface, f: &FoundFn, calls: &[(&str, &str)], forbid: &[&str]) -> Result<(), String> {
    let body = nsp(&f.block);
    for (text, callee) in calls {
        if !body.contains(text) {
            return Err(format!("{}: expected `{text}` (the path through gated `{callee}`; surface `{}`: {})", s.func, s.sid, s.what));
        }
    }
    for fb in forbid {
        if body.contains(fb) {
            return Err(format!("{}: builds `{fb}..` itself; it must only forward the result of its gated callees", s.func));
        }
    }
    Ok(())
}

fn generate(repo: &str, out: &str) -> Result<String, String> {
    // ---- Part A
    let acct_ast = parse_file(repo, ACCOUNT)?;
    let f = find_fn(&acct_ast, "Account::check_within_valid_time")?;
    let ga = gate("check_within_valid_time", &f, "valid_from", "expire")?;
    let f = find_fn(&acct_ast, "Account::is_within_valid_time")?;
    let body = nsp(&f.block);
    if body != "{Self::check_within_valid_time(ct,self.valid_from.as_ref(),self.expire.as_ref())}" {
        return Err(format!("Account::is_within_valid_time is `{}`; expected check_within_valid_time(ct, self.valid_from, self.expire)", toks(&f.block)));
    }
    let acct_src: String = std::fs::read_to_string(format!("{repo}/{ACCOUNT}")).map_err(|e| e.to_string())?.chars().filter(|c| !c.is_whitespace()).collect();
    for want in [
        "letvalid_from=$value.get_ava_single_datetime(Attribute::AccountValidFrom);",
        "letexpire=$value.get_ava_single_datetime(Attribute::AccountExpire);",
    ] {
        if acct_src.matches(want).count() != 1 {
            return Err(format!("account.rs try_from_entry!: expected exactly one `{want}`"));
        }
    }
    let rad_ast = parse_file(repo, RADIUS)?;
    let f = find_fn(&rad_ast, "RadiusAccount::is_within_valid_time")?;
    let gr = gate("RadiusAccount::is_within_valid_time", &f, "&self.valid_from", "&self.expire")?;
    // where RadiusAccount's window comes from
    let f = find_fn(&rad_ast, "RadiusAccount::try_from_entry_reduced")?;
    let vf = find_local(&f.block, "valid_from").map_err(|e| format!("try_from_entry_reduced: {e}"))?;
    let ex = find_local(&f.block, "expire").map_err(|e| format!("try_from_entry_reduced: {e}"))?;
    let rbody = nsp(&f.block);
    let view_of = |e: &syn::Expr, attr: &str| -> Result<&'static str, String> {
        let t = nsp(e);
        if t == format!("stored.get_ava_single_datetime(Attribute::{attr})") {
            if rbody.contains("letstored=qs.internal_search_uuid(uuid)?;") && rbody.contains("letuuid=value.get_uuid();") {
                Ok("stored")
            } else {
                Err("try_from_entry_reduced: `stored` is not `qs.internal_search_uuid(value.get_uuid())?`".into())
            }
        } else if t == format!("value.get_ava_single_datetime(Attribute::{attr})") {
            Ok("reduced")
        } else {
            Err(format!("try_from_entry_reduced: unrecognised source of {attr}: `{}`", toks(e)))
        }
    };
    let rv1 = view_of(&vf, "AccountValidFrom")?;
    let rv2 = view_of(&ex, "AccountExpire")?;
    let radius_view = if rv1 == "stored" && rv2 == "stored" { "stored" } else { "reduced" };
    if !rbody.contains("valid_from,expire,}") {
        return Err("try_from_entry_reduced: the RadiusAccount is not built from `valid_from, expire`".into());
    }

    // ---- Part B: discovery vs classification
    let found = discover(repo)?;
    let table = surfaces();
    let mut classified: BTreeSet<(String, String)> = BTreeSet::new();
    for s in &table {
        if s.entry {
            classified.insert((s.file.to_string(), s.func.to_string()));
        }
    }
    for (file, func, _) in NON_SURFACES {
        classified.insert((file.to_string(), func.to_string()));
    }
    let unclassified: Vec<String> = found.iter().filter(|d| !classified.contains(*d)).map(|d| format!("{}::{}", d.0, d.1)).collect();
    if unclassified.len() > 1 {
        return Err(format!("unclassified functions taking the request time: {}", unclassified.join(", ")));
    }
    for d in &found {
        if !classified.contains(d) {
            return Err(format!(
                "{}::{} takes the request time but is not classified: decide whether it authenticates an account or releases a credential (then it needs the validity gate and a row in the surface table) or not (NON_SURFACES with a reason)",
                d.0, d.1
            ));
        }
    }
    for c in &classified {
        if !found.contains(c) {
            return Err(format!("{}::{} is classified but no longer exists with a `ct` parameter", c.0, c.1));
        }
    }

    // ---- Part B: every row's rule
    let mut files: BTreeMap<&str, syn::File> = BTreeMap::new();
    let sids: BTreeSet<&str> = table.iter().map(|s| s.sid).collect();
    let mut rows = vec![];
    for s in &table {
        if !files.contains_key(s.file) {
            files.insert(s.file, parse_file(repo, s.file)?);
        }
        let f = find_fn(&files[s.file], s.func).map_err(|e| format!("{}: {e}", s.file))?;
        let (gate, view, calls, any) = match &s.rule {
            Rule::IfNot { scope, cond, refusal, pre, success, kind } => {
                check_ifnot(s, &f, *scope, cond, refusal, pre, success)?;
                let view = if *kind == GateKind::Radius { radius_view } else { "stored" };
                (Some(*kind), view, vec![], false)
            }
            Rule::StateIf { cond, else_tail, denied_arm } => {
                check_stateif(s, &f, cond, else_tail, denied_arm)?;
                (Some(GateKind::Account), "stored", vec![], false)
            }
            Rule::Field { field, expr } => {
                check_field(s, &f, field, expr)?;
                (Some(GateKind::Account), "stored", vec![], false)
            }
            Rule::Calls { calls, any, forbid } => {
                check_calls(s, &f, calls, forbid)?;
                let mut cs: Vec<&str> = vec![];
                for (_, c) in calls.iter() {
                    if !sids.contains(c) {
                        return Err(format!("surface table: `{}` calls unknown `{c}`", s.sid));
                    }
                    if !cs.contains(c) {
                        cs.push(c);
                    }
                }
                (None, "stored", cs, *any)
            }
        };
        rows.push((s, gate, view, calls, any));
    }

    // ---- emit
    let mut b = String::new();
    b += "namespace Kanidm.Gen.Validity\n";
    b += &gate_lean("acct", "Account::check_within_valid_time", &ga);
    b += &gate_lean("rad", "RadiusAccount::is_within_valid_time", &gr);
    b += "/-- Functions of the IDM transaction types that authenticate an account, release one of its credentials,\nor are the gated inner function such an entry point relies on. -/\ninductive Sid where\n";
    for s in &table {
        b += &format!("  | {}\n", s.sid);
    }
    b += "  deriving DecidableEq, Repr\n";
    b += "inductive GateKind where\n  | account\n  | radius\n  deriving DecidableEq, Repr\n";
    b += "/-- Which entry the gate's two attributes are read from. -/\ninductive View where\n  | stored\n  | reduced\n  deriving DecidableEq, Repr\n";
    b += "/-- `gate`: the validity test the function itself contains, found as an early return (or the deciding\n`if` / the `valid` field) placed before every success expression; `calls`: gated functions its successes flow\nthrough (`anyCall` = alternatives, otherwise all of them). -/\nstructure Row where\n  sid : Sid\n  entry : Bool\n  gate : Option GateKind\n  view : View\n  calls : List Sid\n  anyCall : Bool\n  deriving Repr, DecidableEq\n";
    b += "def rows : List Row := [\n";
    let n = rows.len();
    for (k, (s, gate, view, calls, any)) in rows.iter().enumerate() {
        let g = match gate {
            None => "none".to_string(),
            Some(GateKind::Account) => "some .account".to_string(),
            Some(GateKind::Radius) => "some .radius".to_string(),
        };
        b += &format!(
            "  ⟨.{}, {}, {g}, .{view}, [{}], {}⟩{}  -- {} `{}`: {}\n",
            s.sid,
            lb(s.entry),
            calls.iter().map(|c| format!(".{c}")).collect::<Vec<_>>().join(", "),
            lb(*any),
            if k + 1 < n { "," } else { "" },
            s.file.rsplit('/').next().unwrap_or(""),
            s.func,
            s.what
        );
    }
    b += "]\n";
    b += "def sidNames : List (String × Sid) := [\n";
    for (k, s) in table.iter().enumerate() {
        b += &format!("  (\"{}\", .{}){}\n", s.sid, s.sid, if k + 1 < table.len() { "," } else { "" });
    }
    b += "]\n";
    b += &format!("/-- Discovered functions with a time parameter that are not surfaces: {}. -/\ndef nonSurfaceCount : Nat := {}\n",
        NON_SURFACES.iter().map(|(_, f, _)| f.rsplit("::").next().unwrap_or("")).collect::<Vec<_>>().join(", "), NON_SURFACES.len());
    b += "end Kanidm.Gen.Validity\n";
    write_generated(
        out,
        "ValidityOps",
        "server/lib/src/idm/{account,radius,server,oauth2,serviceaccount,application,reauth,authsession/mod}.rs",
        &b,
    )?;
    Ok(format!("ValidityOps: 2 gates, {} surface rows ({} entry points, {} non-surfaces), radius view {radius_view}", table.len(), table.iter().filter(|s| s.entry).count(), NON_SURFACES.len()))
}
